package props

import (
	"bytes"
	"encoding/binary"
	"fmt"
	"net"
	"reflect"
	"sort"
	"strings"
	"testing"
	"time"

	"github.com/insomniacslk/dhcp/dhcpv4"
	"github.com/insomniacslk/dhcp/iana"
	"github.com/insomniacslk/dhcp/rfc1035label"
	"pgregory.net/rapid"

	"verif/gen"
	"verif/obs"
	"verif/ref/reflabel"
	"verif/ref/refv4"
)

// C17 — DHCPv4 typed accessors agree with the raw option bytes.
//
// Each accessor has an independent reference interpretation of the raw value
// (RFC 2132 / 3004 / 3046 / 3397 / 3442 / 3925 / 4578 / 8925). Results are
// rendered canonically and compared as strings. "grey" means the RFCs do not
// decide the value; then nothing is asserted.

const c17Def = 123456789 * time.Nanosecond

type c17Acc struct {
	name string
	code uint8
	lib  func(p *dhcpv4.DHCPv4) string
	ref  func(v []byte) (want string, grey bool) // v == nil means absent
}

func rIP(ip net.IP) string {
	if ip == nil {
		return "nil"
	}
	return fmt.Sprintf("ip:%x", []byte(ip.To4()))
}
func rIPs(l []net.IP) string {
	if len(l) == 0 {
		return "nil"
	}
	var s []string
	for _, ip := range l {
		s = append(s, rIP(ip))
	}
	return strings.Join(s, ",")
}
func refIP(v []byte) (string, bool) {
	if len(v) == 4 {
		return fmt.Sprintf("ip:%x", v), false
	}
	return "nil", false
}
func refIPs(v []byte) (string, bool) {
	if len(v) > 0 && len(v)%4 == 0 {
		var s []string
		for i := 0; i < len(v); i += 4 {
			s = append(s, fmt.Sprintf("ip:%x", v[i:i+4]))
		}
		return strings.Join(s, ","), false
	}
	return "nil", false
}
func refStr(v []byte) (string, bool) { return fmt.Sprintf("%q", string(v)), false }
func refTrim(v []byte) (string, bool) {
	return fmt.Sprintf("%q", strings.TrimRight(string(v), "\x00")), false
}
func refDur(v []byte) (string, bool) {
	if len(v) == 4 {
		return (time.Duration(binary.BigEndian.Uint32(v)) * time.Second).String(), false
	}
	return c17Def.String(), false
}

func c17Table() []c17Acc {
	ipAcc := func(name string, code uint8, f func(p *dhcpv4.DHCPv4) net.IP) c17Acc {
		return c17Acc{name, code, func(p *dhcpv4.DHCPv4) string { return rIP(f(p)) }, refIP}
	}
	ipsAcc := func(name string, code uint8, f func(p *dhcpv4.DHCPv4) []net.IP) c17Acc {
		return c17Acc{name, code, func(p *dhcpv4.DHCPv4) string { return rIPs(f(p)) }, refIPs}
	}
	strAcc := func(name string, code uint8, f func(p *dhcpv4.DHCPv4) string, trim bool) c17Acc {
		r := refStr
		if trim {
			r = refTrim
		}
		return c17Acc{name, code, func(p *dhcpv4.DHCPv4) string { return fmt.Sprintf("%q", f(p)) }, r}
	}
	durAcc := func(name string, code uint8, f func(p *dhcpv4.DHCPv4, d time.Duration) time.Duration) c17Acc {
		return c17Acc{name, code, func(p *dhcpv4.DHCPv4) string { return f(p, c17Def).String() }, refDur}
	}
	return []c17Acc{
		ipAcc("BroadcastAddress", 28, (*dhcpv4.DHCPv4).BroadcastAddress),
		ipAcc("RequestedIPAddress", 50, (*dhcpv4.DHCPv4).RequestedIPAddress),
		ipAcc("ServerIdentifier", 54, (*dhcpv4.DHCPv4).ServerIdentifier),
		ipsAcc("Router", 3, (*dhcpv4.DHCPv4).Router),
		ipsAcc("NTPServers", 42, (*dhcpv4.DHCPv4).NTPServers),
		ipsAcc("NetBIOSNameServers", 44, (*dhcpv4.DHCPv4).NetBIOSNameServers),
		ipsAcc("DNS", 6, (*dhcpv4.DHCPv4).DNS),
		strAcc("DomainName", 15, (*dhcpv4.DHCPv4).DomainName, false),
		strAcc("RootPath", 17, (*dhcpv4.DHCPv4).RootPath, false),
		strAcc("ClassIdentifier", 60, (*dhcpv4.DHCPv4).ClassIdentifier, false),
		strAcc("Message", 56, (*dhcpv4.DHCPv4).Message, false),
		strAcc("HostName", 12, (*dhcpv4.DHCPv4).HostName, true),
		strAcc("BootFileNameOption", 67, (*dhcpv4.DHCPv4).BootFileNameOption, true),
		strAcc("TFTPServerName", 66, (*dhcpv4.DHCPv4).TFTPServerName, true),
		durAcc("IPAddressLeaseTime", 51, (*dhcpv4.DHCPv4).IPAddressLeaseTime),
		durAcc("IPAddressRenewalTime", 58, (*dhcpv4.DHCPv4).IPAddressRenewalTime),
		durAcc("IPAddressRebindingTime", 59, (*dhcpv4.DHCPv4).IPAddressRebindingTime),
		{"IPv6OnlyPreferred", 108, func(p *dhcpv4.DHCPv4) string {
			d, ok := p.IPv6OnlyPreferred()
			return fmt.Sprintf("%v/%v", d, ok)
		}, func(v []byte) (string, bool) {
			if len(v) == 4 {
				return fmt.Sprintf("%v/true", time.Duration(binary.BigEndian.Uint32(v))*time.Second), false
			}
			return "0s/false", false
		}},
		{"MaxMessageSize", 57, func(p *dhcpv4.DHCPv4) string {
			u, err := p.MaxMessageSize()
			if err != nil {
				return "error"
			}
			return fmt.Sprint(u)
		}, func(v []byte) (string, bool) {
			if len(v) == 2 {
				return fmt.Sprint(binary.BigEndian.Uint16(v)), false
			}
			return "error", false
		}},
		{"AutoConfigure", 116, func(p *dhcpv4.DHCPv4) string {
			a, ok := p.AutoConfigure()
			return fmt.Sprintf("%d/%v", byte(a), ok)
		}, func(v []byte) (string, bool) {
			if len(v) == 1 {
				return fmt.Sprintf("%d/true", v[0]), false
			}
			return "0/false", false
		}},
		{"MessageType", 53, func(p *dhcpv4.DHCPv4) string { return fmt.Sprint(byte(p.MessageType())) }, func(v []byte) (string, bool) {
			if len(v) == 1 {
				return fmt.Sprint(v[0]), false
			}
			return "0", false
		}},
		{"ParameterRequestList", 55, func(p *dhcpv4.DHCPv4) string {
			var s []string
			for _, c := range p.ParameterRequestList() {
				s = append(s, fmt.Sprint(c.Code()))
			}
			return strings.Join(s, ",")
		}, func(v []byte) (string, bool) {
			var s []string
			for _, c := range v {
				s = append(s, fmt.Sprint(c))
			}
			return strings.Join(s, ","), false
		}},
		{"IsOptionRequested(3)", 55, func(p *dhcpv4.DHCPv4) string { return fmt.Sprint(p.IsOptionRequested(dhcpv4.OptionRouter)) }, func(v []byte) (string, bool) {
			if v == nil {
				return "true", false
			}
			return fmt.Sprint(bytes.IndexByte(v, 3) >= 0), false
		}},
		{"SubnetMask", 1, func(p *dhcpv4.DHCPv4) string {
			m := p.SubnetMask()
			if m == nil {
				return "nil"
			}
			return fmt.Sprintf("mask:%x", []byte(m))
		}, func(v []byte) (string, bool) {
			if len(v) == 4 {
				return fmt.Sprintf("mask:%x", v), false
			}
			return "nil", false
		}},
		{"ClasslessStaticRoute", 121, func(p *dhcpv4.DHCPv4) string {
			rs := p.ClasslessStaticRoute()
			if len(rs) == 0 {
				return "nil"
			}
			var s []string
			for _, r := range rs {
				ones, bits := r.Dest.Mask.Size()
				s = append(s, fmt.Sprintf("%x/%d(%d)>%x", []byte(r.Dest.IP.To4()), ones, bits, []byte(r.Router.To4())))
			}
			return strings.Join(s, ";")
		}, func(v []byte) (string, bool) {
			var s []string
			i := 0
			for i < len(v) {
				ml := int(v[i])
				if ml > 32 {
					return "nil", false
				}
				n := (ml + 7) / 8
				if i+1+n+4 > len(v) {
					return "nil", false
				}
				var d [4]byte
				copy(d[:], v[i+1:i+1+n])
				s = append(s, fmt.Sprintf("%x/%d(32)>%x", d[:], ml, v[i+1+n:i+1+n+4]))
				i += 1 + n + 4
			}
			if len(s) == 0 {
				return "nil", false
			}
			return strings.Join(s, ";"), false
		}},
		{"UserClass", 77, func(p *dhcpv4.DHCPv4) string {
			uc := p.UserClass()
			if uc == nil {
				return "nil"
			}
			return fmt.Sprintf("%q", uc)
		}, func(v []byte) (string, bool) {
			if v == nil {
				return "nil", false
			}
			// RFC 3004: one or more (len, data) items with len ≥ 1 tiling the value;
			// otherwise the documented fallback: the whole value as a single string.
			var items []string
			ok := len(v) > 0
			for i := 0; ok && i < len(v); {
				l := int(v[i])
				if l == 0 || i+1+l > len(v) {
					ok = false
					break
				}
				items = append(items, string(v[i+1:i+1+l]))
				i += 1 + l
			}
			if ok {
				return fmt.Sprintf("%q", items), false
			}
			return fmt.Sprintf("%q", []string{string(v)}), false
		}},
		{"VIVC", 124, func(p *dhcpv4.DHCPv4) string {
			ids := p.VIVC()
			if len(ids) == 0 {
				return "nil"
			}
			var s []string
			for _, id := range ids {
				s = append(s, fmt.Sprintf("%d:%x", uint32(id.EntID), id.Data))
			}
			return strings.Join(s, ";")
		}, func(v []byte) (string, bool) {
			var s []string
			i := 0
			for i < len(v) {
				if i+5 > len(v) {
					return "nil", false
				}
				l := int(v[i+4])
				if i+5+l > len(v) {
					return "nil", false
				}
				s = append(s, fmt.Sprintf("%d:%x", binary.BigEndian.Uint32(v[i:]), v[i+5:i+5+l]))
				i += 5 + l
			}
			if len(s) == 0 {
				return "nil", false
			}
			return strings.Join(s, ";"), false
		}},
		{"ClientArch", 93, func(p *dhcpv4.DHCPv4) string {
			a := p.ClientArch()
			if len(a) == 0 {
				return "nil"
			}
			var s []string
			for _, x := range a {
				s = append(s, fmt.Sprint(uint16(x)))
			}
			return strings.Join(s, ",")
		}, func(v []byte) (string, bool) {
			if len(v) == 0 || len(v)%2 != 0 {
				return "nil", false
			}
			var s []string
			for i := 0; i < len(v); i += 2 {
				s = append(s, fmt.Sprint(binary.BigEndian.Uint16(v[i:])))
			}
			return strings.Join(s, ","), false
		}},
		{"DomainSearch", 119, func(p *dhcpv4.DHCPv4) string {
			l := p.DomainSearch()
			if l == nil {
				return "nil"
			}
			return fmt.Sprintf("%q", append([]string{}, l.Labels...))
		}, func(v []byte) (string, bool) {
			if v == nil {
				return "nil", false
			}
			names, class, _ := reflabel.DecodeReasons(v)
			switch class {
			case reflabel.Malformed:
				return "nil", false
			case reflabel.Grey:
				return "", true
			}
			return fmt.Sprintf("%q", append([]string{}, names...)), false
		}},
		{"RelayAgentInfo", 82, func(p *dhcpv4.DHCPv4) string {
			r := p.RelayAgentInfo()
			if r == nil {
				return "nil"
			}
			return renderOptMap(r.Options)
		}, func(v []byte) (string, bool) {
			if v == nil {
				return "nil", false
			}
			// RFC 3046: a run of SubOpt/Len/Value triples tiling the value.
			// Sub-option codes 0 and 255 have no defined meaning there: grey.
			for i := 0; i < len(v); {
				if v[i] == 0 || v[i] == 255 {
					return "", true
				}
				if i+1 >= len(v) {
					break
				}
				i += 2 + int(v[i+1])
			}
			m, _, why := refv4.DecodeOptions(v, false)
			if why != refv4.OK {
				return "nil", false
			}
			g := dhcpv4.Options{}
			for k, x := range m {
				g[k] = x
			}
			return renderOptMap(g), false
		}},
	}
}

func renderOptMap(o dhcpv4.Options) string {
	var ks []int
	for k := range o {
		ks = append(ks, int(k))
	}
	sort.Ints(ks)
	s := []string{"{"}
	for _, k := range ks {
		s = append(s, fmt.Sprintf("%d=%x", k, o[uint8(k)]))
	}
	return strings.Join(s, " ") + " }"
}

type c17Case struct {
	Acc   string  `json:"accessor"`
	State int     `json:"state"` // 0 value present, 1 key absent, 2 key present with nil value
	Val   obs.Hex `json:"val"`
	Hdr   int     `json:"hdr,omitempty"` // header shape of the packet around the option (c17Packet)
	Bg    uint64  `json:"bg,omitempty"`  // which well-formed OTHER options accompany it (bit i: c17Pool[i])
}

// c17Pool: well-formed values of the other options a packet may carry. An accessor reads its own option only:
// whatever else the packet holds — opcode, addresses, other options that are related by some RFC (classless
// routes next to a router option, overload next to names, a client identifier next to a class identifier) —
// changes nothing about "the RFC interpretation of that option's raw value".
var c17Pool = []struct {
	code uint8
	v    []byte
}{
	{1, []byte{255, 255, 255, 0}}, {3, []byte{10, 0, 0, 1}}, {6, []byte{8, 8, 8, 8, 8, 8, 4, 4}}, {12, []byte("host")}, {15, []byte("example.org")},
	{17, []byte("/root")}, {28, []byte{10, 0, 0, 255}}, {42, []byte{10, 0, 0, 2}}, {43, []byte{1, 2, 3}}, {44, []byte{10, 0, 0, 3}}, {50, []byte{10, 0, 0, 9}},
	{51, []byte{0, 0, 14, 16}}, {52, []byte{3}}, {53, []byte{5}}, {54, []byte{10, 0, 0, 1}}, {55, []byte{1, 3, 6, 15, 121}}, {56, []byte("msg")}, {57, []byte{5, 220}},
	{58, []byte{0, 0, 7, 8}}, {59, []byte{0, 0, 12, 78}}, {60, []byte("cls")}, {61, []byte{1, 2, 0x11, 0x22, 0x33, 0x44, 0x55}}, {66, []byte("tftp")}, {67, []byte("boot")},
	{77, []byte{3, 'a', 'b', 'c'}}, {82, []byte{1, 2, 'x', 'y'}}, {93, []byte{0, 7}}, {97, append([]byte{0}, make([]byte, 16)...)}, {108, []byte{0, 0, 0, 60}}, {116, []byte{1}},
	{119, []byte{1, 'a', 0}}, {121, []byte{24, 10, 0, 0, 10, 0, 0, 1}}, {124, []byte{0, 0, 0, 9, 2, 'a', 'b'}}, {125, []byte{0, 0, 0, 9, 3, 1, 1, 'x'}}, {249, []byte{0, 10, 0, 0, 1}},
}

// c17Packet builds the packet around the option under test.
func c17Packet(c c17Case, own uint8) *dhcpv4.DHCPv4 {
	p, _ := dhcpv4.New()
	switch c.Hdr % 4 {
	case 1:
		p.OpCode = dhcpv4.OpcodeBootReply
		p.YourIPAddr, p.ServerIPAddr = net.IP{10, 0, 0, 50}, net.IP{10, 0, 0, 1}
	case 2:
		p.SetBroadcast()
		p.GatewayIPAddr, p.HopCount, p.ClientIPAddr = net.IP{10, 0, 9, 1}, 3, net.IP{10, 0, 0, 50}
	case 3:
		p.OpCode = dhcpv4.OpcodeBootReply
		p.HWType, p.ClientHWAddr = 32, nil
		p.ServerHostName, p.BootFileName = "srv", "pxelinux.0"
	}
	for i, o := range c17Pool {
		if c.Bg&(1<<uint(i)) != 0 && o.code != own {
			p.Options[o.code] = append([]byte{}, o.v...)
		}
	}
	return p
}

var c17tab = c17Table()

var c17 = newChk("C17", "accessor-vs-raw",
	"for every typed accessor of *DHCPv4: raw option values of every length 0..64 (structured: valid prefix + tail, boundary mask widths, zero-length items; and random) plus absent / nil-valued options, compared with an independent per-option RFC interpretation (well-formed ⇒ equal value, malformed/absent ⇒ documented default, never a partial value); non-trivial = value non-empty; distinct by hash of (accessor, value)",
	func(rec *obs.Rec, c c17Case) *obs.Fail {
		var a *c17Acc
		for i := range c17tab {
			if c17tab[i].name == c.Acc {
				a = &c17tab[i]
			}
		}
		if a == nil {
			return obs.Failf("C17/harness", "known accessor", "%s", c.Acc)
		}
		p := c17Packet(c, a.code)
		var v []byte
		switch c.State {
		case 0:
			v = append([]byte{}, c.Val...)
			p.Options[a.code] = append([]byte{}, c.Val...)
		case 2:
			p.Options[a.code] = nil
		}
		want, grey := a.ref(v)
		got := a.lib(p)
		if grey {
			rec.Class(a.name + "/grey")
			return nil
		}
		if got != want {
			return obs.Failf("C17/"+a.name, want, "%s   (raw value %x, state %d)", got, clipb(c.Val), c.State)
		}
		// what the accessor returned belongs to the caller: overwriting it in place (every byte slice reachable from the
		// result: addresses, masks, payloads) changes neither the packet nor what the accessor returns next time, for
		// this packet or any other
		if m := reflect.ValueOf(p).MethodByName(a.name); m.IsValid() && m.Type().NumIn() == 0 {
			outs := m.Call(nil)
			touched := 0
			for _, o := range outs {
				if o.CanInterface() {
					touched += scribbleValue(o.Interface(), 0xA5)
				}
			}
			if touched > 0 {
				if again := a.lib(p); again != want {
					return obs.Failf("C17/"+a.name+"/result-shares-memory", want, "%s after an earlier result was overwritten in place (raw value %x)", again, clipb(c.Val))
				}
				rec.Class("accessor result overwritten, read again")
			}
		}
		// the accessor must not have changed the stored bytes
		if c.State == 0 && !bytes.Equal(p.Options[a.code], c.Val) {
			return obs.Failf("C17/"+a.name+"/mutates", fmt.Sprintf("%x", clipb(c.Val)), "%x", clipb(p.Options[a.code]))
		}
		wf := "default"
		if want != mustDefault(a) {
			wf = "value"
		}
		rec.Class(a.name + "/" + wf)
		if c.State == 0 && len(c.Val) > 0 {
			if c.Bg != 0 || c.Hdr != 0 {
				rec.Class("option read inside a packet with other options / header shapes")
			}
			rec.NonTrivial(obs.Hash64([]byte(a.name), c.Val, []byte(fmt.Sprintf("%d/%x", c.Hdr, c.Bg))), func() any {
				return map[string]any{"accessor": a.name, "raw": hx(clipb(c.Val)), "result": got, "header_shape": c.Hdr, "other_options_mask": fmt.Sprintf("%x", c.Bg)}
			})
		}
		return nil
	})

func mustDefault(a *c17Acc) string { w, _ := a.ref(nil); return w }

// c17Structured yields structured values of length n for an accessor.
func c17Structured(a *c17Acc, n int) [][]byte {
	var out [][]byte
	zero := make([]byte, n)
	cnt := make([]byte, n)
	ff := bytes.Repeat([]byte{0xff}, n)
	for i := range cnt {
		cnt[i] = byte(i + 1)
	}
	out = append(out, zero, cnt, ff)
	add := func(b []byte) {
		if len(b) == n {
			out = append(out, b)
		}
	}
	switch a.code {
	case 121:
		for ml := 0; ml <= 40; ml++ {
			k := (min(ml, 32) + 7) / 8
			r := append([]byte{byte(ml)}, cnt[:min(k, n)]...)
			r = append(r, 10, 0, 0, 1)
			for len(r) < n {
				r = append(r, r[len(r)%max(1, len(r)/2)])
			}
			add(r[:min(len(r), n)])
			// two routes
			r2 := append([]byte{byte(ml)}, make([]byte, k)...)
			r2 = append(r2, 1, 2, 3, 4, 0, 9, 9, 9, 9)
			add(r2)
		}
		for _, ml := range []int{249, 252, 255, 33, 128} {
			add(append([]byte{byte(ml)}, cnt[:max(0, n-1)]...))
		}
	case 77:
		// tiling items, an empty item, an overrunning item
		var t []byte
		for len(t) < n {
			l := min(3, n-len(t)-1)
			if l <= 0 {
				break
			}
			t = append(t, byte(l))
			t = append(t, cnt[:l]...)
		}
		add(t)
		if n >= 2 {
			add(append([]byte{byte(n - 1)}, cnt[:n-1]...))
			add(append([]byte{byte(n)}, cnt[:n-1]...))
			add(append([]byte{0}, cnt[:n-1]...))
		}
	case 124:
		if n >= 5 {
			add(append([]byte{0, 0, 0, 9, byte(n - 5)}, cnt[:n-5]...))
			add(append([]byte{0, 0, 0, 9, byte(n - 4)}, cnt[:n-5]...))
			if n >= 10 {
				add(append(append([]byte{0, 0, 0, 9, byte(n - 10)}, cnt[:n-10]...), 0, 0, 1, 55, 0))
				add(append([]byte{0, 0, 1, 55, 0, 0, 0, 0, 9, byte(n - 10)}, cnt[:n-10]...))
			}
		}
	case 82:
		if n >= 2 {
			add(append([]byte{1, byte(n - 2)}, cnt[:n-2]...))
			add(append([]byte{1, byte(n - 1)}, cnt[:n-2]...))
			add(append(append([]byte{1, byte(n - 2)}, cnt[:n-2]...)[:n-1], 7)) // lone trailing code byte
		}
		if n >= 6 {
			add(append(append([]byte{2, 1, 0xaa, 1, byte(n - 6)}, cnt[:n-6]...), 2))
			add(append([]byte{2, 1, 0xaa, 2, 1, 0xbb}, make([]byte, n-6)...))
		}
	case 119:
		if n >= 2 {
			add(append(append([]byte{byte(n - 2)}, bytes.Repeat([]byte{'a'}, n-2)...), 0))
			add(append([]byte{byte(n - 1)}, bytes.Repeat([]byte{'a'}, n-1)...))
		}
		if n >= 7 {
			add(append(append([]byte{1, 'a', 0, byte(n - 6)}, bytes.Repeat([]byte{'b'}, n-6)...), 0xC0, 0))
			add(append(append([]byte{1, 'a', 0, byte(n - 6)}, bytes.Repeat([]byte{'b'}, n-6)...), 0xC0, 0x7F))
		}
	}
	return out
}

// TestC17_Lengths: every accessor × every length 0..64 × structured values × {present, absent, nil}.
func TestC17_Lengths(t *testing.T) {
	for i := range c17tab {
		a := &c17tab[i]
		c17.one(t, c17Case{Acc: a.name, State: 1})
		c17.one(t, c17Case{Acc: a.name, State: 2})
		for n := 0; n <= 64; n++ {
			for _, v := range c17Structured(a, n) {
				c17.one(t, c17Case{Acc: a.name, State: 0, Val: v})
				// the same value inside a reply / a relayed request that carries every other option
				if n <= 9 || n%4 == 0 || n == 33 {
					c17.one(t, c17Case{Acc: a.name, State: 0, Val: v, Hdr: 1 + n%3, Bg: ^uint64(0)})
				}
			}
		}
		for h := 1; h <= 3; h++ {
			c17.one(t, c17Case{Acc: a.name, State: 1, Hdr: h, Bg: ^uint64(0)})
		}
		if a.code == 119 {
			// search lists longer than one option instance: pointers to offsets around the powers of two, and many
			// short names that add up far beyond 255 octets
			for _, lb := range append(append(pointerOffsetBuffers(), labelCumulativeBuffers()...), labelEdgeBuffers()...) {
				if len(lb) <= 4200 {
					c17.one(t, c17Case{Acc: a.name, State: 0, Val: lb})
				}
			}
		}
	}
	c17.rec.Class("length-enumeration 0..64")
}

func TestC17_Rapid(t *testing.T) {
	c17.rapidCheck(t, rapid.Custom(func(rt *rapid.T) c17Case {
		a := &c17tab[rapid.IntRange(0, len(c17tab)-1).Draw(rt, "acc")]
		n := rapid.IntRange(0, 64).Draw(rt, "len")
		var v []byte
		switch rapid.IntRange(0, 3).Draw(rt, "mode") {
		case 0:
			v = gen.Fill(rt, n, "v")
		case 1:
			s := c17Structured(a, n)
			v = append([]byte{}, s[rapid.IntRange(0, len(s)-1).Draw(rt, "si")]...)
			if len(v) > 0 && rapid.Bool().Draw(rt, "flip") {
				v[rapid.IntRange(0, len(v)-1).Draw(rt, "fi")] = rapid.Byte().Draw(rt, "fv")
			}
		case 2:
			if a.code == 119 {
				v = gen.LabelWire(true).Draw(rt, "labels")
				if len(v) > 300 {
					v = v[:300]
				}
			} else {
				v = rapid.SliceOfN(rapid.Byte(), n, n).Draw(rt, "raw")
			}
		default:
			v = rapid.SliceOfN(rapid.SampledFrom([]byte{0, 1, 2, 4, 8, 24, 32, 33, 255}), n, n).Draw(rt, "small")
		}
		c := c17Case{Acc: a.name, State: 0, Val: v}
		if rapid.Bool().Draw(rt, "context") {
			c.Hdr = rapid.IntRange(0, 3).Draw(rt, "hdr")
			c.Bg = rapid.Uint64().Draw(rt, "bg")
			if rapid.Bool().Draw(rt, "fullbg") {
				c.Bg = ^uint64(0)
			}
		}
		return c
	}))
}

// --- set → get ----------------------------------------------------------------

type c17Set struct {
	Kind int       `json:"kind"`
	IPs  []obs.Hex `json:"ips"`
	Str  obs.Hex   `json:"str"`
	Strs []obs.Hex `json:"strs"`
	U32  uint32    `json:"u32"`
	U16s []uint16  `json:"u16s"`
	Raw  obs.Hex   `json:"raw"`
	Mapd bool      `json:"mapped"` // give addresses in 16-byte IPv4-mapped form
}

func (c c17Set) ip(i int) net.IP {
	b := c.IPs[i%len(c.IPs)]
	if c.Mapd {
		return net.IPv4(b[0], b[1], b[2], b[3])
	}
	return net.IP(append([]byte{}, b...))
}

var c17set = newChk("C17", "set-get",
	"typed constructors (Opt*) with generated arguments attached to a packet and read back through the matching accessor, also after an encode→decode trip; non-trivial = every case; distinct by hash of the case",
	func(rec *obs.Rec, c c17Set) *obs.Fail {
		p, _ := dhcpv4.New()
		var want, name string
		var get func(q *dhcpv4.DHCPv4) string
		ips := func() []net.IP {
			var l []net.IP
			for i := range c.IPs {
				l = append(l, c.ip(i))
			}
			return l
		}
		wantIPs := func() string {
			var s []string
			for _, b := range c.IPs {
				s = append(s, fmt.Sprintf("ip:%x", []byte(b)))
			}
			return strings.Join(s, ",")
		}
		acc := func(n string) func(q *dhcpv4.DHCPv4) string {
			for i := range c17tab {
				if c17tab[i].name == n {
					return c17tab[i].lib
				}
			}
			panic(n)
		}
		switch c.Kind {
		case 0:
			name, want = "BroadcastAddress", fmt.Sprintf("ip:%x", []byte(c.IPs[0]))
			p.UpdateOption(dhcpv4.OptBroadcastAddress(c.ip(0)))
		case 1:
			name, want = "RequestedIPAddress", fmt.Sprintf("ip:%x", []byte(c.IPs[0]))
			p.UpdateOption(dhcpv4.OptRequestedIPAddress(c.ip(0)))
		case 2:
			name, want = "ServerIdentifier", fmt.Sprintf("ip:%x", []byte(c.IPs[0]))
			p.UpdateOption(dhcpv4.OptServerIdentifier(c.ip(0)))
		case 3:
			name, want = "Router", wantIPs()
			p.UpdateOption(dhcpv4.OptRouter(ips()...))
		case 4:
			name, want = "DNS", wantIPs()
			p.UpdateOption(dhcpv4.OptDNS(ips()...))
		case 5:
			name, want = "NTPServers", wantIPs()
			p.UpdateOption(dhcpv4.OptNTPServers(ips()...))
		case 6:
			name, want = "NetBIOSNameServers", wantIPs()
			p.UpdateOption(dhcpv4.OptNetBIOSNameServers(ips()...))
		case 7:
			name, want = "DomainName", fmt.Sprintf("%q", string(c.Str))
			p.UpdateOption(dhcpv4.OptDomainName(string(c.Str)))
		case 8:
			name, want = "HostName", fmt.Sprintf("%q", strings.TrimRight(string(c.Str), "\x00"))
			p.UpdateOption(dhcpv4.OptHostName(string(c.Str)))
		case 9:
			name, want = "RootPath", fmt.Sprintf("%q", string(c.Str))
			p.UpdateOption(dhcpv4.OptRootPath(string(c.Str)))
		case 10:
			name, want = "BootFileNameOption", fmt.Sprintf("%q", strings.TrimRight(string(c.Str), "\x00"))
			p.UpdateOption(dhcpv4.OptBootFileName(string(c.Str)))
		case 11:
			name, want = "TFTPServerName", fmt.Sprintf("%q", strings.TrimRight(string(c.Str), "\x00"))
			p.UpdateOption(dhcpv4.OptTFTPServerName(string(c.Str)))
		case 12:
			name, want = "ClassIdentifier", fmt.Sprintf("%q", string(c.Str))
			p.UpdateOption(dhcpv4.OptClassIdentifier(string(c.Str)))
		case 13:
			name, want = "Message", fmt.Sprintf("%q", string(c.Str))
			p.UpdateOption(dhcpv4.OptMessage(string(c.Str)))
		case 14:
			name, want = "IPAddressLeaseTime", (time.Duration(c.U32) * time.Second).String()
			p.UpdateOption(dhcpv4.OptIPAddressLeaseTime(time.Duration(c.U32) * time.Second))
		case 15:
			name, want = "IPAddressRenewalTime", (time.Duration(c.U32) * time.Second).String()
			p.UpdateOption(dhcpv4.OptRenewTimeValue(time.Duration(c.U32) * time.Second))
		case 16:
			name, want = "IPAddressRebindingTime", (time.Duration(c.U32) * time.Second).String()
			p.UpdateOption(dhcpv4.OptRebindingTimeValue(time.Duration(c.U32) * time.Second))
		case 17:
			name, want = "IPv6OnlyPreferred", fmt.Sprintf("%v/true", time.Duration(c.U32)*time.Second)
			p.UpdateOption(dhcpv4.OptIPv6OnlyPreferred(time.Duration(c.U32) * time.Second))
		case 18:
			name, want = "MaxMessageSize", fmt.Sprint(uint16(c.U32))
			p.UpdateOption(dhcpv4.OptMaxMessageSize(uint16(c.U32)))
		case 19:
			name, want = "AutoConfigure", fmt.Sprintf("%d/true", byte(c.U32))
			p.UpdateOption(dhcpv4.OptAutoConfigure(dhcpv4.AutoConfiguration(byte(c.U32))))
		case 20:
			name, want = "MessageType", fmt.Sprint(byte(c.U32))
			p.UpdateOption(dhcpv4.OptMessageType(dhcpv4.MessageType(byte(c.U32))))
		case 21:
			name = "ParameterRequestList"
			var codes []dhcpv4.OptionCode
			var s []string
			for _, b := range c.Raw {
				codes = append(codes, dhcpv4.GenericOptionCode(b))
				s = append(s, fmt.Sprint(b))
			}
			want = strings.Join(s, ",")
			p.UpdateOption(dhcpv4.OptParameterRequestList(codes...))
		case 22:
			name, want = "SubnetMask", fmt.Sprintf("mask:%x", []byte(c.IPs[0]))
			p.UpdateOption(dhcpv4.OptSubnetMask(net.IPMask(append([]byte{}, c.IPs[0]...))))
		case 23:
			name = "ClasslessStaticRoute"
			var routes []*dhcpv4.Route
			var s []string
			for i := range c.IPs {
				ml := int(c.U16s[i%len(c.U16s)]) % 33
				d := net.IP(append([]byte{}, c.IPs[i]...)).Mask(net.CIDRMask(ml, 32))
				// octets beyond the significant ones are not transmitted (RFC 3442): keep them zero in the expectation
				var sig [4]byte
				copy(sig[:], d[:(ml+7)/8])
				gw := c.ip(i + 1)
				routes = append(routes, &dhcpv4.Route{Dest: &net.IPNet{IP: net.IP(sig[:]), Mask: net.CIDRMask(ml, 32)}, Router: gw})
				s = append(s, fmt.Sprintf("%x/%d(32)>%x", sig[:], ml, []byte(gw.To4())))
			}
			want = strings.Join(s, ";")
			p.UpdateOption(dhcpv4.OptClasslessStaticRoute(routes...))
		case 24:
			name = "UserClass"
			var l []string
			for _, x := range c.Strs {
				l = append(l, string(x))
			}
			want = fmt.Sprintf("%q", l)
			p.UpdateOption(dhcpv4.OptRFC3004UserClass(l))
		case 25:
			name = "VIVC"
			var ids []dhcpv4.VIVCIdentifier
			var s []string
			for i, x := range c.Strs {
				e := uint32(c.U16s[i%len(c.U16s)])*65537 + uint32(i)
				ids = append(ids, dhcpv4.VIVCIdentifier{EntID: iana.EnterpriseID(e), Data: append([]byte{}, x...)})
				s = append(s, fmt.Sprintf("%d:%x", e, []byte(x)))
			}
			want = strings.Join(s, ";")
			p.UpdateOption(dhcpv4.OptVIVC(ids...))
		case 26:
			name = "ClientArch"
			var a []iana.Arch
			var s []string
			for _, u := range c.U16s {
				a = append(a, iana.Arch(u))
				s = append(s, fmt.Sprint(u))
			}
			want = strings.Join(s, ",")
			p.UpdateOption(dhcpv4.OptClientArch(a...))
		case 27:
			name = "DomainSearch"
			var l []string
			for _, x := range c.Strs {
				l = append(l, string(x))
			}
			want = fmt.Sprintf("%q", l)
			p.UpdateOption(dhcpv4.OptDomainSearch(&rfc1035label.Labels{Labels: l}))
		case 28:
			name = "RelayAgentInfo"
			var subs []dhcpv4.Option
			m := dhcpv4.Options{}
			for i, x := range c.Strs {
				code := uint8(1 + (int(c.U16s[i%len(c.U16s)])+i*37)%254)
				if _, dup := m[code]; dup {
					continue
				}
				m[code] = append([]byte{}, x...)
				subs = append(subs, dhcpv4.OptGeneric(dhcpv4.GenericOptionCode(code), append([]byte{}, x...)))
			}
			want = renderOptMap(m)
			p.UpdateOption(dhcpv4.OptRelayAgentInfo(subs...))
		case 30:
			// a search list read from a packet, edited in place (same number of names), and set again
			name = "DomainSearch"
			var l []string
			for _, x := range c.Strs {
				l = append(l, string(x))
			}
			src, _ := dhcpv4.New(dhcpv4.WithOption(dhcpv4.OptDomainSearch(&rfc1035label.Labels{Labels: append([]string{}, l...)})))
			parsed := src.DomainSearch()
			if parsed == nil || len(parsed.Labels) != len(l) {
				return obs.Failf("C17/set-get/DomainSearch", fmt.Sprintf("%q", l), "%v", parsed)
			}
			edited := append([]string{}, l...)
			i := int(c.U32) % len(l)
			if c.Mapd {
				edited[i] = flipCase(edited[i])
			} else {
				edited[i] = "edited.example" // a valid name
				if len(l) > 1 {
					edited[i] = l[(i+1)%len(l)] // another valid name of the same list
				}
			}
			parsed.Labels[i] = edited[i]
			want = fmt.Sprintf("%q", edited)
			p.UpdateOption(dhcpv4.OptDomainSearch(parsed))
		case 31:
			// the step-by-step route: a search list read from RAW bytes (compressed names, a trailing partial name),
			// one more name appended to what was read, set again, read again — the same names as setting them in one go
			name = "DomainSearch"
			src, _ := dhcpv4.New(dhcpv4.WithGeneric(dhcpv4.OptionDNSDomainSearchList, append([]byte{}, c.Raw...)))
			parsed := src.DomainSearch()
			refNames, class, _ := reflabel.Decode(c.Raw)
			if parsed == nil || class == reflabel.Malformed || !namesEq(parsed.Labels, refNames) || len(c.Strs) == 0 {
				return nil // C17/accessor-vs-raw and C19 judge the reading itself
			}
			for _, nme := range parsed.Labels {
				if strings.Contains(nme, "..") || strings.HasPrefix(nme, ".") || len(nme) > 250 {
					return nil // not a name the encoder can be asked to write again
				}
			}
			extra := string(c.Strs[0])
			parsed.Labels = append(parsed.Labels, extra)
			want = fmt.Sprintf("%q", append(append([]string{}, refNames...), extra))
			p.UpdateOption(dhcpv4.OptDomainSearch(parsed))
		case 29:
			name, want = "UserClass", fmt.Sprintf("%q", []string{string(c.Str)})
			// the single-string (non RFC 3004) form; a value that happens to parse as RFC 3004 items is read as items
			items, isList := rfc3004(c.Str)
			if isList {
				want = fmt.Sprintf("%q", items)
			}
			if len(c.Str) == 0 {
				want = "nil"
			}
			p.UpdateOption(dhcpv4.OptUserClass(string(c.Str)))
		}
		get = acc(name)
		if got := get(p); got != want {
			return obs.Failf("C17/set-get/"+name, want, "%s", got)
		}
		// what was set on this packet stays set while the same constructors are used, with other arguments, for other packets
		c17Decoys()
		if got := get(p); got != want {
			return obs.Failf("C17/set-get/"+name+"/after-later-sets-on-other-packets", want, "%s", got)
		}
		q, err := dhcpv4.FromBytes(p.ToBytes())
		if err != nil {
			return obs.Failf("C17/set-get/decode", "decodes", "%v", err)
		}
		if got := get(q); got != want {
			return obs.Failf("C17/set-get-wire/"+name, want, "%s", got)
		}
		rec.Class(name)
		rec.NonTrivial(obs.HashJSON(c), func() any { return map[string]any{"accessor": name, "read_back": clipS(want)} })
		return nil
	})

// c17Decoys builds and encodes another packet through every typed constructor with arguments of its own.
func c17Decoys() {
	ip := func(x byte) net.IP { return net.IP{203, 0, 113, x} }
	d, _ := dhcpv4.New()
	for _, o := range []dhcpv4.Option{
		dhcpv4.OptBroadcastAddress(ip(1)), dhcpv4.OptRequestedIPAddress(ip(2)), dhcpv4.OptServerIdentifier(ip(3)), dhcpv4.OptRouter(ip(4), ip(5)),
		dhcpv4.OptDNS(ip(6), ip(7), ip(8)), dhcpv4.OptNTPServers(ip(9)), dhcpv4.OptNetBIOSNameServers(ip(10)), dhcpv4.OptDomainName("decoy.example"),
		dhcpv4.OptHostName("decoy-host"), dhcpv4.OptRootPath("/decoy"), dhcpv4.OptBootFileName("decoy.efi"), dhcpv4.OptTFTPServerName("decoy-tftp"),
		dhcpv4.OptClassIdentifier("decoy-class"), dhcpv4.OptMessage("decoy message"), dhcpv4.OptIPAddressLeaseTime(77 * time.Second),
		dhcpv4.OptRenewTimeValue(78 * time.Second), dhcpv4.OptRebindingTimeValue(79 * time.Second), dhcpv4.OptIPv6OnlyPreferred(80 * time.Second),
		dhcpv4.OptMessageType(dhcpv4.MessageTypeNak), dhcpv4.OptSubnetMask(net.IPMask{255, 255, 0, 0}), dhcpv4.OptMaxMessageSize(1234),
		dhcpv4.OptParameterRequestList(dhcpv4.OptionRouter, dhcpv4.OptionDomainNameServer, dhcpv4.OptionBootfileName),
		dhcpv4.OptClasslessStaticRoute(&dhcpv4.Route{Dest: &net.IPNet{IP: net.IP{10, 9, 0, 0}, Mask: net.CIDRMask(16, 32)}, Router: ip(11)}),
		dhcpv4.OptUserClass("decoy-user-class"), dhcpv4.OptRFC3004UserClass([]string{"decoy", "classes"}),
		dhcpv4.OptVIVC(dhcpv4.VIVCIdentifier{EntID: 4242, Data: []byte("decoy-vivc")}), dhcpv4.OptClientArch(iana.EFI_X86_64, iana.EFI_ARM64),
		dhcpv4.OptDomainSearch(&rfc1035label.Labels{Labels: []string{"decoy.example.org", "decoy.example.net"}}),
		dhcpv4.OptRelayAgentInfo(dhcpv4.OptGeneric(dhcpv4.GenericOptionCode(1), []byte("decoy-circuit")), dhcpv4.OptGeneric(dhcpv4.GenericOptionCode(2), []byte("decoy-remote")), dhcpv4.OptGeneric(dhcpv4.GenericOptionCode(9), bytes.Repeat([]byte{0xDC}, 60))),
		dhcpv4.OptAutoConfigure(dhcpv4.AutoConfigure),
	} {
		d.UpdateOption(o)
	}
	_ = d.ToBytes()
	_ = d.Summary()
}

func clipS(s string) string {
	if len(s) > 200 {
		return s[:200] + "…"
	}
	return s
}

func rfc3004(v []byte) ([]string, bool) {
	var items []string
	if len(v) == 0 {
		return nil, false
	}
	for i := 0; i < len(v); {
		l := int(v[i])
		if l == 0 || i+1+l > len(v) {
			return nil, false
		}
		items = append(items, string(v[i+1:i+1+l]))
		i += 1 + l
	}
	return items, true
}

func TestC17_SetGetRapid(t *testing.T) {
	c17set.rapidCheck(t, rapid.Custom(func(rt *rapid.T) c17Set {
		c := c17Set{Kind: rapid.IntRange(0, 31).Draw(rt, "kind"), Mapd: rapid.Bool().Draw(rt, "mapped"), U32: rapid.Uint32().Draw(rt, "u32")}
		n := rapid.IntRange(1, 5).Draw(rt, "n")
		for i := 0; i < n; i++ {
			c.IPs = append(c.IPs, rapid.SliceOfN(rapid.Byte(), 4, 4).Draw(rt, "ip"))
			c.U16s = append(c.U16s, rapid.Uint16().Draw(rt, "u16"))
		}
		// strings: non-empty, no trailing NUL (the trimmed accessors document trimming)
		str := gen.Fill(rt, rapid.IntRange(1, 300).Draw(rt, "slen"), "s")
		if str[len(str)-1] == 0 {
			str[len(str)-1] = 'z'
		}
		c.Str = str
		switch c.Kind {
		case 27, 30, 31:
			for _, nme := range gen.Names(4).Draw(rt, "names") {
				c.Strs = append(c.Strs, []byte(nme))
			}
			if len(c.Strs) == 0 {
				c.Strs = []obs.Hex{[]byte("example.org")}
			}
		default:
			for i := 0; i < n; i++ {
				hi := 255
				if c.Kind == 28 && rapid.IntRange(0, 3).Draw(rt, "longsub") == 0 {
					hi = 700 // relay agent sub-option values beyond one length octet (written as several instances)
				}
				c.Strs = append(c.Strs, gen.Fill(rt, rapid.IntRange(1, hi).Draw(rt, "il"), "item"))
			}
			if c.Kind == 25 && rapid.Bool().Draw(rt, "emptylast") {
				c.Strs[len(c.Strs)-1] = obs.Hex{}
			}
		}
		c.Raw = rapid.SliceOfN(rapid.Byte(), 0, 40).Draw(rt, "raw")
		if c.Kind == 31 {
			c.Raw = gen.LabelWireNoDots(false).Draw(rt, "rawnames")
		}
		return c
	}))
}
