#!/bin/bash
# usage: tools/automut_show.sh <file> <site>   — prints the real source change of one automatic mutant
f=$1; n=$2
B=/verif/work/bin/automut
[ -x $B ] || (cd /verif && GOFLAGS=-mod=mod GOPROXY=off GOSUMDB=off GOTOOLCHAIN=local go1.26.8 build -o $B ./tools/automut)
gofmt /repo/$f > /tmp/ams_a.go
$B -file /repo/$f -site $n -out /tmp/ams_b.go && gofmt /tmp/ams_b.go > /tmp/ams_c.go
diff -u /tmp/ams_a.go /tmp/ams_c.go | tail -n +3
rm -f /tmp/ams_a.go /tmp/ams_b.go /tmp/ams_c.go
