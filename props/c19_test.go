package props

import (
	"bytes"
	"fmt"
	"github.com/insomniacslk/dhcp/dhcpv4"
	"github.com/insomniacslk/dhcp/dhcpv6"
	"os"
	"reflect"
	"strings"
	"testing"

	"github.com/insomniacslk/dhcp/rfc1035label"
	"pgregory.net/rapid"

	"verif/gen"
	"verif/obs"
	"verif/ref/reflabel"
)

// C19 — domain-name label encoding round-trips and decoding follows RFC 1035.

func namesEq(a, b []string) bool {
	if len(a) == 0 && len(b) == 0 {
		return true
	}
	return reflect.DeepEqual(a, b)
}

// --- encode → decode of valid name lists ---------------------------------

var c19rt = newChk("C19", "roundtrip",
	"generated lists of 0..8 valid names (1..8 labels of 1..63 non-dot bytes, ≤255 octets): the encoding must equal the RFC 1035 wire form written by the reference encoder and decode back to the same list; non-trivial = ≥2 names or a 63-byte label; distinct by hash of the list",
	func(rec *obs.Rec, names []string) *obs.Fail {
		l := &rfc1035label.Labels{Labels: names}
		enc := l.ToBytes()
		// another list is encoded and decoded in between: the bytes returned for this one stay as returned
		decoy := &rfc1035label.Labels{Labels: []string{"decoy.example.org", "x.decoy.example.org", strings.Repeat("d", 63) + ".example"}}
		if dl, err := rfc1035label.FromBytes(decoy.ToBytes()); err == nil {
			_ = dl.ToBytes()
		}
		want := reflabel.Encode(names)
		if !bytes.Equal(enc, want) {
			return obs.Failf("C19/encode", fmt.Sprintf("RFC 1035 wire form %x", clipb(want)), "%x", clipb(enc))
		}
		back, err := rfc1035label.FromBytes(append([]byte{}, enc...))
		if err != nil {
			return obs.Failf("C19/roundtrip/decode-error", "own encoding decodes", "error %v for %q (wire %d bytes)", err, names, len(enc))
		}
		if !namesEq(back.Labels, names) {
			return obs.Failf("C19/roundtrip/names", fmt.Sprintf("%q", names), "%q", back.Labels)
		}
		if l.Length() != len(want) {
			return obs.Failf("C19/length", fmt.Sprint(len(want)), "%d", l.Length())
		}
		long := false
		for _, n := range names {
			for _, lab := range bytes.Split([]byte(n), []byte(".")) {
				if len(lab) == 63 {
					long = true
				}
			}
		}
		if len(enc) > 255 {
			rec.Class("list longer than 255 octets")
		}
		if len(names) >= 2 || long {
			rec.NonTrivial(obs.Hash64(enc), func() any { return names })
		}
		return nil
	})

func TestC19_RoundtripRapid(t *testing.T) { c19rt.rapidCheck(t, gen.Names(8)) }

// --- decoding vs the reference ---------------------------------------------

func greyComparable(reasons []string) bool {
	for _, r := range reasons {
		if r != reflabel.GreyLongName && r != reflabel.GreyMidLabel {
			return false
		}
	}
	return true
}

var c19dec = newChk("C19", "decode-differential",
	"byte strings (exhaustive over a small alphabet of lengths/letters/reserved/pointer octets up to a length bound; generated label buffers with backward pointers incl. offsets ≥256, partial trailing names and hostile variants; ≤600 bytes) decoded by the library and by the independent RFC 1035 reader: STRICT ⇒ accept with equal names and ToBytes()==input, MALFORMED ⇒ reject, GREY ⇒ either (values compared only when the natural reading is unambiguous); non-trivial = ≥2 names or ≥1 pointer octet; distinct by input hash",
	func(rec *obs.Rec, c obs.Hex) *obs.Fail {
		in := append([]byte{}, c...)
		want, class, reasons := reflabel.DecodeReasons(in)
		got, err := rfc1035label.FromBytes(in)
		verdict := "accept"
		if err != nil {
			verdict = "reject"
		}
		rec.Class(class.String() + "/" + verdict)
		why := ""
		if len(reasons) > 0 {
			why = reasons[0]
		}
		switch class {
		case reflabel.Strict:
			if err != nil {
				return obs.Failf("C19/decode/rejects-strict", fmt.Sprintf("accept with names %q", want), "error %v", err)
			}
			if !namesEq(got.Labels, want) {
				return obs.Failf("C19/decode/names", fmt.Sprintf("%q", want), "%q", got.Labels)
			}
		case reflabel.Malformed:
			if err == nil {
				return obs.Failf("C19/decode/accepts-malformed/"+sigWord(why), "error ("+why+")", "accepted with names %q", got.Labels)
			}
		case reflabel.Grey:
			if err == nil && greyComparable(reasons) && !namesEq(got.Labels, want) {
				return obs.Failf("C19/decode/grey-names", fmt.Sprintf("reject or %q", want), "%q", got.Labels)
			}
		}
		if err == nil {
			// a parsed set re-encodes to exactly the bytes it was parsed from
			if out := got.ToBytes(); !bytes.Equal(out, c) {
				return obs.Failf("C19/parsed-reencode", fmt.Sprintf("original bytes %x", clipb(c)), "%x", clipb(out))
			}
		}
		hasPtr := false
		for _, x := range c {
			if x&0xC0 == 0xC0 {
				hasPtr = true
				break
			}
		}
		if len(want) >= 2 || hasPtr {
			rec.NonTrivial(obs.Hash64(c), func() any {
				return map[string]any{"bytes": hx(clipb(c)), "len": len(c), "class": class.String(), "verdict": verdict, "names": want}
			})
		}
		return nil
	})

func sigWord(why string) string {
	switch {
	case bytes.Contains([]byte(why), []byte("beyond")):
		return "pointer-beyond-buffer"
	case bytes.Contains([]byte(why), []byte("reserved")):
		return "reserved-label-type"
	case bytes.Contains([]byte(why), []byte("second octet")):
		return "pointer-truncated"
	case bytes.Contains([]byte(why), []byte("runs past")):
		return "label-overrun"
	}
	return "other"
}

func TestC19_SmallScope(t *testing.T) {
	alpha := []byte{0x00, 0x01, 0x02, 'a', 0x40, 0xC0}
	maxLen := 7
	if os.Getenv("VERIF_TIER") == "thorough" {
		alpha = append(alpha, 0x03, 0x3F)
		maxLen = 7
	}
	var rec func(cur []byte)
	rec = func(cur []byte) {
		c19dec.one(t, obs.Hex(append([]byte{}, cur...)))
		if len(cur) == maxLen {
			return
		}
		for _, a := range alpha {
			rec(append(cur, a))
		}
	}
	rec(nil)
	c19dec.rec.Exhaustive()
	c19dec.rec.Extra("small_scope", fmt.Sprintf("all byte strings over alphabet %x of length 0..%d", alpha, maxLen))
}

// TestC19_PointerShapes: closed rings of 1..40 pointers (bare, behind a name, entered from a pointer), chains of
// 1..40 pointers ending on a name, and a pointer to itself — termination and verdict.
func TestC19_PointerShapes(t *testing.T) {
	for k := 1; k <= 40; k++ {
		for _, prefix := range [][]byte{nil, []byte("\x03foo\x00"), []byte("\x01a")} {
			base := len(prefix)
			ring := append([]byte{}, prefix...)
			for i := 0; i < k; i++ {
				next := base + 2*((i+1)%k)
				ring = append(ring, 0xC0|byte(next>>8), byte(next))
			}
			c19dec.one(t, obs.Hex(ring))
			// a chain of k pointers, each to the next, ending on a terminated name
			chain := append([]byte{}, prefix...)
			for i := 0; i < k; i++ {
				next := base + 2*(i+1)
				chain = append(chain, 0xC0|byte(next>>8), byte(next))
			}
			chain = append(chain, 3, 'e', 'n', 'd', 0)
			c19dec.one(t, obs.Hex(chain))
			// backward chain: names first, then pointers to pointers
			back := append(append([]byte{}, prefix...), 3, 'e', 'n', 'd', 0)
			tgt := len(prefix)
			for i := 0; i < k; i++ {
				at := len(back)
				back = append(back, 0xC0|byte(tgt>>8), byte(tgt))
				tgt = at
			}
			c19dec.one(t, obs.Hex(back))
		}
	}
	for _, b := range pointerOffsetBuffers() {
		c19dec.one(t, obs.Hex(b))
	}
	for _, b := range labelCumulativeBuffers() {
		c19dec.one(t, obs.Hex(b))
	}
	for _, b := range labelEdgeBuffers() {
		c19dec.one(t, obs.Hex(b))
	}
	c19dec.rec.Class("pointer rings and chains")
}

func TestC19_DecodeRapid(t *testing.T) {
	c19dec.rapidCheck(t, rapid.Custom(func(rt *rapid.T) obs.Hex {
		return gen.LabelWire(rapid.IntRange(0, 2).Draw(rt, "hostile") != 0).Draw(rt, "wire")
	}))
}

func FuzzC19_Labels(f *testing.F) {
	f.Add([]byte("\x03foo\x07example\x03com\x00\x03bar\xC0\x04"))
	f.Add([]byte("\x03foo"))
	f.Fuzz(func(t *testing.T, b []byte) {
		if len(b) > 2048 {
			return
		}
		c19dec.one(t, obs.Hex(b))
	})
}

// --- edits of a parsed set ---------------------------------------------------

type c19Edit struct {
	Wire obs.Hex `json:"wire"`
	Kind int     `json:"kind"` // 0 replace slice elem via new slice, 1 insert, 2 delete, 3 no-op assign, 4 in-place element assign, 5 append
	Idx  int     `json:"idx"`
	Name string  `json:"name"`
}

var c19edit = newChk("C19", "parsed-set-edits",
	"a label set parsed from generated (compressed) bytes, then one edit of its exported name list (replace, insert, delete, in-place element assignment, append, or a no-op assignment): before the edit and after a no-op the encoding must be the original bytes; after a change the encoding must decode (independent reader) to exactly the edited list; non-trivial = the parsed set has ≥1 name and the edit changes it; distinct by hash of (bytes, edit)",
	func(rec *obs.Rec, c c19Edit) *obs.Fail {
		in := append([]byte{}, c.Wire...)
		l, err := rfc1035label.FromBytes(in)
		if err != nil {
			return nil // generator produced something the library rejects: nothing to edit
		}
		if out := l.ToBytes(); !bytes.Equal(out, c.Wire) {
			return obs.Failf("C19/parsed-reencode", fmt.Sprintf("original bytes %x", clipb(c.Wire)), "%x", clipb(out))
		}
		// the typed options built from the parsed set carry the parsed bytes too (the set is unchanged)
		if o6 := dhcpv6.OptDomainSearchList(l).ToBytes(); !bytes.Equal(o6, c.Wire) {
			return obs.Failf("C19/parsed-reencode/dhcpv6-search-list", fmt.Sprintf("original bytes %x", clipb(c.Wire)), "%x", clipb(o6))
		}
		if o4 := dhcpv4.OptDomainSearch(l).Value.ToBytes(); !bytes.Equal(o4, c.Wire) {
			return obs.Failf("C19/parsed-reencode/dhcpv4-search-list", fmt.Sprintf("original bytes %x", clipb(c.Wire)), "%x", clipb(o4))
		}
		if o39 := (&dhcpv6.OptFQDN{Flags: 1, DomainName: l}).ToBytes(); len(o39) < 1 || !bytes.Equal(o39[1:], c.Wire) {
			return obs.Failf("C19/parsed-reencode/dhcpv6-fqdn", fmt.Sprintf("original bytes %x", clipb(c.Wire)), "%x", clipb(o39))
		}
		orig := append([]string{}, l.Labels...)
		n := len(orig)
		edited := append([]string{}, orig...)
		idx := 0
		if n > 0 {
			idx = c.Idx % n
		}
		changed := true
		switch c.Kind {
		case 0:
			if n == 0 {
				return nil
			}
			edited[idx] = c.Name
			l.Labels = append([]string{}, edited...)
		case 1:
			edited = append(edited[:idx:idx], append([]string{c.Name}, edited[idx:]...)...)
			l.Labels = edited
		case 2:
			if n == 0 {
				return nil
			}
			edited = append(edited[:idx:idx], edited[idx+1:]...)
			l.Labels = edited
		case 3:
			if n == 0 {
				return nil
			}
			l.Labels[idx] = orig[idx]
			changed = false
		case 4:
			if n == 0 {
				return nil
			}
			l.Labels[idx] = c.Name // in place, same backing array
			edited[idx] = c.Name
		case 5:
			l.Labels = append(l.Labels, c.Name)
			edited = append(edited, c.Name)
		case 6, 7, 8, 9: // change only the letter case of one name, or only one separator of it (in place / through a new slice)
			if n == 0 {
				return nil
			}
			flipped := flipCase(orig[idx])
			if c.Kind >= 8 {
				flipped = joinLabels(orig[idx])
			}
			edited[idx] = flipped
			if c.Kind == 6 || c.Kind == 8 {
				l.Labels[idx] = flipped
			} else {
				l.Labels = append([]string{}, edited...)
			}
		}
		if namesEq(edited, orig) {
			changed = false
		}
		out := l.ToBytes()
		if !changed {
			if !bytes.Equal(out, c.Wire) {
				return obs.Failf("C19/noop-edit-changes-bytes", fmt.Sprintf("original bytes %x", clipb(c.Wire)), "%x", clipb(out))
			}
			rec.Class("no-op edit")
			return nil
		}
		back, class, reasons := reflabel.DecodeReasons(out)
		// (a parsed name longer than 255 octets stays in the list: then the re-encoding is "GREY: long name" too)
		okClass := class == reflabel.Strict || (class == reflabel.Grey && len(reasons) == 1 && reasons[0] == reflabel.GreyLongName)
		if !okClass || !namesEq(back, edited) {
			return obs.Failf("C19/edit-not-encoded", fmt.Sprintf("encoding of %q", edited), "%x which reads as %q (%s)", clipb(out), back, class)
		}
		if l.Length() != len(out) {
			return obs.Failf("C19/length", fmt.Sprint(len(out)), "%d", l.Length())
		}
		rec.Class(fmt.Sprintf("edit kind %d", c.Kind))
		if n > 0 {
			rec.NonTrivial(obs.HashJSON(c), func() any {
				return map[string]any{"wire": hx(clipb(c.Wire)), "parsed": orig, "kind": c.Kind, "idx": idx, "name": c.Name}
			})
		}
		return nil
	})

func TestC19_EditsRapid(t *testing.T) {
	c19edit.rapidCheck(t, rapid.Custom(func(rt *rapid.T) c19Edit {
		return c19Edit{Wire: gen.LabelWireNoDots(false).Draw(rt, "wire"), Kind: rapid.IntRange(0, 9).Draw(rt, "kind"),
			Idx: rapid.IntRange(0, 7).Draw(rt, "idx"), Name: gen.Name().Draw(rt, "name")}
	}))
}

// joinLabels turns the first separator of a name into a label character when the joined label still fits 63 octets
// (www.example.com → www-example.com): every octet but one stays, the number of labels changes. Names without such a
// separator get their letter case toggled instead.
func joinLabels(s string) string {
	i := strings.IndexByte(s, '.')
	if i <= 0 || i == len(s)-1 {
		return flipCase(s)
	}
	j := strings.IndexByte(s[i+1:], '.')
	if j < 0 {
		j = len(s) - i - 1
	}
	if i+1+j > 63 || j == 0 {
		return flipCase(s)
	}
	return s[:i] + "-" + s[i+1:]
}

// nameEdit is the edit flipNames / flipTreeNames apply: 0 letter case, 1 one separator.
var nameEdit int

func editName(s string) string {
	if nameEdit == 1 {
		return joinLabels(s)
	}
	return flipCase(s)
}

// flipCase toggles the case of every ASCII letter.
func flipCase(s string) string {
	b := []byte(s)
	for i, c := range b {
		switch {
		case c >= 'a' && c <= 'z':
			b[i] = c - 32
		case c >= 'A' && c <= 'Z':
			b[i] = c + 32
		}
	}
	return string(b)
}

// --- sequences of edits, each followed by an encoding ---------------------------------

type c19Step struct {
	Kind int    `json:"kind"` // 0 in-place element assignment, 1 in-place case flip, 2 replace the slice, 3 append, 4 delete, 5 put the original names back, 6 decode the original bytes into the same object again, 7 decode other bytes (the plain encoding of Name) into it, 8 ask the object to decode malformed bytes (Idx selects them), 9 copy the object by value and decode other bytes into the copy
	Idx  int    `json:"idx"`
	Name string `json:"name"`
}

type c19Seq struct {
	Wire  obs.Hex   `json:"wire"`
	Steps []c19Step `json:"steps"`
}

var c19seq = newChk("C19", "edit-sequences",
	"a label set parsed from generated (compressed) bytes, then 2..5 edits of its exported name list (in-place element assignment, case-only change, slice replacement, append, delete, restoring the original names, decoding the original or other bytes into the same object again, asking it to decode bytes it must refuse, decoding into a by-value copy) with an encoding after EVERY edit: each encoding must decode (independent reader) to exactly the names the set holds at that moment, and Length() must agree; non-trivial = ≥2 edits that change the list; distinct by case hash",
	func(rec *obs.Rec, c c19Seq) *obs.Fail {
		l, err := rfc1035label.FromBytes(append([]byte{}, c.Wire...))
		if err != nil {
			return nil
		}
		orig := append([]string{}, l.Labels...)
		cur := append([]string{}, orig...)
		changes := 0
		verbatim := append([]byte{}, c.Wire...) // non-nil while the set is "parsed from these bytes and not changed since"
		plain := func(name string) []byte {
			var w []byte
			for _, lab := range strings.Split(name, ".") {
				w = append(append(w, byte(len(lab))), lab...)
			}
			return append(w, 0)
		}
		for si, st := range c.Steps {
			n := len(cur)
			idx := 0
			if n > 0 {
				idx = st.Idx % n
			}
			before := append([]string{}, cur...)
			switch st.Kind {
			case 0:
				if n > 0 {
					l.Labels[idx] = st.Name
					cur[idx] = st.Name
				}
			case 1:
				if n > 0 {
					l.Labels[idx] = flipCase(l.Labels[idx])
					cur[idx] = flipCase(cur[idx])
				}
			case 2:
				if n > 0 {
					cur[idx] = st.Name
				}
				l.Labels = append([]string{}, cur...)
			case 3:
				l.Labels = append(l.Labels, st.Name)
				cur = append(cur, st.Name)
			case 4:
				if n > 0 {
					l.Labels = append(l.Labels[:idx:idx], l.Labels[idx+1:]...)
					cur = append(cur[:idx:idx], cur[idx+1:]...)
				}
			case 5:
				l.Labels = append([]string{}, orig...)
				cur = append([]string{}, orig...)
			case 6, 7:
				// the object is used as a decoder again (a long-lived option object fed the next datagram): from then
				// on it holds what those bytes say, whatever it held and however it was edited before
				w := append([]byte{}, c.Wire...)
				want := orig
				if st.Kind == 7 {
					w = plain(st.Name)
					want = []string{st.Name}
				}
				if err := l.FromBytes(w); err != nil {
					return obs.Failf("C19/edit-sequence/redecode-rejected", "bytes accepted before are accepted again", "%v for %x", err, clipb(w))
				}
				cur = append([]string{}, want...)
				if !namesEq(l.Labels, cur) {
					return obs.Failf("C19/edit-sequence/redecode-stale", fmt.Sprintf("after decoding %x into the edited object it holds %q", clipb(w), cur), "%q", l.Labels)
				}
				if out := l.ToBytes(); !bytes.Equal(out, w) {
					return obs.Failf("C19/edit-sequence/redecode-not-verbatim", fmt.Sprintf("a set just parsed from %x re-encodes to exactly those bytes", clipb(w)), "%x", clipb(out))
				}
				verbatim = append([]byte{}, w...)
			case 8:
				// the unhappy path: the object is asked to decode bytes it must refuse. Whatever it holds afterwards (the
				// names it exports are the reference), its encoding says exactly that — never the refused bytes
				bad := [][]byte{{0xC0, 0xFF}, {0xC0}, {63, 'a'}, {3, 'a', 'b', 'c', 0xC0, 0x04, 0}, {0x40, 'x'}, {1, 'a', 0xC0, 0x02}}[st.Idx%6]
				names0 := append([]string{}, l.Labels...)
				err := l.FromBytes(append([]byte{}, bad...))
				cur = append([]string{}, l.Labels...)
				if err != nil && !namesEq(names0, cur) {
					verbatim = nil
				}
				if err == nil {
					verbatim = append([]byte{}, bad...)
				}
			case 9:
				// a copy of the object by value is used as a decoder for other bytes: the original is another object
				cp := *l
				_ = cp.FromBytes(plain(st.Name))
				_ = cp.ToBytes()
			}
			if st.Kind <= 5 && !namesEq(before, cur) {
				verbatim = nil
			}
			if !namesEq(before, cur) {
				changes++
			}
			out := l.ToBytes()
			back, class, reasons := reflabel.DecodeReasons(out)
			okClass := class == reflabel.Strict || (class == reflabel.Grey && len(reasons) == 1 && reasons[0] == reflabel.GreyLongName)
			if !okClass || !namesEq(back, cur) {
				return obs.Failf("C19/edit-sequence/not-encoded", fmt.Sprintf("after edit %d (kind %d): encoding of %q", si+1, st.Kind, cur), "%x which reads as %q (%s)", clipb(out), back, class)
			}
			if l.Length() != len(out) {
				return obs.Failf("C19/edit-sequence/length", fmt.Sprint(len(out)), "%d after edit %d", l.Length(), si+1)
			}
			if verbatim != nil && !bytes.Equal(out, verbatim) {
				return obs.Failf("C19/edit-sequence/not-verbatim", fmt.Sprintf("a set parsed from %x and not changed since re-encodes to exactly those bytes (after step %d, kind %d)", clipb(verbatim), si+1, st.Kind), "%x", clipb(out))
			}
		}
		rec.Class(fmt.Sprintf("%d edits", len(c.Steps)))
		if changes >= 2 {
			rec.NonTrivial(obs.HashJSON(c), func() any {
				return map[string]any{"wire": hx(clipb(c.Wire)), "parsed": orig, "steps": c.Steps}
			})
		}
		return nil
	})

func TestC19_EditSequencesRapid(t *testing.T) {
	c19seq.rapidCheck(t, rapid.Custom(func(rt *rapid.T) c19Seq {
		c := c19Seq{Wire: gen.LabelWireNoDots(false).Draw(rt, "wire")}
		for k := rapid.IntRange(2, 5).Draw(rt, "nsteps"); k > 0; k-- {
			c.Steps = append(c.Steps, c19Step{Kind: rapid.SampledFrom([]int{0, 0, 1, 2, 3, 4, 5, 6, 6, 7, 8, 8, 9, 9}).Draw(rt, "kind"), Idx: rapid.IntRange(0, 7).Draw(rt, "idx"), Name: gen.Name().Draw(rt, "name")})
		}
		return c
	}))
}
