package props

import (
	"fmt"
	"net"
	"reflect"
	"runtime/debug"
	"sort"
	"strings"
	"time"

	"github.com/insomniacslk/dhcp/dhcpv4"
	"github.com/insomniacslk/dhcp/dhcpv4/ztpv4"
	"github.com/insomniacslk/dhcp/dhcpv6"
	"github.com/insomniacslk/dhcp/dhcpv6/ztpv6"
	"github.com/insomniacslk/dhcp/netboot"

	"verif/obs"
)

// The observer walker enumerates, by reflection, every exported method without
// parameters reachable from a library value (on the value, on its library-typed
// fields, on the elements of its option lists and on every library-typed result),
// calls each under recover and renders the results canonically. A small table
// adds the read-only accessors that take parameters and the helper packages.

const libPath = "github.com/insomniacslk/dhcp"

type obsEntry struct {
	Name  string
	Out   string
	Panic string // non-empty: the call panicked (stack top in Out)
}

// niladic methods that are mutators (checked against the source at start-up:
// any niladic method whose name starts with Set/Add/Update/Del/Clear/Reset is excluded).
func isMutatorName(n string) bool {
	for _, p := range []string{"Set", "Add", "Update", "Del", "Clear", "Reset", "From", "Unmarshal"} {
		if strings.HasPrefix(n, p) {
			return true
		}
	}
	return false
}

func isLibType(t reflect.Type) bool {
	for t.Kind() == reflect.Pointer || t.Kind() == reflect.Slice || t.Kind() == reflect.Array {
		t = t.Elem()
	}
	return strings.HasPrefix(t.PkgPath(), libPath)
}

// render prints a value deterministically: pointers followed, maps sorted, byte slices as hex.
func render(v reflect.Value, depth int) string {
	if !v.IsValid() {
		return "<invalid>"
	}
	if depth > 6 {
		return "…"
	}
	switch v.Kind() {
	case reflect.Pointer, reflect.Interface:
		if v.IsNil() {
			return "nil"
		}
		if v.Kind() == reflect.Interface {
			if e, ok := safeIface(v).(error); ok {
				return "error(" + e.Error() + ")"
			}
		}
		return "&" + render(v.Elem(), depth+1)
	case reflect.Struct:
		if t, ok := safeIface(v).(time.Time); ok {
			return t.UTC().String()
		}
		var parts []string
		for i := 0; i < v.NumField(); i++ {
			parts = append(parts, v.Type().Field(i).Name+":"+render(v.Field(i), depth+1))
		}
		return v.Type().String() + "{" + strings.Join(parts, " ") + "}"
	case reflect.Slice, reflect.Array:
		if v.Kind() == reflect.Slice && v.IsNil() {
			return "[]"
		}
		if v.Type().Elem().Kind() == reflect.Uint8 {
			b := make([]byte, v.Len())
			for i := range b {
				b[i] = byte(v.Index(i).Uint())
			}
			return fmt.Sprintf("x%x", b)
		}
		var parts []string
		for i := 0; i < v.Len(); i++ {
			parts = append(parts, render(v.Index(i), depth+1))
		}
		return "[" + strings.Join(parts, " ") + "]"
	case reflect.Map:
		var parts []string
		for _, k := range v.MapKeys() {
			parts = append(parts, render(k, depth+1)+"="+render(v.MapIndex(k), depth+1))
		}
		sort.Strings(parts)
		return "map[" + strings.Join(parts, " ") + "]"
	case reflect.String:
		return fmt.Sprintf("%q", v.String())
	case reflect.Bool:
		return fmt.Sprint(v.Bool())
	case reflect.Int, reflect.Int8, reflect.Int16, reflect.Int32, reflect.Int64:
		return fmt.Sprint(v.Int())
	case reflect.Uint, reflect.Uint8, reflect.Uint16, reflect.Uint32, reflect.Uint64, reflect.Uintptr:
		return fmt.Sprint(v.Uint())
	case reflect.Func, reflect.Chan, reflect.UnsafePointer:
		return "<" + v.Kind().String() + ">"
	}
	return fmt.Sprint(v)
}

func safeIface(v reflect.Value) (out any) {
	defer func() {
		if recover() != nil {
			out = nil
		}
	}()
	if v.CanInterface() {
		return v.Interface()
	}
	return nil
}

// step is one hop of an observation path from the root value.
type step struct {
	Kind string // "field", "method", "index", "out" (k-th result of the preceding method)
	Name string
	Idx  int
	Arg  *reflect.Value // "method": the single argument of a look-up method (nil: niladic)
}

type opath []step

func (p opath) String() string {
	var b strings.Builder
	for _, s := range p {
		switch s.Kind {
		case "field":
			b.WriteString("." + s.Name)
		case "method":
			if s.Arg != nil {
				b.WriteString("." + s.Name + "(" + render(*s.Arg, 0) + ")")
			} else {
				b.WriteString("." + s.Name + "()")
			}
		case "index":
			fmt.Fprintf(&b, "[%d]", s.Idx)
		case "out":
			fmt.Fprintf(&b, "#%d", s.Idx)
		}
	}
	return b.String()
}

type walker struct {
	// harvest (when non-nil): values found in the object itself, by type — option codes, enterprise numbers, … —
	// used as arguments of the one-parameter look-up methods (Get, GetOne, Has, VendorOpt, Contains, …)
	harvest map[reflect.Type][]reflect.Value
	entries []obsEntry
	paths   []opath // one per entry produced by a reflective method call
	seen    map[string]bool
	calls   int
	max     int
}

func ext(p opath, s step) opath { return append(append(opath{}, p...), s) }

// execPath re-resolves an observation path on a (fresh) root value and returns the rendered result of its last call.
func execPath(root reflect.Value, p opath) (out string, panicked bool) {
	defer func() {
		if r := recover(); r != nil {
			out, panicked = fmt.Sprintf("panic: %v", r), true
		}
	}()
	cur := []reflect.Value{root}
	v := root
	for i, s := range p {
		for v.Kind() == reflect.Interface && !v.IsNil() {
			v = v.Elem()
		}
		switch s.Kind {
		case "field":
			sv := v
			if sv.Kind() == reflect.Pointer {
				sv = sv.Elem()
			}
			v = sv.FieldByName(s.Name)
		case "index":
			if s.Idx >= v.Len() {
				return "<index out of range>", false
			}
			v = v.Index(s.Idx)
		case "method":
			mv := v
			if v.Kind() != reflect.Pointer && v.CanAddr() {
				mv = v.Addr()
			}
			if s.Arg != nil {
				cur = mv.MethodByName(s.Name).Call([]reflect.Value{*s.Arg})
			} else {
				cur = mv.MethodByName(s.Name).Call(nil)
			}
			if i == len(p)-1 {
				var parts []string
				for _, o := range cur {
					parts = append(parts, render(o, 0))
				}
				return strings.Join(parts, " | "), false
			}
		case "out":
			v = cur[s.Idx]
		}
	}
	return "<path does not end in a call>", false
}

func (w *walker) call(name string, fn func() []reflect.Value) (outs []reflect.Value) {
	return w.callP(name, nil, fn)
}

func (w *walker) callP(name string, p opath, fn func() []reflect.Value) (outs []reflect.Value) {
	w.calls++
	w.paths = append(w.paths, p)
	defer func() {
		if p := recover(); p != nil {
			st := string(debug.Stack())
			w.entries = append(w.entries, obsEntry{Name: name, Out: obs.PanicSite(st), Panic: fmt.Sprintf("%v", p) + "\n" + clipS(st)})
			outs = nil
		}
	}()
	outs = fn()
	var parts []string
	for _, o := range outs {
		parts = append(parts, render(o, 0))
	}
	w.entries = append(w.entries, obsEntry{Name: name, Out: strings.Join(parts, " | ")})
	return outs
}

func (w *walker) visit(path string, v reflect.Value, depth int) {
	w.visitP(path, nil, v, depth)
}

func (w *walker) visitP(path string, op opath, v reflect.Value, depth int) {
	if !v.IsValid() || w.calls >= w.max || depth > 5 {
		return
	}
	switch v.Kind() {
	case reflect.Interface:
		if v.IsNil() {
			return
		}
		w.visitP(path, op, v.Elem(), depth)
		return
	case reflect.Pointer:
		if v.IsNil() {
			return
		}
	case reflect.Slice, reflect.Array:
		if isLibType(v.Type().Elem()) || v.Type().Elem().Kind() == reflect.Interface {
			n := min(v.Len(), 40)
			for i := 0; i < n; i++ {
				w.visitP(fmt.Sprintf("%s[%d]", path, i), ext(op, step{Kind: "index", Idx: i}), v.Index(i), depth)
			}
		}
		if !isLibType(v.Type()) || v.Type().PkgPath() == "" {
			return
		}
	}
	t := v.Type()
	if !isLibType(t) {
		return
	}
	// identity: type + pointer (or path for values) so that cycles (GetInnerMessage on a Message) stop
	key := t.String() + "@" + path
	if v.Kind() == reflect.Pointer {
		key = fmt.Sprintf("%s@%x", t.String(), v.Pointer())
	}
	if w.seen[key] {
		return
	}
	w.seen[key] = true
	// methods (pointer receiver set when addressable)
	mv := v
	if v.Kind() != reflect.Pointer && v.CanAddr() {
		mv = v.Addr()
	}
	mt := mv.Type()
	for i := 0; i < mt.NumMethod(); i++ {
		m := mt.Method(i)
		if m.Type.NumIn() != 1 || isMutatorName(m.Name) {
			continue
		}
		name := path + "." + m.Name + "()"
		mp := ext(op, step{Kind: "method", Name: m.Name})
		outs := w.callP(name, mp, func() []reflect.Value { return mv.Method(i).Call(nil) })
		for k, o := range outs {
			if o.IsValid() && (isLibType(o.Type()) || o.Kind() == reflect.Interface) {
				w.visitP(fmt.Sprintf("%s#%d", name, k), ext(mp, step{Kind: "out", Idx: k}), o, depth+1)
			}
		}
	}
	// look-up methods with one parameter, called with what the object itself holds of that type (and a value it
	// does not hold)
	for i := 0; w.harvest != nil && i < mt.NumMethod(); i++ {
		m := mt.Method(i)
		if m.Type.NumIn() != 2 || m.Type.NumOut() == 0 || isMutatorName(m.Name) {
			continue
		}
		for _, arg := range w.argsFor(m.Type.In(1)) {
			arg := arg
			name := path + "." + m.Name + "(" + render(arg, 0) + ")"
			mp := ext(op, step{Kind: "method", Name: m.Name, Arg: &arg})
			w.callP(name, mp, func() []reflect.Value { return mv.Method(i).Call([]reflect.Value{arg}) })
		}
	}
	// exported fields of library types
	sv := v
	if sv.Kind() == reflect.Pointer {
		sv = sv.Elem()
	}
	if sv.Kind() == reflect.Struct {
		for i := 0; i < sv.NumField(); i++ {
			f := sv.Type().Field(i)
			if !f.IsExported() {
				continue
			}
			fv := sv.Field(i)
			if isLibType(f.Type) || f.Type.Kind() == reflect.Interface || (f.Type.Kind() == reflect.Slice && f.Type.Elem().Kind() == reflect.Interface) {
				w.visitP(path+"."+f.Name, ext(op, step{Kind: "field", Name: f.Name}), fv, depth)
			}
		}
	}
}

// argsFor returns the arguments a one-parameter look-up method is called with: up to four distinct harvested values
// of the parameter's type and one the object does not hold. Only numeric kinds, durations and the DHCPv4 option-code
// interface are served; a method with any other parameter type is not called.
func (w *walker) argsFor(pt reflect.Type) []reflect.Value {
	var out []reflect.Value
	seen := map[string]bool{}
	add := func(v reflect.Value) {
		if k := render(v, 0); !seen[k] && len(out) < 5 {
			seen[k] = true
			out = append(out, v)
		}
	}
	v4code := reflect.TypeOf((*dhcpv4.OptionCode)(nil)).Elem()
	switch {
	case pt == v4code:
		for _, h := range w.harvest[reflect.TypeOf(uint8(0))] {
			if len(out) < 4 {
				add(reflect.ValueOf(dhcpv4.GenericOptionCode(uint8(h.Uint()))))
			}
		}
		add(reflect.ValueOf(dhcpv4.GenericOptionCode(254)))
	case pt == reflect.TypeOf(time.Duration(0)):
		add(reflect.ValueOf(time.Hour))
	case pt.Kind() == reflect.Int:
		add(reflect.ValueOf(0).Convert(pt))
		add(reflect.ValueOf(3).Convert(pt))
	case pt.Kind() == reflect.Uint8 || pt.Kind() == reflect.Uint16 || pt.Kind() == reflect.Uint32:
		for _, h := range w.harvest[pt] {
			if len(out) < 4 {
				add(h)
			}
		}
		add(reflect.ValueOf(uint64(65001)).Convert(pt))
	}
	return out
}

// harvestValues collects, by type, the unsigned integers an object holds (struct fields, slice elements, map keys
// and the results of its niladic Code-like methods are all reached through the first, niladic walk's renderings; here
// the object graph itself is walked).
func harvestValues(root reflect.Value) map[reflect.Type][]reflect.Value {
	h := map[reflect.Type][]reflect.Value{}
	seen := map[uintptr]bool{}
	n := 0
	var walk func(v reflect.Value, depth int)
	walk = func(v reflect.Value, depth int) {
		if !v.IsValid() || depth > 8 || n > 4000 {
			return
		}
		n++
		switch v.Kind() {
		case reflect.Pointer:
			if v.IsNil() || seen[v.Pointer()] {
				return
			}
			seen[v.Pointer()] = true
			// the option's own code (DHCPv6 options carry it only as a method)
			if m := v.MethodByName("Code"); m.IsValid() && m.Type().NumIn() == 0 && m.Type().NumOut() == 1 {
				func() {
					defer func() { _ = recover() }()
					o := m.Call(nil)[0]
					h[o.Type()] = append(h[o.Type()], o)
				}()
			}
			walk(v.Elem(), depth+1)
		case reflect.Interface:
			if !v.IsNil() {
				walk(v.Elem(), depth)
			}
		case reflect.Struct:
			for i := 0; i < v.NumField(); i++ {
				if v.Type().Field(i).IsExported() {
					walk(v.Field(i), depth+1)
				}
			}
		case reflect.Slice, reflect.Array:
			if v.Type().Elem().Kind() == reflect.Uint8 {
				return
			}
			for i := 0; i < min(v.Len(), 40); i++ {
				walk(v.Index(i), depth+1)
			}
		case reflect.Map:
			for _, k := range v.MapKeys() {
				walk(k, depth+1)
				walk(v.MapIndex(k), depth+1)
			}
		case reflect.Uint8, reflect.Uint16, reflect.Uint32:
			h[v.Type()] = append(h[v.Type()], reflect.ValueOf(v.Interface()))
		}
	}
	walk(root, 0)
	// values that occur more than once first (a look-up by such a value has several matches), then ascending
	for t, vs := range h {
		cnt := map[uint64]int{}
		for _, v := range vs {
			cnt[v.Uint()]++
		}
		sort.SliceStable(vs, func(a, b int) bool {
			if ca, cb := cnt[vs[a].Uint()], cnt[vs[b].Uint()]; ca != cb {
				return ca > cb
			}
			return vs[a].Uint() < vs[b].Uint()
		})
		h[t] = vs
	}
	return h
}

// observeV4 runs the whole walk on a DHCPv4 packet.
func observeV4(p *dhcpv4.DHCPv4, deep bool) []obsEntry {
	w := &walker{seen: map[string]bool{}, max: 600}
	w.visit("v4", reflect.ValueOf(p), 0)
	c := func(name string, fn func() any) {
		w.call("v4."+name, func() []reflect.Value { return []reflect.Value{reflect.ValueOf(&[]any{fn()}[0]).Elem()} })
	}
	c("IPAddressLeaseTime(def)", func() any { return p.IPAddressLeaseTime(time.Hour) })
	c("IPAddressRenewalTime(def)", func() any { return p.IPAddressRenewalTime(time.Hour) })
	c("IPAddressRebindingTime(def)", func() any { return p.IPAddressRebindingTime(time.Hour) })
	c("IsOptionRequested(3)", func() any { return p.IsOptionRequested(dhcpv4.OptionRouter) })
	c("GetOneOption(82)", func() any { return p.GetOneOption(dhcpv4.OptionRelayAgentInformation) })
	c("Options.Has(53)", func() any { return p.Options.Has(dhcpv4.OptionDHCPMessageType) })
	c("SummaryWithVendor(nil)", func() any { return p.SummaryWithVendor(nil) })
	c("Options.String", func() any { return p.Options.String() })
	c("Options.ToBytes", func() any { return p.Options.ToBytes() })
	if deep {
		c("NewReplyFromRequest", func() any { q, err := dhcpv4.NewReplyFromRequest(p); return []any{noXid(q), err} })
		c("NewRequestFromOffer", func() any { q, err := dhcpv4.NewRequestFromOffer(p); return []any{noXid(q), err} })
		c("NewRenewFromAck", func() any { q, err := dhcpv4.NewRenewFromAck(p); return []any{noXid(q), err} })
		c("NewReleaseFromACK", func() any { q, err := dhcpv4.NewReleaseFromACK(p); return []any{noXid(q), err} })
		c("ztpv4.ParseCircuitID", func() any { x, err := ztpv4.ParseCircuitID(p); return []any{x, err} })
		c("ztpv4.ParseVendorData", func() any { x, err := ztpv4.ParseVendorData(p); return []any{x, err} })
		c("netboot.GetNetConfFromPacketv4", func() any { x, err := netboot.GetNetConfFromPacketv4(p); return []any{x, err} })
		c("netboot.ConversationToNetconfv4", func() any {
			x, err := netboot.ConversationToNetconfv4([]*dhcpv4.DHCPv4{p})
			return []any{x, err}
		})
	}
	return w.entries
}

// noXid hides random transaction ids of freshly built packets from comparisons.
func noXid(q *dhcpv4.DHCPv4) any {
	if q == nil {
		return nil
	}
	c := *q
	c.TransactionID = dhcpv4.TransactionID{}
	return c.Summary()
}

// observeV6 runs the whole walk on a DHCPv6 message or relay message.
func observeV6(d dhcpv6.DHCPv6, deep bool) []obsEntry {
	w := &walker{seen: map[string]bool{}, max: 900}
	// Printing a relay chain costs O(depth²) (indentation) per call: beyond a dozen levels only the
	// message-level methods and the helpers are run, not the whole reflective walk of every level.
	if lv := relayDepthOf(d); lv > 12 {
		w.max = 40
	}
	w.visit("v6", reflect.ValueOf(d), 0)
	c := func(name string, fn func() any) {
		w.call("v6."+name, func() []reflect.Value { return []reflect.Value{reflect.ValueOf(&[]any{fn()}[0]).Elem()} })
	}
	c("LongString(2)", func() any { return d.LongString(2) })
	c("GetOption(3)", func() any { return fmt.Sprint(d.GetOption(dhcpv6.OptionIANA)) })
	c("GetOneOption(1)", func() any { return fmt.Sprint(d.GetOneOption(dhcpv6.OptionClientID)) })
	if m, ok := d.(*dhcpv6.Message); ok {
		c("IsOptionRequested(23)", func() any { return m.IsOptionRequested(dhcpv6.OptionDNSRecursiveNameServer) })
		c("Options.VendorOpt(n)", func() any { return fmt.Sprint(m.Options.VendorOpt(1271)) })
		c("Options.VendorClass(n)", func() any { return m.Options.VendorClass(1271) })
		c("Options.InformationRefreshTime(def)", func() any { return m.Options.InformationRefreshTime(time.Hour) })
		c("Options.LongString", func() any { return m.Options.Options.LongString(1) })
	}
	if deep {
		c("GetTransactionID", func() any { x, err := dhcpv6.GetTransactionID(d); return []any{x, err} })
		c("ExtractMAC", func() any { x, err := dhcpv6.ExtractMAC(d); return []any{net.HardwareAddr(x).String(), err} })
		c("DecapsulateRelay", func() any { x, err := dhcpv6.DecapsulateRelay(d); return []any{sum6(x), err} })
		c("DecapsulateRelayIndex(-1)", func() any { x, err := dhcpv6.DecapsulateRelayIndex(d, -1); return []any{sum6(x), err} })
		c("DecapsulateRelayIndex(1)", func() any { x, err := dhcpv6.DecapsulateRelayIndex(d, 1); return []any{sum6(x), err} })
		c("ztpv6.ParseVendorData", func() any { x, err := ztpv6.ParseVendorData(d); return []any{x, err} })
		c("ztpv6.ParseRemoteID", func() any { x, err := ztpv6.ParseRemoteID(d); return []any{x, err} })
		if m, ok := d.(*dhcpv6.Message); ok {
			c("NewAdvertiseFromSolicit", func() any { x, err := dhcpv6.NewAdvertiseFromSolicit(m); return []any{sum6m(x, false), err} })
			c("NewRequestFromAdvertise", func() any { x, err := dhcpv6.NewRequestFromAdvertise(m); return []any{sum6m(x, true), err} })
			c("NewReplyFromMessage", func() any { x, err := dhcpv6.NewReplyFromMessage(m); return []any{sum6m(x, false), err} })
			c("netboot.GetNetConfFromPacketv6", func() any { x, err := netboot.GetNetConfFromPacketv6(m); return []any{x, err} })
			c("netboot.ConversationToNetconf", func() any {
				x, err := netboot.ConversationToNetconf([]dhcpv6.DHCPv6{m})
				return []any{x, err}
			})
		}
		if r, ok := d.(*dhcpv6.RelayMessage); ok {
			c("NewRelayReplFromRelayForw", func() any {
				rep := &dhcpv6.Message{MessageType: dhcpv6.MessageTypeReply}
				x, err := dhcpv6.NewRelayReplFromRelayForw(r, rep)
				return []any{sum6(x), err}
			})
			c("netboot.ConversationToNetconf(relay)", func() any {
				x, err := netboot.ConversationToNetconf([]dhcpv6.DHCPv6{r})
				return []any{x, err}
			})
		}
	}
	return w.entries
}

// observeAgain is the second pass after a full walk (which included the builders and helpers): the operations a
// caller performs last — encode, print, look up the inner message, build the reply — on a value every read-only
// operation has already been applied to once. "Read-only" operations that quietly damage the value they read
// (an in-place filter over a shared slice, a memo that forgets its error) show here.
func observeAgain(v any) []obsEntry {
	w := &walker{seen: map[string]bool{}, max: 40}
	c := func(name string, fn func() any) {
		w.call("again."+name, func() []reflect.Value { return []reflect.Value{reflect.ValueOf(&[]any{fn()}[0]).Elem()} })
	}
	switch d := v.(type) {
	case *dhcpv4.DHCPv4:
		c("ToBytes", func() any { return d.ToBytes() })
		c("Summary", func() any { return d.Summary() })
		c("NewReplyFromRequest", func() any { q, err := dhcpv4.NewReplyFromRequest(d); return []any{noXid(q), err} })
		c("ztpv4.ParseVendorData", func() any { x, err := ztpv4.ParseVendorData(d); return []any{x, err} })
		c("RelayAgentInfo", func() any { return fmt.Sprint(d.RelayAgentInfo()) })
	case dhcpv6.DHCPv6:
		c("ToBytes", func() any { return d.ToBytes() })
		c("Summary", func() any { return d.Summary() })
		c("GetOneOption(9)", func() any { return fmt.Sprint(d.GetOneOption(dhcpv6.OptionRelayMsg)) })
		c("GetInnerMessage", func() any { x, err := d.GetInnerMessage(); return []any{sum6m(x, false), err} })
		c("GetTransactionID", func() any { x, err := dhcpv6.GetTransactionID(d); return []any{x, err} })
		c("ExtractMAC", func() any { x, err := dhcpv6.ExtractMAC(d); return []any{net.HardwareAddr(x).String(), err} })
		c("DecapsulateRelayIndex(-1)", func() any { x, err := dhcpv6.DecapsulateRelayIndex(d, -1); return []any{sum6(x), err} })
		c("ztpv6.ParseVendorData", func() any { x, err := ztpv6.ParseVendorData(d); return []any{x, err} })
		if r, ok := d.(*dhcpv6.RelayMessage); ok {
			c("NewRelayReplFromRelayForw", func() any {
				x, err := dhcpv6.NewRelayReplFromRelayForw(r, &dhcpv6.Message{MessageType: dhcpv6.MessageTypeReply})
				return []any{sum6(x), err}
			})
		}
		if m, ok := d.(*dhcpv6.Message); ok {
			c("NewReplyFromMessage", func() any { x, err := dhcpv6.NewReplyFromMessage(m); return []any{sum6m(x, false), err} })
			c("IsNetboot", func() any { return m.IsNetboot() })
		}
	}
	return w.entries
}

func sum6(d dhcpv6.DHCPv6) any {
	if d == nil || reflect.ValueOf(d).IsNil() {
		return nil
	}
	return d.Summary()
}

func sum6m(m *dhcpv6.Message, hideXid bool) any {
	if m == nil {
		return nil
	}
	if hideXid {
		c := *m
		c.TransactionID = dhcpv6.TransactionID{}
		return c.Summary()
	}
	return m.Summary()
}

// firstPanic returns the first panicking entry.
func firstPanic(es []obsEntry) *obsEntry {
	for i := range es {
		if es[i].Panic != "" {
			return &es[i]
		}
	}
	return nil
}

// diffEntries compares two walks of the same value.
func diffEntries(a, b []obsEntry) (string, string, string) {
	if len(a) != len(b) {
		return "walk-shape", fmt.Sprintf("%d observations", len(a)), fmt.Sprintf("%d observations", len(b))
	}
	for i := range a {
		if a[i].Name != b[i].Name {
			return "walk-shape", a[i].Name, b[i].Name
		}
		if a[i].Out != b[i].Out || (a[i].Panic == "") != (b[i].Panic == "") {
			return a[i].Name, clipS(a[i].Out), clipS(b[i].Out)
		}
	}
	return "", "", ""
}

// methodKey strips the path of an observation name down to its method (for signatures).
func methodKey(name string) string {
	if i := strings.LastIndex(name, "."); i >= 0 {
		name = name[i+1:]
	}
	return strings.TrimSuffix(name, "()")
}

func relayDepthOf(d dhcpv6.DHCPv6) int {
	n := 0
	for d != nil && n < 1000 {
		r, ok := d.(*dhcpv6.RelayMessage)
		if !ok {
			break
		}
		n++
		d = r.Options.RelayMessage()
	}
	return n
}
