package gen

import (
	"strings"

	"pgregory.net/rapid"
)

// Label draws one label of 1..63 arbitrary non-dot bytes (biased to short and to the 63 boundary).
func Label() *rapid.Generator[string] {
	return rapid.Custom(func(t *rapid.T) string {
		n := rapid.SampledFrom([]int{1, 1, 2, 3, 3, 5, 7, 12, 40, 62, 63}).Draw(t, "llen")
		var b []byte
		if rapid.IntRange(0, 3).Draw(t, "ascii") != 0 {
			alpha := "abcdefghijklmnopqrstuvwxyz0123456789-"
			b = make([]byte, n)
			idx := rapid.SliceOfN(rapid.IntRange(0, len(alpha)-1), 1, 6).Draw(t, "idx")
			for i := range b {
				b[i] = alpha[idx[i%len(idx)]]
			}
		} else {
			b = Fill(t, n, "lab")
			for i := range b {
				if b[i] == '.' {
					b[i] = '_'
				}
			}
		}
		return string(b)
	})
}

// Name draws a valid domain name: 1..8 labels, total wire length ≤ 255 — one in twelve of exactly 253, 254 or 255
// wire octets (the longest names RFC 1035 allows).
func Name() *rapid.Generator[string] {
	return rapid.Custom(func(t *rapid.T) string {
		if rapid.IntRange(0, 11).Draw(t, "maxlen") == 0 {
			// wire length = Σ(len+1) + 1; three labels of 63 take 192 octets, the last label fills up to the target
			target := rapid.SampledFrom([]int{255, 255, 254, 253}).Draw(t, "wirelen")
			last := target - 194
			ls := []string{strings.Repeat("a", 63), strings.Repeat("b", 63), strings.Repeat("c", 63), strings.Repeat("d", last)}
			if rapid.Bool().Draw(t, "manylabels") { // the same length with many short labels: 126 one-octet labels + one of (target-254)… keep it simple: 2-octet cells
				ls = nil
				rest := target - 1
				for rest > 0 {
					l := min(rest-1, 1+rapid.IntRange(0, 2).Draw(t, "cell"))
					if rest-1-l == 1 { // never leave a single octet (a label needs a length octet and ≥1 content octet)
						l--
					}
					if l <= 0 {
						break
					}
					ls = append(ls, strings.Repeat("e", l))
					rest -= l + 1
				}
			}
			return strings.Join(ls, ".")
		}
		n := rapid.IntRange(1, 8).Draw(t, "nlabels")
		var ls []string
		wire := 1
		for i := 0; i < n; i++ {
			l := Label().Draw(t, "label")
			if wire+1+len(l) > 255 {
				break
			}
			wire += 1 + len(l)
			ls = append(ls, l)
		}
		if len(ls) == 0 {
			ls = []string{"a"}
		}
		return strings.Join(ls, ".")
	})
}

// Names draws a list of 0..max valid names.
func Names(max int) *rapid.Generator[[]string] {
	return rapid.SliceOfN(Name(), 0, max)
}

// LabelWire builds a label buffer with RFC-style compression pointers
// (backward to a label boundary of an earlier name, including offsets ≥ 256),
// an optional trailing partial name, and — with hostile — the grey/malformed
// variants (forward pointers, pointers into the middle of a label, pointer
// chains, reserved label types, truncation, pointers beyond the buffer).
func LabelWire(hostile bool) *rapid.Generator[[]byte] { return labelWire(hostile, true) }

// LabelWireNoDots is LabelWire without '.' octets inside labels: for checks that edit the parsed names as text,
// where a dot inside a label cannot be told from a label boundary.
func LabelWireNoDots(hostile bool) *rapid.Generator[[]byte] { return labelWire(hostile, false) }

// wireLabelContent occasionally replaces a drawn label by content that is legal on the wire (RFC 1035 section 3.1:
// a label is any octets) but hostile to code that handles names as dotted text: a '.' octet inside, at the start
// or at the end of a label, a label that is just ".", NUL and upper-case octets.
func wireLabelContent(t *rapid.T, l string) string {
	switch rapid.IntRange(0, 29).Draw(t, "wirecontent") {
	case 0:
		return l + "." + l
	case 1:
		return "." + l
	case 2:
		return l + "."
	case 3:
		return "."
	case 4:
		return l + "\x00"
	case 5:
		return strings.ToUpper(l)
	}
	return l
}

func labelWire(hostile, dotted bool) *rapid.Generator[[]byte] {
	return rapid.Custom(func(t *rapid.T) []byte {
		var b []byte
		var bounds []int // label-start offsets of directly written names
		n := rapid.IntRange(0, 8).Draw(t, "nnames")
		shape := rapid.IntRange(0, 9).Draw(t, "shape")
		for i := 0; i < n; i++ {
			if shape == 0 && i == 1 && len(bounds) > 0 {
				// a run of bare pointers onto the first name (each one a complete name of its own)
				for k := rapid.IntRange(1, 12).Draw(t, "ptrrun"); k > 0; k-- {
					off := bounds[0]
					b = append(b, 0xC0|byte(off>>8), byte(off))
				}
				continue
			}
			nl := rapid.IntRange(0, 5).Draw(t, "nlabels")
			full := (shape == 0 && i == 0) || (shape == 1 && i == n-1) || shape == 2 || (shape == 3 && i == 1)
			exact := 0
			if full && rapid.Bool().Draw(t, "exact") {
				// a name of exactly 254..257 wire octets (root included): the limit is 255, wherever the name stands in the list
				nl, exact = 4, rapid.SampledFrom([]int{254, 255, 256, 257}).Draw(t, "exactlen")
			}
			var mine []int
			for k := 0; k < nl; k++ {
				l := Label().Draw(t, "label")
				if dotted && len(l) < 30 {
					l = wireLabelContent(t, l)
				}
				if full { // names at and around the 255-octet limit: labels of 61..63 octets
					l = strings.Repeat("x", rapid.IntRange(61, 63).Draw(t, "fulllen"))
				}
				if exact > 0 {
					l = strings.Repeat("y", 63)
					if k == 3 {
						l = strings.Repeat("z", exact-194)
					}
				}
				mine = append(mine, len(b))
				b = append(b, byte(len(l)))
				b = append(b, l...)
			}
			end := rapid.IntRange(0, 9).Draw(t, "end")
			switch {
			case end <= 3 && len(bounds) > 0: // pointer to an earlier boundary
				off := rapid.SampledFrom(bounds).Draw(t, "ptr")
				if off < 0x3FFF {
					b = append(b, 0xC0|byte(off>>8), byte(off))
				} else {
					b = append(b, 0)
				}
			case hostile && end == 4: // hostile pointer
				var off int
				switch rapid.IntRange(0, 3).Draw(t, "hp") {
				case 0:
					off = len(b) + rapid.IntRange(0, 6).Draw(t, "fwd") // forward / self
				case 1:
					off = rapid.IntRange(0, len(b)+2).Draw(t, "any") // anywhere, mid-label
				case 2:
					off = rapid.SampledFrom([]int{0x3FFF, 0x100, 0xFF, 0x1FF}).Draw(t, "far")
				default:
					off = max(0, len(b)-2)
				}
				b = append(b, 0xC0|byte(off>>8), byte(off))
			case i == n-1 && (end == 5 || shape == 1): // trailing partial name: no terminator
			default:
				b = append(b, 0)
			}
			bounds = append(bounds, mine...)
		}
		if hostile && rapid.IntRange(0, 9).Draw(t, "ring") == 0 {
			// a closed ring of k pointers (no label on it), optionally behind a name
			k := rapid.IntRange(1, 24).Draw(t, "ringlen")
			base := len(b)
			for i := 0; i < k; i++ {
				next := base + 2*((i+1)%k)
				b = append(b, 0xC0|byte(next>>8), byte(next))
			}
		}
		if hostile {
			for k := rapid.IntRange(0, 2).Draw(t, "nmut"); k > 0 && len(b) > 0; k-- {
				switch rapid.IntRange(0, 4).Draw(t, "mut") {
				case 0:
					b = b[:rapid.IntRange(0, len(b)).Draw(t, "cut")]
				case 1:
					i := rapid.IntRange(0, len(b)-1).Draw(t, "i")
					b[i] = rapid.SampledFrom([]byte{0, 1, 0x3F, 0x40, 0x80, 0xBF, 0xC0, 0xC1, 0xFF}).Draw(t, "v")
				case 2:
					i := rapid.IntRange(0, len(b)-1).Draw(t, "i")
					b[i] = rapid.Byte().Draw(t, "v")
				case 3:
					b = append(b, rapid.SampledFrom([]byte{0xC0, 0x01, 0x40, 0x00}).Draw(t, "app"))
				case 4:
					i := rapid.IntRange(0, len(b)).Draw(t, "i")
					b = append(b[:i:i], append([]byte{0xC0, byte(rapid.IntRange(0, 255).Draw(t, "po"))}, b[i:]...)...)
				}
			}
		}
		return b
	})
}
