package props

import (
	"bytes"
	"encoding/binary"
	"errors"
	"fmt"
	"net"
	"reflect"
	"sort"
	"sync"
	"testing"
	"testing/synctest"

	"github.com/insomniacslk/dhcp/dhcpv4"
	"github.com/insomniacslk/dhcp/dhcpv4/server4"
	"github.com/insomniacslk/dhcp/dhcpv6"
	"github.com/insomniacslk/dhcp/dhcpv6/server6"
	"pgregory.net/rapid"

	"verif/gen"
	"verif/netsim"
	"verif/obs"
	"verif/ref/refv4"
)

// C14 — servers dispatch each valid datagram exactly once and survive bad ones.

type c14Read struct {
	Kind    int     `json:"kind"` // 0 valid, 1 undecodable, 2 empty
	B       obs.Hex `json:"bytes"`
	Sender  int     `json:"sender"` // 0 address, 1 nil IP, 2 0.0.0.0, 3 ::ffff:0.0.0.0, 4 another address
	Port    int     `json:"port"`
	Release int     `json:"release"` // handler returns: −1 at once, k ≥ 0 after read k of the sequence, 1<<30 at the end
}

type c14Case struct {
	V6      bool      `json:"v6"`
	Reads   []c14Read `json:"reads"`
	CloseAt int       `json:"close_at"` // position at which the server is closed (−1: the socket fails after the last read instead)
	// CloseRace: the datagram at position CloseAt is put on the socket and the server is closed in the same breath, so
	// the read that returns it and Close are concurrent. Whether the server gets to read it is the scheduler's choice;
	// if it did read it (the scripted socket knows), it must dispatch it like any other.
	CloseRace bool `json:"close_race,omitempty"`
	// Logger: the documented logging configurations (0 default, 1 short-summary logger, 2 debug logger, 3 a caller's own
	// Logger); what is logged is not asserted, but dispatching does not depend on it
	Logger int `json:"logger,omitempty"`
}

// c14Sink formats what it is given (so that the loggers' formatting code runs) and discards it.
type c14Sink struct{}

func (c14Sink) Printf(format string, v ...interface{}) { _ = fmt.Sprintf(format, v...) }

type c14OwnLogger6 struct{ c14Sink }

func (c14OwnLogger6) PrintMessage(prefix string, m *dhcpv6.Message) { _ = prefix }

type c14OwnLogger4 struct{ c14Sink }

func (c14OwnLogger4) PrintMessage(prefix string, m *dhcpv4.DHCPv4) { _ = prefix }

type c14Call struct {
	serial     int
	encAtCall  []byte
	encAtEnd   []byte
	peerAtCall string
	peerAtEnd  string
}

func senderAddr(kind, port int, v6 bool) net.Addr {
	switch kind {
	case 1:
		return &net.UDPAddr{Port: port}
	case 2:
		return &net.UDPAddr{IP: net.IPv4zero, Port: port}
	case 3:
		return &net.UDPAddr{IP: net.IPv4zero.To16(), Port: port}
	case 4:
		if v6 {
			return &net.UDPAddr{IP: net.ParseIP("fe80::9"), Port: port, Zone: "eth9"}
		}
		return &net.UDPAddr{IP: net.IP{192, 0, 2, 9}, Port: port}
	}
	if v6 {
		return &net.UDPAddr{IP: net.ParseIP("2001:db8::5"), Port: port}
	}
	return &net.UDPAddr{IP: net.IP{10, 0, 0, 5}, Port: port}
}

func serial4(p *dhcpv4.DHCPv4) int { return v4Serial(p) }
func serial6(d dhcpv6.DHCPv6) int {
	m, err := d.GetInnerMessage()
	if err != nil {
		return -1
	}
	return v6Serial(m)
}

var c14 = newChk("C14", "dispatch",
	"sequences of 0..200 reads on the DHCPv4 and DHCPv6 servers (valid messages of every type incl. relay nesting, each tagged with a serial; undecodable datagrams; empty reads) from senders with an address, without IP, with 0.0.0.0 and ::ffff:0.0.0.0 and differing ports; handlers that return at once, after a later read, or at the end; Close at a generated position or a failing socket at the end; run under virtual time so quiescence is exact. Oracle: the multiset of handler invocations equals the multiset of decodable datagrams read before the end, never one for an undecodable datagram; each handler's message encodes like the independent decoding of its own datagram at invocation and again after all later reads; the peer is the sender (DHCPv4: 255.255.255.255:port for address-less senders) at both instants; Serve returns only then, with the read error; non-trivial = a malformed datagram followed by a valid one, or ≥2 handlers alive at once; distinct by case hash",
	func(rec *obs.Rec, c c14Case) *obs.Fail {
		fam := "server4"
		if c.V6 {
			fam = "server6"
		}
		var mu sync.Mutex
		var calls []*c14Call
		releases := map[int]chan struct{}{}
		serialOf := map[int]int{} // read index → serial
		var serveErr error
		consumed := 0
		var readLog [][]byte
		serveDone := false
		earlyReturn := ""
		sockErr := errors.New("socket failed")
		prob := inBubble(curT, func() {
			conn := netsim.New(4096)
			conn.LogReads = true
			handle := func(serial int, enc func() []byte, peer func() string) {
				cl := &c14Call{serial: serial, encAtCall: enc(), peerAtCall: peer()}
				mu.Lock()
				calls = append(calls, cl)
				ch := releases[serial]
				mu.Unlock()
				if ch != nil {
					<-ch
				}
				cl.encAtEnd, cl.peerAtEnd = enc(), peer()
			}
			if c.V6 {
				s, err := server6.NewServer("", nil, func(_ net.PacketConn, peer net.Addr, m dhcpv6.DHCPv6) {
					if rv := reflect.ValueOf(m); m == nil || (rv.Kind() == reflect.Ptr && rv.IsNil()) {
						// a handler invoked without a message: recorded as a dispatch nobody expects
						handle(-2, func() []byte { return nil }, func() string { return fmt.Sprintf("%T %v", peer, peer) })
						return
					}
					handle(serial6(m), m.ToBytes, func() string { return fmt.Sprintf("%T %v", peer, peer) })
				}, append([]server6.ServerOpt{server6.WithConn(conn)}, map[int][]server6.ServerOpt{
					1: {server6.WithLogger(server6.ShortSummaryLogger{Printfer: c14Sink{}})},
					2: {server6.WithLogger(server6.DebugLogger{Printfer: c14Sink{}})},
					3: {server6.WithLogger(c14OwnLogger6{})},
				}[c.Logger%4]...)...)
				if err != nil {
					panic(err)
				}
				go func() { serveErr = s.Serve(); serveDone = true }()
				defer s.Close()
				c14Drive(c, conn, func() { s.Close() }, releases, serialOf, &mu, &serveDone, &earlyReturn, sockErr)
				consumed, readLog = conn.Reads(), conn.ReadLog()
			} else {
				s, err := server4.NewServer("", nil, func(_ net.PacketConn, peer net.Addr, m *dhcpv4.DHCPv4) {
					if m == nil {
						handle(-2, func() []byte { return nil }, func() string { return fmt.Sprintf("%T %v", peer, peer) })
						return
					}
					handle(serial4(m), m.ToBytes, func() string { return fmt.Sprintf("%T %v", peer, peer) })
				}, append([]server4.ServerOpt{server4.WithConn(conn)}, map[int][]server4.ServerOpt{
					1: {server4.WithLogger(server4.ShortSummaryLogger{Printfer: c14Sink{}})},
					2: {server4.WithLogger(server4.DebugLogger{Printfer: c14Sink{}})},
					3: {server4.WithLogger(c14OwnLogger4{})},
				}[c.Logger%4]...)...)
				if err != nil {
					panic(err)
				}
				go func() { serveErr = s.Serve(); serveDone = true }()
				defer s.Close()
				c14Drive(c, conn, func() { s.Close() }, releases, serialOf, &mu, &serveDone, &earlyReturn, sockErr)
				consumed, readLog = conn.Reads(), conn.ReadLog()
			}
		})
		if prob != "" {
			return obs.Failf("C14/"+fam+"/panic-or-leak", "the serving loop survives every datagram and ends cleanly", "%s", clipS(prob))
		}
		if earlyReturn != "" {
			return obs.Failf("C14/"+fam+"/serve-returned-early", "Serve returns only when reading fails or the server is closed", "%s", earlyReturn)
		}
		if !serveDone {
			return obs.Failf("C14/"+fam+"/serve-stuck", "Serve returns after the read error / Close", "still running")
		}
		if c.CloseAt < 0 && !errors.Is(serveErr, sockErr) {
			return obs.Failf("C14/"+fam+"/serve-error", "Serve returns the read error", "%v", serveErr)
		}
		if c.CloseAt >= 0 && serveErr == nil {
			return obs.Failf("C14/"+fam+"/serve-error", "Serve returns the read error after Close", "nil")
		}
		// expected dispatches
		type exp struct {
			serial int
			enc    []byte
			peer   string
		}
		var want []exp
		malformedThenValid, sawBad := false, false
		last := len(c.Reads)
		if c.CloseAt >= 0 && c.CloseAt < last {
			last = c.CloseAt
			if c.CloseRace && consumed > c.CloseAt {
				last = c.CloseAt + 1 // the server did read the datagram that raced with Close
			}
		}
		for i := 0; i < last; i++ {
			r := c.Reads[i]
			var enc []byte
			ok := false
			ser := -1
			// whether a datagram decodes is decided by decoding it (what "decodes" means is C05's business)
			wire := c14Bytes(c.V6, r, serialOf[i])
			// a datagram longer than an Ethernet-MTU DHCP message may be cut by the server's read buffer, as a UDP socket
			// does: what was "read from the socket" is then what the scripted socket handed over
			if len(wire) > 1500 && i < len(readLog) {
				wire = readLog[i]
			}
			if c.V6 {
				if d, err := dhcpv6.FromBytes(wire); err == nil {
					enc, ok, ser = d.ToBytes(), true, serial6(d)
				}
			} else {
				if p, err := dhcpv4.FromBytes(wire); err == nil {
					enc, ok, ser = p.ToBytes(), true, serial4(p)
				}
			}
			if !ok {
				sawBad = true
				continue
			}
			if sawBad {
				malformedThenValid = true
			}
			a := senderAddr(r.Sender, r.Port, c.V6)
			if !c.V6 {
				u := a.(*net.UDPAddr)
				if u.IP == nil || u.IP.To4().Equal(net.IPv4zero) {
					a = &net.UDPAddr{IP: net.IPv4bcast, Port: u.Port}
				}
			}
			want = append(want, exp{ser, enc, fmt.Sprintf("%T %v", a, a)})
		}
		sort.SliceStable(want, func(a, b int) bool {
			if want[a].serial != want[b].serial {
				return want[a].serial < want[b].serial
			}
			return bytes.Compare(want[a].enc, want[b].enc) < 0
		})
		sort.SliceStable(calls, func(a, b int) bool {
			if calls[a].serial != calls[b].serial {
				return calls[a].serial < calls[b].serial
			}
			return bytes.Compare(calls[a].encAtCall, calls[b].encAtCall) < 0
		})
		if len(calls) != len(want) {
			var gs, ws []int
			for _, x := range calls {
				gs = append(gs, x.serial)
			}
			for _, x := range want {
				ws = append(ws, x.serial)
			}
			return obs.Failf("C14/"+fam+"/dispatch-count", fmt.Sprintf("handler invoked once for each of %v", ws), "invoked for %v", gs)
		}
		for i := range want {
			g, w := calls[i], want[i]
			switch {
			case g.serial != w.serial:
				return obs.Failf("C14/"+fam+"/dispatch-set", fmt.Sprintf("datagram %d dispatched", w.serial), "%d", g.serial)
			case !bytes.Equal(g.encAtCall, w.enc):
				return obs.Failf("C14/"+fam+"/message-at-invocation", "the decoding of the handler's own datagram", "differs at byte %d (datagram %d)", firstDiff(g.encAtCall, w.enc), w.serial)
			case !bytes.Equal(g.encAtEnd, w.enc):
				return obs.Failf("C14/"+fam+"/message-after-later-reads", "message independent of every other datagram", "changed at byte %d after later reads (datagram %d)", firstDiff(g.encAtEnd, w.enc), w.serial)
			case g.peerAtCall != w.peer:
				return obs.Failf("C14/"+fam+"/peer", w.peer, "%s", g.peerAtCall)
			case g.peerAtEnd != w.peer:
				return obs.Failf("C14/"+fam+"/peer-after-later-reads", w.peer, "%s", g.peerAtEnd)
			}
		}
		alive := 0
		for _, r := range c.Reads[:last] {
			if r.Kind == 0 && r.Release >= 0 {
				alive++
			}
		}
		rec.Class(fam)
		if c.CloseAt >= 0 {
			rec.Class("closed mid-sequence")
		}
		if c.CloseRace {
			rec.Class(fmt.Sprintf("close concurrent with a read (datagram consumed: %v)", consumed > c.CloseAt))
		}
		if malformedThenValid || alive >= 2 {
			rec.NonTrivial(obs.HashJSON(c), func() any {
				return map[string]any{"server": fam, "reads": len(c.Reads), "dispatched": len(want), "handlers_outliving_reads": alive, "close_at": c.CloseAt}
			})
		}
		return nil
	})

func c14Drive(c c14Case, conn *netsim.Conn, closeSrv func(), releases map[int]chan struct{}, serialOf map[int]int, mu *sync.Mutex, serveDone *bool, early *string, sockErr error) {
	synctest.Wait()
	pending := map[int][]int{} // position → serials to release after that read
	var atEnd []int
	for i, r := range c.Reads {
		serial := 1000 + i
		serialOf[i] = serial
		if r.Kind == 0 && r.Release >= 0 {
			mu.Lock()
			releases[serial] = make(chan struct{})
			mu.Unlock()
			if r.Release >= len(c.Reads) {
				atEnd = append(atEnd, serial)
			} else {
				pos := max(r.Release, i)
				pending[pos] = append(pending[pos], serial)
			}
		}
	}
	closed := false
	for i, r := range c.Reads {
		if c.CloseAt == i {
			if c.CloseRace {
				conn.Deliver(c14Bytes(c.V6, r, serialOf[i]), senderAddr(r.Sender, r.Port, c.V6))
			}
			closeSrv()
			closed = true
			synctest.Wait()
		}
		if !closed {
			conn.Deliver(c14Bytes(c.V6, r, serialOf[i]), senderAddr(r.Sender, r.Port, c.V6))
			synctest.Wait()
			if *serveDone && *early == "" {
				*early = fmt.Sprintf("Serve returned after read %d (kind %d) although the socket was still open", i, r.Kind)
			}
		}
		for _, s := range pending[i] {
			mu.Lock()
			close(releases[s])
			mu.Unlock()
		}
		synctest.Wait()
	}
	if !closed {
		if c.CloseAt >= len(c.Reads) {
			closeSrv()
		} else {
			conn.Fail(sockErr)
		}
	}
	synctest.Wait()
	for _, s := range atEnd {
		mu.Lock()
		close(releases[s])
		mu.Unlock()
	}
	synctest.Wait()
}

// c14Bytes tags a valid datagram with its serial (DHCPv4: option 224 is part of the generated packet; DHCPv6:
// the innermost message carries option 65001).
func c14Bytes(v6 bool, r c14Read, serial int) []byte {
	if r.Kind != 0 {
		return append([]byte{}, r.B...)
	}
	return c14Tag(v6, r.B, serial)
}

func c14Tag(v6 bool, b []byte, serial int) []byte {
	s := make([]byte, 4)
	binary.BigEndian.PutUint32(s, uint32(serial))
	if v6 {
		// the generated bytes end with an opaque option 65001 holding a 4-byte placeholder in the innermost message
		out := append([]byte{}, b...)
		i := bytes.LastIndex(out, []byte{0xfd, 0xe9, 0, 4})
		if i >= 0 && i+8 <= len(out) {
			copy(out[i+4:], s)
		}
		return out
	}
	out := append([]byte{}, b...)
	i := bytes.LastIndex(out, []byte{224, 4})
	if i >= 240 && i+6 <= len(out) {
		copy(out[i+2:], s)
	}
	return out
}

func genC14() *rapid.Generator[c14Case] {
	return rapid.Custom(func(t *rapid.T) c14Case {
		c := c14Case{V6: rapid.Bool().Draw(t, "v6"), CloseAt: -1, Logger: rapid.SampledFrom([]int{0, 0, 1, 2, 3}).Draw(t, "logger")}
		n := rapid.SampledFrom([]int{0, 1, 2, 3, 5, 8, 13, 30, 80, 200}).Draw(t, "n")
		// shapes: 0 mixed; 1 mostly malformed (long runs of bad datagrams); 2 every handler stays alive to the end
		shape := rapid.SampledFrom([]int{0, 0, 0, 0, 1, 2}).Draw(t, "shape")
		if shape != 0 {
			n = rapid.SampledFrom([]int{130, 160, 200}).Draw(t, "nlong")
		}
		for i := 0; i < n; i++ {
			r := c14Read{Kind: rapid.SampledFrom([]int{0, 0, 0, 0, 1, 2, 3, 3}).Draw(t, "kind"), Sender: rapid.IntRange(0, 4).Draw(t, "sender"),
				Port: rapid.SampledFrom([]int{68, 68, 67, 1068, 546, 0, 65535}).Draw(t, "port"), Release: -1}
			switch shape {
			case 1:
				if rapid.IntRange(0, 9).Draw(t, "mostlybad") != 0 {
					r.Kind = rapid.SampledFrom([]int{1, 2}).Draw(t, "badkind")
				}
			case 2:
				r.Kind = 0
			}
			switch r.Kind {
			case 0:
				if c.V6 {
					inner := []byte(genV6Wire(v6Cfg(0, 5, false)).Draw(t, "inner"))
					exact := rapid.SampledFrom([]int{0, 0, 0, 0, 0, 0, 576, 1500, 4095, 4096, 4097}).Draw(t, "exactsize")
					depth := rapid.SampledFrom([]int{0, 0, 1, 2, 3}).Draw(t, "relay")
					if exact > 0 && depth == 0 && len(inner)+12 <= exact {
						// an opaque filler option so that the datagram has exactly this many octets (the sizes of the
						// usual read buffers and their neighbours)
						fill := exact - len(inner) - 12
						inner = append(append(inner, 0xfd, 0xea, byte(fill>>8), byte(fill)), make([]byte, fill)...)
					}
					inner = append(inner, 0xfd, 0xe9, 0, 4, 0, 0, 0, 0)
					for d := depth; d > 0; d-- {
						hdr := make([]byte, 34)
						hdr[0] = byte(rapid.SampledFrom([]int{12, 13}).Draw(t, "rtype"))
						hdr[1] = byte(d)
						inner = append(append(hdr, 0, 9, byte(len(inner)>>8), byte(len(inner))), inner...)
						if rapid.Bool().Draw(t, "iid") {
							inner = append(inner, 0, 18, 0, 3, 'e', 't', 'h')
						}
					}
					r.B = inner
				} else {
					pc := gen.V4Packet(5, 300).Draw(t, "v4")
					var opts []gen.V4Opt
					for _, o := range pc.Opts {
						if o.Code != 224 {
							opts = append(opts, o)
						}
					}
					pc.Opts = append(opts, gen.V4Opt{Code: 224, Val: []byte{0, 0, 0, 0}})
					r.B = refv4.Canonical(pc.Ref())
					if exact := rapid.SampledFrom([]int{0, 0, 0, 0, 0, 0, 576, 1500, 4095, 4096, 4097}).Draw(t, "exactsize"); exact > len(r.B) {
						r.B = append(r.B, make([]byte, exact-len(r.B))...) // zero padding after End up to an exact datagram size
					}
				}
				switch rapid.IntRange(0, 3).Draw(t, "rel") {
				case 0:
					r.Release = rapid.IntRange(0, n).Draw(t, "relpos")
				case 1:
					r.Release = 1 << 30
				}
				if shape == 2 {
					r.Release = 1 << 30
				}
			case 1:
				r.B = gen.Fill(t, rapid.SampledFrom([]int{1, 3, 5, 33, 100, 239}).Draw(t, "glen"), "garbage")
				if c.V6 {
					switch rapid.IntRange(0, 4).Draw(t, "bad6") {
					case 0: // a relay message cut inside its header
						r.B = append([]byte{byte(rapid.SampledFrom([]int{12, 13}).Draw(t, "rtype")), 0}, r.B[:min(len(r.B), 30)]...)
					case 1: // a relay message whose options overrun
						r.B = append(append([]byte{12, 1}, make([]byte, 32)...), 0, 18, 0, 200, 'x')
					case 2: // a relay message whose relayed message does not decode
						r.B = append(append([]byte{12, 0}, make([]byte, 32)...), 0, 9, 0, 6, 1, 2, 3, 4, 0, 1)
					default:
						r.B = append([]byte{1, 0, 0, 0, 0, 1, 0, 200}, r.B...) // option overruns
					}
				} else if len(r.B) >= 240 {
					r.B = r.B[:239]
				}
			case 2:
				r.B = []byte{}
			case 3:
				// well-framed but unusual datagrams, and arbitrary generated ones: whether they are dispatched is
				// decided by whether they decode, nothing else (no tag: matched by content)
				if c.V6 {
					hdr := func(typ byte) []byte { h := make([]byte, 34); h[0] = typ; h[33] = byte(i); return h }
					switch rapid.IntRange(0, 6).Draw(t, "odd6") {
					case 0: // a relay message without a relay-message option
						r.B = hdr(byte(rapid.SampledFrom([]int{12, 13}).Draw(t, "rtype")))
					case 1: // … with an interface-id only
						r.B = append(hdr(12), 0, 18, 0, 3, 'e', 't', byte('0'+i%10))
					case 2: // … nested in another relay message
						in := append(hdr(13), 0, 37, 0, 5, 0, 0, 0, 9, byte(i))
						r.B = append(append(hdr(12), 0, 9, 0, byte(len(in))), in...)
					case 3: // message types the library has no name for
						r.B = []byte{byte(rapid.SampledFrom([]int{0, 14, 36, 100, 255}).Draw(t, "mtype")), 1, 2, byte(i), 0, 14, 0, 0}
					case 4: // a header alone
						r.B = []byte{byte(rapid.IntRange(1, 11).Draw(t, "mtype2")), 9, 9, byte(i)}
					default:
						r.B = []byte(genV6Wire(v6Cfg(3, 5, false)).Draw(t, "anyv6"))
					}
				} else {
					r.B = gen.V4Wire(6, 300, rapid.IntRange(0, 1).Draw(t, "mut4")).Draw(t, "anyv4")
				}
			}
			c.Reads = append(c.Reads, r)
		}
		if rapid.IntRange(0, 2).Draw(t, "close") == 0 {
			c.CloseAt = rapid.IntRange(0, n).Draw(t, "closeat")
			c.CloseRace = c.CloseAt < n && rapid.Bool().Draw(t, "closerace")
		}
		return c
	})
}

func TestC14_Rapid(t *testing.T) {
	curT = t
	c14.rapidCheck(t, genC14())
}
