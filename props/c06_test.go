package props

import (
	"bytes"
	"testing"

	"github.com/insomniacslk/dhcp/dhcpv4"
	"github.com/insomniacslk/dhcp/dhcpv6"
	"pgregory.net/rapid"

	"verif/gen"
	"verif/obs"
	"verif/ref/refv4"
	"verif/ref/refv6"
)

// C06 — decode→encode→decode is a fixpoint for DHCPv4 and DHCPv6.
//
// b →dec m1 →enc b1 →dec m2 (must succeed) →enc b2 with b2 == b1, and the
// independent reading of b1 equals the independent reading of b modulo exactly
// the normalisations the property lists.

type c06Case struct {
	V6 bool    `json:"v6"`
	B  obs.Hex `json:"bytes"`
}

func c06v4(rec *obs.Rec, b []byte) *obs.Fail {
	rx := append([]byte{}, b...)
	m1, err := dhcpv4.FromBytes(rx)
	if err != nil {
		rec.Class("v4 rejected")
		return nil
	}
	b1 := m1.ToBytes()
	// "storing a received packet": the receive buffer is reused for the next datagram before the stored packet is sent on
	for i := range rx {
		rx[i] = ^rx[i]
	}
	if later := m1.ToBytes(); !bytes.Equal(later, b1) {
		return obs.Failf("C06/v4/stored-packet-changed", "a stored packet encodes the same after its receive buffer was reused", "differs at byte %d", firstDiff(later, b1))
	}
	m2, err := dhcpv4.FromBytes(append([]byte{}, b1...))
	if err != nil {
		return obs.Failf("C06/v4/reencoded-rejected", "re-encoded packet decodes", "error %v", err)
	}
	b2 := m2.ToBytes()
	if !bytes.Equal(b1, b2) {
		return obs.Failf("C06/v4/unstable", "second encoding identical to the first", "differs at byte %d (%d vs %d bytes)", firstDiff(b1, b2), len(b1), len(b2))
	}
	r0, why0 := refv4.Decode(b)
	r1, why1 := refv4.Decode(b1)
	if why0 != refv4.OK {
		rec.Class("v4 accepted but reference rejects (C04's business)")
		return nil
	}
	if why1 != refv4.OK {
		return obs.Failf("C06/v4/reencoded-unreadable", "independent decoder reads the re-encoding", "%s", why1)
	}
	// allowed normalisations: names cut to their NUL-terminated capacity; hlen beyond 16 is clipped with the address
	n0 := *r0
	if len(n0.SName) > 63 {
		n0.SName = n0.SName[:63]
	}
	if len(n0.File) > 127 {
		n0.File = n0.File[:127]
	}
	if n0.HLen > 16 {
		n0.HLen = 16
	}
	if n0.HLen != r1.HLen {
		return obs.Failf("C06/v4/meaning/hlen", "same hardware address length", "%d vs %d", n0.HLen, r1.HLen)
	}
	if d := n0.Diff(r1); d != "" {
		return obs.Failf("C06/v4/meaning", "same meaning after re-encoding", "%s", d)
	}
	rec.Class("v4 accepted")
	if !bytes.Equal(b, b1) {
		rec.Class("v4 normalised")
		rec.NonTrivial(obs.Hash64(b), func() any {
			return map[string]any{"family": "v4", "len": len(b), "reencoded_len": len(b1), "options_area": hx(clipb(b[min(len(b), 240):]))}
		})
	}
	return nil
}

func c06v6(rec *obs.Rec, b []byte) *obs.Fail {
	cov := v6Cov()
	rx := append([]byte{}, b...)
	m1, err := dhcpv6.FromBytes(rx)
	if err != nil {
		rec.Class("v6 rejected")
		return nil
	}
	b1 := m1.ToBytes()
	// "storing a received packet": the receive buffer is reused for the next datagram before the stored message is sent on
	for i := range rx {
		rx[i] = ^rx[i]
	}
	if later := m1.ToBytes(); !bytes.Equal(later, b1) {
		return obs.Failf("C06/v6/stored-message-changed", "a stored message encodes the same after its receive buffer was reused", "differs at byte %d", firstDiff(later, b1))
	}
	// a stored message whose name values refused another input in the meantime still encodes the same
	if kept, changed := pokeNames(m1); changed == 0 && kept > 0 {
		if later := m1.ToBytes(); !bytes.Equal(later, b1) {
			return obs.Failf("C06/v6/stored-message-changed/after-refused-input", "a stored message encodes the same after its name values refused another input", "differs at byte %d", firstDiff(later, b1))
		}
	} else if changed > 0 {
		m1, _ = dhcpv6.FromBytes(append([]byte{}, b...))
	}
	m2, err := dhcpv6.FromBytes(append([]byte{}, b1...))
	if err != nil {
		return obs.Failf("C06/v6/reencoded-rejected", "re-encoded message decodes", "error %v (re-encoding %x)", err, clipb(b1))
	}
	b2 := m2.ToBytes()
	if !bytes.Equal(b1, b2) {
		sig := "C06/v6/unstable"
		if t1, v1 := refv6.DecodeMsg(b1, cov.skip, nil); v1 != refv6.Reject {
			if t2, v2 := refv6.DecodeMsg(b2, cov.skip, nil); v2 != refv6.Reject {
				if p, _ := refv6.Diff(t1, t2, true); p != "" {
					sig += "/" + sigPath(p)
				}
			}
		}
		return obs.Failf(sig, "second encoding identical to the first", "differs at byte %d: %x vs %x", firstDiff(b1, b2), clipb(b1[max(0, firstDiff(b1, b2)-8):]), clipb(b2[max(0, firstDiff(b1, b2)-8):]))
	}
	t1a, e1 := gen.FromLibMsg(m1)
	t2a, e2 := gen.FromLibMsg(m2)
	if e1 == nil && e2 == nil {
		// (modulo the normalisations the property lists — they apply to a DHCPv4 message carried inside as well: a
		// 128-octet boot file name without NUL comes back cut to 127)
		refv6.Normalize(t1a)
		refv6.Normalize(t2a)
		refv6.NormalizeEmbeddedV4(t1a)
		refv6.NormalizeEmbeddedV4(t2a)
		if p, w := refv6.Diff(t1a, t2a, false); p != "" {
			return obs.Failf("C06/v6/unequal-after-trip/"+sigPath(p), "m2 equal to m1", "%s: %s", p, w)
		}
	}
	r0, v0 := refv6.DecodeMsg(b, cov.skip, nil)
	if v0 == refv6.Reject {
		rec.Class("v6 accepted but reference rejects (C05's business)")
		return nil
	}
	if v0 == refv6.Grey {
		rec.Class("v6 grey input: fixpoint only")
		return nil
	}
	r1, v1 := refv6.DecodeMsg(b1, cov.skip, nil)
	if v1 == refv6.Reject {
		return obs.Failf("C06/v6/reencoded-unreadable", "independent decoder reads the re-encoding", "rejected: %x", clipb(b1))
	}
	refv6.Normalize(r0)
	refv6.Normalize(r1)
	refv6.NormalizeEmbeddedV4(r0)
	refv6.NormalizeEmbeddedV4(r1)
	if p, w := refv6.Diff(r0, r1, false); p != "" {
		return obs.Failf("C06/v6/meaning/"+sigPath(p), "same meaning after re-encoding", "%s: original vs re-encoded: %s", p, w)
	}
	rec.Class("v6 accepted")
	s := statsOf(r0)
	if !bytes.Equal(b, b1) {
		rec.Class("v6 normalised")
	}
	if !bytes.Equal(b, b1) || s.depth >= 2 {
		rec.NonTrivial(obs.Hash64(b), func() any {
			return map[string]any{"family": "v6", "len": len(b), "changed_by_reencoding": !bytes.Equal(b, b1), "tree": summarizeTree(r0)}
		})
	}
	return nil
}

var c06 = newChk("C06", "fixpoint",
	"accepted byte strings, canonical or not (DHCPv4: unsorted/split/padded option areas, repeated options, hlen>16, names without NUL; DHCPv6: every option type, nested relay/IA options, compressed names, duplicate ORO codes, reserved bits, and mutated messages that stay accepted): decode→encode→decode→encode must settle after one pass and the independent reading of the re-encoding must equal that of the input modulo the listed normalisations; non-trivial = re-encoding differs from the input or the input nests options; distinct by input hash",
	func(rec *obs.Rec, c c06Case) *obs.Fail {
		if c.V6 {
			return c06v6(rec, c.B)
		}
		return c06v4(rec, c.B)
	})

func genC06() *rapid.Generator[c06Case] {
	return rapid.Custom(func(t *rapid.T) c06Case {
		if rapid.IntRange(0, 2).Draw(t, "family") == 0 {
			mut := rapid.SampledFrom([]int{0, 0, 1, 2}).Draw(t, "mut")
			return c06Case{V6: false, B: gen.V4Wire(8, 700, mut).Draw(t, "v4")}
		}
		mut := rapid.SampledFrom([]int{0, 0, 1, 2}).Draw(t, "mut")
		return c06Case{V6: true, B: genV6Mutated(mut).Draw(t, "v6")}
	})
}

func TestC06_Rapid(t *testing.T) {
	recordV6Coverage(c06.rec)
	c06.rapidCheck(t, genC06())
}

// TestC06_OutOfRange: every value of the numeric fields whose range the wire does not constrain.
// numericFieldInputsV6: every value 0..255 of the one-octet numeric fields whose range the framing does not
// constrain: IA prefix length, 4RD map-rule prefix lengths and flags, 4RD non-map flags, FQDN flags, NII type.
func numericFieldInputsV6() [][]byte {
	var out [][]byte
	for v := 0; v < 256; v++ {
		pfx := append([]byte{0, 0, 0, 10, 0, 0, 0, 20, byte(v)}, bytes.Repeat([]byte{0x20}, 16)...)
		iapd := append([]byte{0, 0, 0, 1, 0, 0, 0, 2, 0, 0, 0, 3, 0, 26, 0, byte(len(pfx))}, pfx...)
		out = append(out, append([]byte{7, 1, 2, 3, 0, 25, 0, byte(len(iapd))}, iapd...))
		for _, pos := range []int{0, 1, 3} {
			mr := append([]byte{24, 64, 8, 0}, bytes.Repeat([]byte{0x11}, 20)...)
			mr[pos] = byte(v)
			frd := append([]byte{0, 98, 0, 24}, mr...)
			out = append(out, append([]byte{7, 1, 2, 3, 0, 97, 0, byte(len(frd))}, frd...))
		}
		nm := []byte{byte(v), 0x55, 0x05, 0xdc}
		frd := append([]byte{0, 99, 0, 4}, nm...)
		out = append(out, append([]byte{7, 1, 2, 3, 0, 97, 0, byte(len(frd))}, frd...))
		out = append(out, []byte{1, 1, 2, 3, 0, 39, 0, 6, byte(v), 3, 'f', 'o', 'o', 0})
		out = append(out, []byte{1, 1, 2, 3, 0, 62, 0, 3, byte(v), 2, 1})
	}
	return out
}

func TestC06_OutOfRange(t *testing.T) {
	for _, b := range numericFieldInputsV6() {
		c06.one(t, c06Case{V6: true, B: b})
	}
	for v := 0; v < 256; v++ {
		// DHCPv4: hlen, op, htype
		for _, off := range []int{0, 1, 2} {
			p := append(v4Prefix(), 53, 1, 5, 255)
			p[off] = byte(v)
			c06.one(t, c06Case{V6: false, B: p})
		}
	}
	for _, inner := range deepInners() {
		for d := 1; d <= 100; d += 3 {
			if b := deepRelay(d, inner, d%2 == 1); len(b) <= 4096 {
				c06.one(t, c06Case{V6: true, B: b})
			}
		}
	}
	c06.rec.Class("out-of-range enumeration")
}

func FuzzC06_V6Fixpoint(f *testing.F) {
	f.Add([]byte{1, 0xaa, 0xbb, 0xcc, 0, 8, 0, 2, 0, 0})
	f.Fuzz(func(t *testing.T, b []byte) {
		if len(b) > 4096 {
			return
		}
		c06.one(t, c06Case{V6: true, B: b})
	})
}

func FuzzC06_V4Fixpoint(f *testing.F) {
	f.Add(append(v4Prefix(), 53, 1, 1, 255))
	f.Fuzz(func(t *testing.T, b []byte) {
		if len(b) > 4096 {
			return
		}
		c06.one(t, c06Case{V6: false, B: b})
	})
}
