// Package reflabel is an independent reading of RFC 1035 section 3.1 (label
// format) and 4.1.4 (message compression) plus RFC 4704 section 4.2 (a trailing
// partial name). Standard library only, no code shared with the library under test.
package reflabel

import "strings"

// Class says how firmly the RFCs decide the meaning of a byte string.
type Class int

const (
	// Strict: every name is a run of labels ≤63 octets closed by the root label,
	// optionally ending in one pointer that points backward to a label boundary
	// of an earlier name; the last name may be an unterminated partial name.
	Strict Class = iota
	// Grey: the RFCs are silent or contradictory (forward pointers, pointer
	// chains, pointers into the middle of a label or to an unterminated run).
	// Reject or the natural reading.
	Grey
	// Malformed: no RFC reading exists (label overruns the buffer, pointer
	// without second octet, pointer beyond the buffer, reserved label types
	// 0x40..0xBF).
	Malformed
)

func (c Class) String() string { return [...]string{"STRICT", "GREY", "MALFORMED"}[c] }

// Decode returns the natural reading of b and its class. For Malformed the
// names are nil. Reason describes the first thing that lowered the class.
func Decode(b []byte) (names []string, class Class, reason string) {
	names, class, reasons := DecodeReasons(b)
	if len(reasons) > 0 {
		reason = reasons[0]
	}
	return names, class, reason
}

// Grey reasons.
const (
	GreyUnterminatedTarget = "pointer target runs to the end of the buffer without terminator"
	GreyChain              = "pointer chain"
	GreyForward            = "pointer that does not point backward to an earlier name"
	GreyMidLabel           = "pointer into the middle of a label or to a terminator/pointer octet"
	GreyLoop               = "pointer loop"
	GreyLongName           = "name longer than 255 octets"
)

// DecodeReasons is Decode with every reason that lowered the class.
func DecodeReasons(b []byte) (names []string, class Class, reasons []string) {
	names, _, class, reasons = decodeAll(b)
	return names, class, reasons
}

// Structure returns the names of b as lists of labels (nil when b is malformed). Unlike the dotted strings of
// Decode it distinguishes a label that contains a '.' octet from two labels: "first.last" as ONE label and
// "first","last" as TWO labels are different names on the wire (RFC 1035 section 3.1: labels are arbitrary octets).
func Structure(b []byte) [][]string {
	_, st, class, _ := decodeAll(b)
	if class == Malformed {
		return nil
	}
	return st
}

func decodeAll(b []byte) (names []string, structure [][]string, class Class, reasons []string) {
	worsen := func(c Class, why string) {
		if c > class {
			class = c
		}
		for _, r := range reasons {
			if r == why {
				return
			}
		}
		reasons = append(reasons, why)
	}
	boundaries := map[int]bool{} // offsets at which a label of an earlier, directly parsed name starts
	pos := 0
	for pos < len(b) {
		start := pos
		var labels []string
		p := pos
		jumped := false
		jumps := 0
		resume := -1
		wire := 0
		var mine []int
		terminated := false
		for {
			if p >= len(b) {
				if jumped {
					// The run a pointer leads to reaches the end of the buffer
					// without a terminator: no RFC reading exists for what
					// follows the pointer, so classification stops here.
					worsen(Grey, GreyUnterminatedTarget)
					if len(labels) > 0 {
						names = append(names, strings.Join(labels, "."))
						structure = append(structure, labels)
					}
					return names, structure, class, reasons
				}
				break // partial name (RFC 4704)
			}
			l := int(b[p])
			if l == 0 {
				terminated = true
				p++
				wire++
				break
			}
			if l&0xC0 == 0xC0 {
				if p+1 >= len(b) {
					return nil, nil, Malformed, []string{"compression pointer without second octet"}
				}
				off := (l&0x3F)<<8 | int(b[p+1])
				if off >= len(b) {
					return nil, nil, Malformed, []string{"compression pointer beyond the buffer"}
				}
				if jumped {
					worsen(Grey, GreyChain)
				} else {
					resume = p + 2
				}
				if off >= start {
					worsen(Grey, GreyForward)
				} else if !boundaries[off] {
					worsen(Grey, GreyMidLabel)
				}
				jumps++
				if jumps > 64 {
					return nil, nil, Grey, []string{GreyLoop}
				}
				jumped = true
				p = off
				continue
			}
			if l&0xC0 != 0 {
				return nil, nil, Malformed, []string{"reserved label type (length octet 0x40..0xBF)"}
			}
			if p+1+l > len(b) {
				return nil, nil, Malformed, []string{"label runs past the end of the buffer"}
			}
			if !jumped {
				mine = append(mine, p)
			}
			labels = append(labels, string(b[p+1:p+1+l]))
			wire += 1 + l
			p += 1 + l
		}
		// RFC 1035 section 3.1: "the total length of a domain name (i.e., label octets and label
		// length octets) is restricted to 255 octets or less". A partial name (RFC 4704) still lacks
		// its root octet; exactly 255 label octets without terminator is left undecided.
		total := wire
		if !terminated {
			total = wire + 1
		}
		if total > 255 {
			if !terminated && wire == 255 {
				worsen(Grey, GreyLongName)
			} else {
				return nil, nil, Malformed, []string{"name longer than 255 octets"}
			}
		}
		for _, m := range mine {
			boundaries[m] = true
		}
		if terminated || len(labels) > 0 {
			names = append(names, strings.Join(labels, "."))
			structure = append(structure, labels)
		}
		if jumped {
			pos = resume
		} else {
			pos = p
		}
	}
	return names, structure, class, reasons
}

// Encode writes names in uncompressed RFC 1035 form.
func Encode(names []string) []byte {
	var b []byte
	for _, n := range names {
		if n != "" {
			for _, l := range strings.Split(n, ".") {
				b = append(b, byte(len(l)))
				b = append(b, l...)
			}
		}
		b = append(b, 0)
	}
	return b
}
