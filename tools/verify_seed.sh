#!/bin/bash
# usage: tools/verify_seed.sh <ID> <N> <pkgdir> [patch-override]
# Confirms a seeded change in a scratch worktree of /repo HEAD (never in /repo itself):
#   demo fails with the change, the full existing suite passes with it, demo passes without it.
# On success stores /verif/seeded/<ID>-<N>/{patch.diff,<demo>,verify.log}.
ID=$1; N=$2; PKG=$3; BASE=${SEEDDIR:-/tmp/seed}; PATCH=${4:-$BASE/$ID/out/patch$N.diff}
SRC=$BASE/$ID/out
OUTN=${OUTN:-$N}
WT=/tmp/rbv_$ID_$N_$$
export GOFLAGS=-mod=mod GOPROXY=off GOSUMDB=off GOTOOLCHAIN=local
git -C /repo worktree add --detach $WT HEAD >/dev/null 2>&1 || { echo "$ID-$N: cannot create worktree"; exit 3; }
cleanup() { git -C /repo worktree remove --force $WT >/dev/null 2>&1; rm -rf $WT; }
trap cleanup EXIT
cd $WT
DEMO=$(ls $SRC/demo${N}* | head -1)
if [ -d "$DEMO" ]; then echo "$ID-$N: demo is a directory (program) - handle manually"; exit 3; fi
OUT=/verif/seeded/$ID-$OUTN; mkdir -p $OUT; LOG=$OUT/verify.log; : > $LOG
if ! git apply --check $PATCH 2>>$LOG; then echo "$ID-$N: PATCH DOES NOT APPLY to HEAD (rebase by hand)"; exit 4; fi
TESTS=$(grep -oE "^func (Test[A-Za-z0-9_]+)" $DEMO | awk '{print $2}' | paste -sd'|')
# 1. demo without patch
cp $DEMO $PKG/zz_seed_demo_test.go
if go test -vet=off -count=1 -run "^($TESTS)\$" ./$PKG/ >>$LOG 2>&1; then echo "demo passes without patch" >>$LOG; else echo "$ID-$N: DEMO FAILS WITHOUT PATCH (on HEAD)"; exit 5; fi
# 2. demo with patch
git apply $PATCH
if go test -vet=off -count=1 -run "^($TESTS)\$" ./$PKG/ >>$LOG 2>&1; then echo "$ID-$N: DEMO PASSES WITH PATCH"; exit 6; else echo "demo fails with patch" >>$LOG; fi
# 3. suite with patch (without the demo)
rm $PKG/zz_seed_demo_test.go
suite() { go build ./... >>$LOG 2>&1 && go test -vet=off -count=1 ./... >>$LOG 2>&1; }
# the repository's nclient6 tests are flaky under load ("panic: connection refused" in their own handler): retry once
if suite || { echo "suite failed once, retrying" >>$LOG; suite; }; then echo "suite passes with patch" >>$LOG; else echo "$ID-$N: SUITE FAILS WITH PATCH"; exit 7; fi
git checkout -- go.mod go.sum 2>/dev/null
git add -A . >/dev/null 2>&1; git diff --cached > $OUT/patch.diff
cp $DEMO $OUT/
cp $SRC/notes$N.md $OUT/notes.md 2>/dev/null
echo "$ID-$N: CONFIRMED (pkg $PKG, tests $TESTS)"
