package props

import (
	"context"
	"fmt"
	"sync"
	"testing"
	"time"

	"pgregory.net/rapid"

	"verif/netsim"
	"verif/obs"
)

// C11, real-time contention mode: the states the virtual-time engine cannot hold (a goroutine queued on the
// client's lock is not durably blocked in a bubble). Call A is paused either inside its matcher or inside the
// connection's write (registered, not yet transmitted); same-id datagrams fill its buffer until the receive loop
// blocks holding the client's lock; a bystander call on another id runs into its budget meanwhile; Close (one, or
// two concurrent ones with the connection's Close held open) may be issued during the pause. Sleeps only steer the
// interleaving. Asserted, all interleaving-independent: once A is released every call and every Close returns
// (60 s of real time, against milliseconds), nothing panics, no call returns (nil, nil), and — without Close —
// the id of a call that has returned is not refused as "in use".

type c11Race struct {
	V6        bool `json:"v6"`
	Pause     int  `json:"pause"`     // 0 inside A's matcher, 1 inside the connection's write of A's request
	Extra     int  `json:"extra"`     // same-id datagrams delivered during the pause (buffer cap 5)
	Bystander int  `json:"bystander"` // 0 none, 1 in flight before the burst, 2 started after the burst
	HoldMs    int  `json:"hold_ms"`   // pause kept for this long after the burst (bystander budget: 30 ms)
	Close     int  `json:"close"`     // 0 none, 1 Close during the pause, 2 two concurrent Closes with the connection's Close held open, 3 Close right after the release
	GapUs     int  `json:"gap_us"`
}

var c11race = newChk("C11", "contention",
	"real-time scenarios with real lock contention on one client: call A paused inside its matcher or inside the connection's write (registered, request not yet out), 0..9 same-id datagrams (buffer cap 5: the receive loop blocks holding the client's lock when >5), a bystander call on another id whose 30 ms budget ends during the pause or which queues on the lock, and no / one / two concurrent Close calls (the connection's own Close held open to pin the window) during the pause or right after the release; asserted under every interleaving: after the release every call and every Close returns, nothing panics, no (nil, nil), a second Close does not fail, and without Close the id of every returned call is accepted again at once; non-trivial = overfull buffer and (bystander or Close); distinct by parameter tuple",
	func(rec *obs.Rec, c c11Race) *obs.Fail {
		var ad cliAdapter = &v4Adapter{}
		if c.V6 {
			ad = &v6Adapter{}
		}
		name := ad.name()
		conn := netsim.New(4096)
		release := make(chan struct{})
		entered := make(chan struct{})
		var once sync.Once
		pauseHere := func() { once.Do(func() { close(entered); <-release }) }
		if c.Pause == 1 {
			conn.OnWrite = func(netsim.Write) { pauseHere() }
		}
		closeEntered := make(chan struct{}, 4)
		if c.Close == 2 {
			conn.CloseGate = make(chan struct{})
			conn.OnClose = func() { closeEntered <- struct{}{} }
		}
		if err := ad.start(conn, 30*time.Millisecond, 1, 0); err != nil {
			return obs.Failf("C11/harness", "client starts", "%v", err)
		}
		want := wantTypes(c.V6)[0]
		type res struct {
			isNil    bool
			err      error
			panicked string
		}
		run := func(xid int, match func(serial, typ int) bool, noMatcher bool) <-chan res {
			ch := make(chan res, 1)
			go func() {
				var r res
				defer func() {
					if p := recover(); p != nil {
						r.panicked = fmt.Sprint(p)
					}
					ch <- r
				}()
				req, _ := ad.request(xid, 0)
				_, _, r.isNil, _, r.err = ad.call(context.Background(), req, match, noMatcher)
			}()
			return ch
		}
		runClose := func() <-chan res {
			ch := make(chan res, 1)
			go func() {
				var r res
				defer func() {
					if p := recover(); p != nil {
						r.panicked = fmt.Sprint(p)
					}
					ch <- r
				}()
				r.err = ad.close()
			}()
			return ch
		}
		wait := func(who string, ch <-chan res) (res, *obs.Fail) {
			select {
			case r := <-ch:
				if r.panicked != "" {
					return r, obs.Failf("C11/"+name+"/contention/panic", who+" returns normally", "panic: %s", r.panicked)
				}
				return r, nil
			case <-time.After(60 * time.Second):
				return res{}, obs.Failf("C11/"+name+"/contention/stuck", who+" returns once call A is released", "still running 60 s after the release")
			}
		}
		gap := func() { time.Sleep(time.Duration(c.GapUs) * time.Microsecond) }

		aCh := run(1, func(serial, typ int) bool {
			if c.Pause == 0 {
				pauseHere()
			}
			return typ == want
		}, false)
		if c.Pause == 0 {
			deadline := time.Now().Add(2 * time.Second)
			for len(conn.Writes()) == 0 && time.Now().Before(deadline) {
				time.Sleep(50 * time.Microsecond)
			}
			conn.Deliver(ad.datagram(dgGood, 1, want, 1, 0, 0, 0), ad.dest())
		}
		select {
		case <-entered:
		case <-time.After(5 * time.Second):
			once.Do(func() {})
			close(release)
			ad.close()
			rec.Class("pause not reached (inconclusive iteration)")
			return nil
		}
		var bCh <-chan res
		if c.Bystander == 1 {
			bCh = run(2, nil, true)
			// its request must be out (registered) before the burst
			deadline := time.Now().Add(2 * time.Second)
			need := 2
			if c.Pause == 1 {
				need = 2 // A's write is recorded before the hook pauses it
			}
			for len(conn.Writes()) < need && time.Now().Before(deadline) {
				time.Sleep(50 * time.Microsecond)
			}
		}
		for i := 0; i < c.Extra; i++ {
			conn.Deliver(ad.datagram(dgGood, 1, want, 100+i, 0, 0, 0), ad.dest())
		}
		for w := 0; conn.Pending() > 0 && w < 400; w++ {
			time.Sleep(50 * time.Microsecond)
		}
		gap()
		if c.Bystander == 2 {
			bCh = run(2, nil, true)
		}
		var closes []<-chan res
		switch c.Close {
		case 1:
			closes = append(closes, runClose())
		case 2:
			closes = append(closes, runClose())
			select {
			case <-closeEntered: // the first Close is inside the connection's Close
			case <-time.After(5 * time.Second):
			}
			closes = append(closes, runClose())
			gap()
			close(conn.CloseGate)
		}
		time.Sleep(time.Duration(c.HoldMs) * time.Millisecond)
		close(release)
		if c.Close == 3 {
			gap()
			closes = append(closes, runClose())
		}
		a, f := wait("call A", aCh)
		if f != nil {
			return f
		}
		if a.isNil && a.err == nil {
			return obs.Failf("C11/"+name+"/contention/nil-nil", "call A returns a response or an error", "(nil, nil)")
		}
		if bCh != nil {
			b, f := wait("the bystander call", bCh)
			if f != nil {
				return f
			}
			if b.isNil && b.err == nil {
				return obs.Failf("C11/"+name+"/contention/nil-nil", "the bystander returns a response or an error", "(nil, nil)")
			}
			if c.Close == 0 && ad.classify(b.err) == "xid-in-use" {
				return obs.Failf("C11/"+name+"/contention/fresh-id-refused", "a call on an id nobody uses is accepted", "%v", b.err)
			}
		}
		for i, ch := range closes {
			r, f := wait(fmt.Sprintf("Close #%d", i+1), ch)
			if f != nil {
				return f
			}
			if r.err != nil {
				return obs.Failf("C11/"+name+"/contention/close-error", "Close returns nil on a connection whose Close succeeds", "Close #%d: %v", i+1, r.err)
			}
		}
		if c.Close == 0 {
			// ids of returned calls are reusable at once
			for _, xid := range []int{1, 2} {
				if xid == 2 && bCh == nil {
					continue
				}
				r, f := wait(fmt.Sprintf("the call reusing id %d", xid), run(xid, nil, true))
				if f != nil {
					return f
				}
				if ad.classify(r.err) == "xid-in-use" {
					return obs.Failf("C11/"+name+"/contention/id-not-reusable", fmt.Sprintf("id %d is reusable once its call has returned", xid), "%v", r.err)
				}
			}
			if _, f := wait("the final Close", runClose()); f != nil {
				return f
			}
		}
		rec.Class(name)
		rec.Class(fmt.Sprintf("pause=%d close=%d bystander=%d", c.Pause, c.Close, c.Bystander))
		if c.Extra > 5 && (c.Bystander != 0 || c.Close != 0) {
			rec.NonTrivial(obs.HashJSON(c), func() any { return c })
		}
		return nil
	})

func genC11Race() *rapid.Generator[c11Race] {
	return rapid.Custom(func(rt *rapid.T) c11Race {
		return c11Race{V6: rapid.Bool().Draw(rt, "v6"), Pause: rapid.IntRange(0, 1).Draw(rt, "pause"), Extra: rapid.SampledFrom([]int{0, 3, 5, 6, 6, 7, 9}).Draw(rt, "extra"),
			Bystander: rapid.IntRange(0, 2).Draw(rt, "bystander"), HoldMs: rapid.SampledFrom([]int{0, 5, 45, 45}).Draw(rt, "hold"),
			Close: rapid.SampledFrom([]int{0, 0, 1, 2, 3}).Draw(rt, "close"), GapUs: rapid.SampledFrom([]int{0, 50, 500, 3000}).Draw(rt, "gap")}
	})
}

func TestC11_ContentionRapid(t *testing.T) { c11race.rapidCheck(t, genC11Race()) }

// TestC11_ContentionGrid: the whole grid of discrete parameters at the two burst sizes that matter.
func TestC11_ContentionGrid(t *testing.T) {
	for _, v6 := range []bool{false, true} {
		for pause := 0; pause <= 1; pause++ {
			for _, extra := range []int{4, 7} {
				for by := 0; by <= 2; by++ {
					for cl := 0; cl <= 3; cl++ {
						c11race.one(t, c11Race{V6: v6, Pause: pause, Extra: extra, Bystander: by, HoldMs: 45, Close: cl, GapUs: 200})
					}
				}
			}
		}
	}
}
