import json,subprocess,re
rs=[json.loads(l) for l in open('/verif/mutants/auto/results-s1.jsonl')]
sv=[r for r in rs if r['status'] in('survived','inconclusive')]
OUT=[ # (file regex, func regex) -> category A reason
 (r'netboot/netboot.go', r'RequestNetboot|ConversationToNetconf|GetNetConf', 'A: netboot request loop / netconf extraction result (only "no crash" is claimed for these helpers)'),
 (r'.*', r'(Long)?String$|Summary|FlagsToString|ToString', 'A: text of String/LongString/Summary (no property fixes the wording)'),
 (r'.*', r'IPv4AddrsForInterface|GetExternalIPv4Addrs|NewInformForInterface|NewDiscoveryForInterface|NewRawUDPConn|NewIPv6UDPConn|^New$|^new$|NewWithContext|GenerateTransactionID', 'A: OS interface / socket glue and random-source error paths'),
 (r'.*', r'With(Debug|Summary|Short)?Logger|WithLogDroppedPackets|WithLogger|WithDebugLogger|WithUnicast|WithBroadcastAddr|withBufferCap|WithHWAddr|WithTimeout|WithRetry|InterfaceAddr|RemoteAddr', 'A: client/server configuration options and getters not named by a property'),
 (r'dhcpv6/ztpv6/mellanox.go|dhcpv6/option_nii.go|dhcpv6/types.go|dhcpv4/types.go', r'^$', 'A: enumeration constants used for printing'),
 (r'dhcpv6/duid.go', r'Equal$|DUIDType', 'A: DUID.Equal / type names (no property covers them)'),
 (r'iana/', r'Contains', 'A: Archs.Contains (no property covers it)'),
 (r'dhcpv6/dhcpv6message.go', r'GetTime|NewSolicit', 'A: wall-clock helper / argument validation of a client-side constructor'),
]
def realdiff(r):
    out=subprocess.run(['/verif/tools/automut_show.sh',r['file'],str(r['site'])],capture_output=True,text=True).stdout
    return ' | '.join(l for l in out.splitlines() if l.startswith(('+','-')))[:200]
rows=[]
for r in sv:
    cat=None
    for fre,fnre,why in OUT:
        if re.search(fre,r['file']) and re.search(fnre,r['func'] or ''):
            cat=why;break
    rows.append((r,cat))
for r,cat in rows:
    if cat is None:
        print(r['file'],r['site'],'L%d'%r['line'],r['op'],r['func'],'|',realdiff(r))
print(sum(1 for _,c in rows if c), 'auto-classified of', len(rows))

MAN={ # (file, site) -> category
 ('dhcpv4/dhcpv4.go',294):'B: equivalent (falls through to FromBytes(nil), which fails and yields the same nil)',
 ('dhcpv4/nclient4/client.go',6):'A: default constant (properties speak of the configured values)',
 ('dhcpv6/server6/server.go',2):'C: gap closed — a handler invoked with a nil message is now recorded as an unexpected dispatch (was a harness crash: inconclusive)',
 ('dhcpv6/dhcpv6relay.go',17):'B: equivalent (checked type assertion on a nil interface yields the same zero result)',
 ('dhcpv4/dhcpv4.go',2):'B: unused constant',
 ('dhcpv4/nclient4/client.go',41):'B: equivalent (any non-zero value marks the client closed)',
 ('dhcpv6/dhcpv6message.go',118):'A: convenience accessor MessageOptions.NTPServers (no property covers the v6 convenience accessors)',
 ('dhcpv4/nclient4/client.go',151):'B: resource hygiene only (timer stopped early); no observable difference',
 ('dhcpv6/nclient6/client.go',51):'A: log text for dropped packets',
 ('dhcpv6/option_bootfileparam.go',10):'A: parameter of 65,536 octets or more — not representable, outside the encodable domain',
 ('dhcpv4/options.go',38):'B: equivalent (End sorts last anyway and Marshal skips it)',
 ('dhcpv4/option_strings.go',6):'B: equivalent (a lone trailing octet is rejected by FinError either way)',
 ('dhcpv6/dhcpv6relay.go',25):'B: equivalent inside the domain (differs only for net.IP values that are neither 4 nor 16 bytes)',
 ('dhcpv4/nclient4/ipv4.go',46):'B: equivalent (the checksum field is written again after encode)',
 ('dhcpv6/dhcpv6.go',5):'C: gap closed — C05 now checks that MessageFromBytes / RelayMessageFromBytes accept exactly what FromBytes accepts for their message types',
 ('dhcpv4/nclient4/conn_unix.go',18):'C: gap closed — raw connection created without a bound address (nil) in C18 and C03',
 ('dhcpv4/dhcpv4.go',106):'B: equivalent (16 is clipped to 16)',
 ('dhcpv6/nclient6/client.go',53):'A: log text for dropped packets',
 ('dhcpv4/options.go',46):'B: equivalent (Marshal skips the End key)',
 ('dhcpv6/nclient6/client.go',12):'A: default constant',
 ('dhcpv4/nclient4/ipv4.go',11):'B: equivalent (isValid has rejected short frames before)',
 ('rfc1035label/label.go',14):'A: NewLabels helper, not used by the decoders and not named by a property',
 ('dhcpv4/nclient4/conn_unix.go',44):'B: byte count returned together with io.EOF; callers ignore it on error',
 ('dhcpv4/options.go',97):'A: text of Summary with a vendor decoder',
 ('dhcpv6/option_4rd.go',3):'B: equivalent (nil of the checked assertion)',
 ('dhcpv6/server6/server.go',13):'A: socket set-up error path',
 ('dhcpv4/nclient4/client.go',3):'A: default constant',
 ('dhcpv6/nclient6/client.go',47):'A: log text for dropped packets',
 ('dhcpv6/dhcpv6relay.go',1):'B: capacity hint only',
 ('dhcpv6/dhcpv6relay.go',0):'B: capacity hint only',
 ('dhcpv6/nclient6/client.go',78):'B: unreachable error path (NewSolicit cannot fail for the client hardware address)',
 ('dhcpv4/option_vivc.go',1):'B: equivalent (a 4-octet remainder is rejected either way)',
 ('dhcpv4/nclient4/client.go',111):'A: Client.Inform (not part of the exchange rules C13 states)',
 ('dhcpv6/dhcpv6message.go',101):'B: equivalent (checked assertion on nil)',
 ('dhcpv4/option_subnet_mask.go',0):'A: masks longer than 4 bytes are outside the DHCPv4 domain',
 ('dhcpv6/server6/server.go',23):'A: socket set-up error path',
 ('dhcpv6/dhcpv6message.go',173):'A: elapsed-time option of the REQUEST builder (C16 states ids, IAs and transaction id only)',
 ('dhcpv4/nclient4/lease.go',1):'B: unreachable error path',
 ('dhcpv6/nclient6/client.go',41):'A: log line on read errors',
 ('dhcpv4/dhcpv4.go',4):'B: unused constant', ('dhcpv4/dhcpv4.go',5):'B: unused constant',
 ('dhcpv4/nclient4/ipv4.go',14):'B: equivalent (any negative value means "not IPv4")',
 ('dhcpv6/nclient6/client.go',37):'B: a 1501-byte read buffer reads every datagram of up to 1500 bytes identically',
 ('dhcpv4/dhcpv4.go',159):'C: gap closed — C04 now checks IsBroadcast/IsUnicast against the top bit of the flags field for every reserved-bit pattern',
 ('dhcpv6/nclient6/client.go',100):'B: equivalent (nobody receives from the channel after the call has returned)',
 ('dhcpv4/ztpv4/ztp.go',7):'C: gap closed — vendor dictionary now holds "prefix + exactly k fields" for every k and separator (three-field Arista string panics)',
 ('dhcpv4/dhcpv4.go',0):'B: capacity hint only',
 ('dhcpv4/nclient4/ipv4.go',3):'C: gap closed — C18 reads into a buffer exactly as long as the payload behind a 60-byte IP header',
 ('dhcpv4/nclient4/lease.go',7):'A: log line after a successful release',
 ('dhcpv4/modifiers.go',16):'B: equivalent (BootRequest is already the default opcode of a new packet)',
 ('dhcpv6/dhcpv6message.go',58):'B: equivalent (checked assertion on nil)',
 ('dhcpv4/nclient4/ipv4.go',12):'B: equivalent (isValid has rejected short frames before)',
 ('dhcpv4/nclient4/ipv4.go',13):'B: equivalent (isValid has rejected short frames before)',
 ('dhcpv4/nclient4/ipv4.go',135):'B: capacity hint only',
 ('dhcpv6/dhcpv6message.go',37):'B: equivalent (checked assertion on nil)', ('dhcpv6/dhcpv6message.go',48):'B: equivalent (checked assertion on nil)',
 ('dhcpv4/nclient4/conn_unix.go',33):'C: gap closed — consistent IP packets too short to hold a UDP header (C18 frame kind 11, C03)',
 ('dhcpv6/dhcpv6message.go',76):'B: equivalent (checked assertion on nil)',
 ('dhcpv4/nclient4/client.go',37):'C: gap closed — C11 requires that the receive loop\'s read has returned by the time Close returns',
 ('dhcpv4/nclient4/lease.go',0):'A: nil lease argument (outside the domain)',
 ('dhcpv6/option_iaaddress.go',1):'B: equivalent (checked assertion on nil)',
 ('dhcpv4/nclient4/client.go',95):'B: unreachable error path',
}

# second part of the campaign (sites 701..2650 of the sample order): verdicts by file and site
MAN2=[
 ('dhcpv4/options.go',[20],'B: equivalent (append copies the instance; clipping the source slice changes nothing)'),
 ('dhcpv4/option_autoconfigure.go',[10],'A: typed rendering of option 116 in Summary (the AutoConfigure accessor reads the byte itself)'),
 ('dhcpv4/server4/server.go',[5],'A: size of the read buffer beyond any Ethernet-size datagram (datagrams over 1,500 octets are judged by what the server read)'),
 ('dhcpv6/server6/server.go',[4],'A: size of the read buffer beyond any Ethernet-size datagram (datagrams over 1,500 octets are judged by what the server read)'),
 ('dhcpv6/dhcpv6.go',[42],'B: equivalent (the loop below returns a non-relay message unchanged as well)'),
 ('dhcpv6/dhcpv6.go',[66],'C: gap closed — C16 now requires EncapsulateRelay to refuse every message type other than RELAY-FORW / RELAY-REPL'),
 ('dhcpv6/dhcpv6relay.go',[88],'B: unreachable error path (the builder always passes RELAY-REPL)'),
 ('dhcpv6/option_vendorclass.go',[5],'A: content of an option object after it is used as a decoder a second time (stated for label sets only, C19)'),
 ('dhcpv6/dhcpv6message.go',[165,197],'C: gap closed — C16 now passes nil to every builder (was: to the ADVERTISE builder only)'),
 ('dhcpv6/option_bootfileparam.go',[9],'C: gap closed — C02 now round-trips single values of 255 … 60,000 octets (boot file parameters, class data, interface id, URL, unknown option)'),
 ('dhcpv4/types.go',[5],'C: gap closed — killed by C15 and C10 (the campaign had mapped types.go to C17/C20/C03 only); C13 now writes reply opcodes by value'),
 ('dhcpv6/option_4rd.go',[51,54],'C: gap closed — killed by the numeric-field sweep added to C05 in round 5'),
 ('dhcpv4/dhcpv4.go',[171],'C: gap closed — killed by C07 (a packet whose option map was never made, added in round 6)'),
 ('dhcpv4/nclient4/client.go',[133,146],'C: gap closed — killed by C11/write-failure (injected transmission failure, added after the first part of the campaign)'),
 ('dhcpv6/nclient6/client.go',[91,104],'C: gap closed — killed by C11/write-failure'),
 ('dhcpv4/dhcpv4.go',[1,3],'B: capacity hint / unused constant'),
 ('dhcpv4/dhcpv4.go',[8,9,10],'A: RandomTimeout, a default of the random-source helper'),
 ('dhcpv4/dhcpv4.go',[99],'B: equivalent (a truncated header leaves a zero cookie, rejected by the next test)'),
 ('dhcpv4/dhcpv4.go',[104],'B: equivalent (16 is clipped to 16)'),
 ('dhcpv4/dhcpv4.go',[216],'B: equivalent (padding a 300-byte packet to 300 bytes adds nothing)'),
 ('dhcpv4/dhcpv4.go',[219,225,232,237,243,249,255,264,271,282],'B: equivalent (falls through to FromBytes(nil), which fails and yields the same result)'),
 ('dhcpv4/nclient4/client.go',[0,1,4,5,7,9,10],'A: default constants (properties speak of the configured values)'),
 ('dhcpv4/nclient4/client.go',[43,44,47,54,55],'A: only decides whether a read error is logged while closing'),
 ('dhcpv4/nclient4/client.go',[68,142],'B: a channel nobody receives from any more is left open (no observable difference)'),
 ('dhcpv4/nclient4/client.go',[105,112,113,114,115],'A: wording of returned errors'),
 ('dhcpv4/nclient4/client.go',[106,107,108,109,110],'A: Client.Inform (not part of the exchange rules C13 states)'),
 ('dhcpv4/nclient4/client.go',[116],'B: unreachable error path'),
 ('dhcpv4/nclient4/client.go',[121],'A: Lease.CreationTime (wall clock)'),
 ('dhcpv4/nclient4/conn_unix.go',[29],'B: equivalent (the payload is cut by the IP total length either way)'),
 ('dhcpv4/nclient4/conn_unix.go',[65],'B: byte count returned together with an error'),
 ('dhcpv4/nclient4/ipv4.go',[2],'B: a larger scratch buffer'),
 ('dhcpv4/nclient4/ipv4.go',[8,10,15],'B: equivalent (isValid has rejected short frames before)'),
 ('dhcpv4/nclient4/ipv4.go',[31,32,33,34,35,36,37,40,42,43],'B: equivalent (TOS, ID, flags and fragment offset of emitted frames are always zero)'),
 ('dhcpv4/nclient4/ipv4.go',[66,71],'B: equivalent (a packet without room for a UDP header is skipped later anyway)'),
 ('dhcpv4/nclient4/ipv4.go',[88],'B: equivalent (one more zero octet in the odd-length tail)'),
 ('dhcpv4/nclient4/ipv4.go',[93],'B: equivalent (the checksum field is written again after encode)'),
 ('dhcpv4/nclient4/ipv4.go',[138,139],'A: TTL value (the property asks for a well-formed header, not for 64)'),
 ('dhcpv4/nclient4/lease.go',[8],'A: log line after a release'),
 ('dhcpv4/nclient4/lease.go',[9],'A: nil lease argument (outside the domain)'),
 ('dhcpv4/nclient4/lease.go',[10],'B: unreachable error path'),
 ('dhcpv4/option_autoconfigure.go',[12],'A: GetByte helper on an absent option (no accessor of C17 uses it that way)'),
 ('dhcpv4/option_duration.go',[0],'A: MaxLeaseTime constant (unused by the codec)'),
 ('dhcpv4/option_ip.go',[1],'B: equivalent (falls through to FromBytes(nil))'),
 ('dhcpv4/option_ips.go',[1],'B: capacity hint only'),
 ('dhcpv4/option_ips.go',[10],'B: equivalent (falls through to FromBytes(nil))'),
 ('dhcpv4/option_maximum_dhcp_message_size.go',[2,6,9],'B: value returned together with an error / fallthrough to FromBytes(nil)'),
 ('dhcpv4/option_parameter_request_list.go',[7],'B: equivalent comparison for sorting'),
 ('dhcpv4/option_routes.go',[23],'B: equivalent (a lone trailing octet is rejected either way)'),
 ('dhcpv4/option_subnet_mask.go',[2],'B: equivalent (a 4-byte mask cut to 4 bytes)'),
 ('dhcpv4/options.go',[51],'B: equivalent (Marshal skips the End key)'),
 ('dhcpv4/options.go',[72],'B: equivalent (255 clipped to 255)'),
 ('dhcpv4/options.go',[96,98],'A: text of Summary (typed rendering of options 124 and 121)'),
 ('dhcpv4/server4/server.go',[0],'A: Serve closing its connection when it returns (no property states it)'),
 ('dhcpv4/server4/server.go',[3],'A: peer address that is not a UDP address (a PacketConn the servers are not documented for)'),
 ('dhcpv4/server4/server.go',[4],'B: a 4,097-byte read buffer reads every datagram of up to 4,096 bytes identically'),
 ('dhcpv4/ztpv4/parse_circuitid.go',[1,2],'A: result of the ZTP extractor (only "no crash" is claimed for the helpers)'),
 ('dhcpv4/ztpv4/ztp.go',[102,105],'A: result of the ZTP extractor (only "no crash" is claimed for the helpers)'),
 ('dhcpv6/dhcpv6.go',[25],'B: equivalent (an empty input is rejected by the header parse that follows)'),
 ('dhcpv6/dhcpv6.go',[32],'A: random-source error path'),
 ('dhcpv6/dhcpv6.go',[77],'B: equivalent (zero is the default hop count)'),
 ('dhcpv6/dhcpv6.go',[82,83,84],'B: value returned together with an error'),
 ('dhcpv6/dhcpv6message.go',[0,1],'B: unused constant'),
 ('dhcpv6/dhcpv6message.go',[31,32,43,53,63,68,84,91,96],'B: equivalent (checked assertion on nil)'),
 ('dhcpv6/dhcpv6message.go',[90,110,113],'A: convenience accessors ElapsedTime / NTPServers (no property covers the v6 convenience accessors)'),
 ('dhcpv6/dhcpv6message.go',[167],'B: unreachable error path'),
 ('dhcpv6/dhcpv6message.go',[176,187],'A: option request / elapsed time of the REQUEST builder (C16 states ids, IAs and transaction id only)'),
 ('dhcpv6/dhcpv6relay.go',[2,7,12],'B: equivalent (checked assertion on nil)'),
 ('dhcpv6/dhcpv6relay.go',[23],'A: hardware type returned for an absent client link-layer address option'),
 ('dhcpv6/modifiers.go',[1,4,37],'A: individual DHCPv6 modifiers (WithNetboot, WithArchType, WithIAPD) — no property states their effect'),
 ('dhcpv6/nclient6/client.go',[9],'A: nil connection argument'),
 ('dhcpv6/nclient6/client.go',[13,14,15,16,17],'A: default constants'),
 ('dhcpv6/nclient6/client.go',[27],'B: equivalent (any non-zero value marks the client closed)'),
 ('dhcpv6/nclient6/client.go',[42,46,48,49,50,52,57],'A: what is logged about read errors and dropped packets'),
 ('dhcpv6/nclient6/client.go',[61],'A: WithConn option (the harness passes the connection to NewWithConn)'),
 ('dhcpv6/nclient6/client.go',[72],'B: unreachable error path'),
 ('dhcpv6/nclient6/client.go',[109],'B: resource hygiene only (timer stopped early)'),
 ('dhcpv6/option_4rd.go',[2],'B: equivalent (checked assertion on nil)'),
 ('dhcpv6/option_4rd.go',[18],'B: equivalent (1 >> 0 == 1 << 0)'),
 ('dhcpv6/option_elapsedtime.go',[1],'A: rounding of durations that are not multiples of 10 ms (not representable; outside the encodable domain)'),
 ('dhcpv6/option_iaaddress.go',[0],'B: equivalent (checked assertion on nil)'),
 ('dhcpv6/option_iapd.go',[7,8],'B: equivalent (checked assertion on nil)'),
 ('dhcpv6/option_iaprefix.go',[0,1],'B: equivalent (checked assertion on nil)'),
 ('dhcpv6/option_iaprefix.go',[29],'B: equivalent at the level the properties speak of (a ::/0 prefix object instead of none: same fields read, same bytes written)'),
 ('dhcpv6/option_nontemporaryaddress.go',[9,10],'B: equivalent (checked assertion on nil)'),
 ('dhcpv6/options.go',[74],'B: equivalent (the loop does nothing for an empty input)'),
 ('dhcpv6/options.go',[79,80],'B: capacity hint only'),
 ('dhcpv6/server6/server.go',[0],'A: Serve closing its connection when it returns (no property states it)'),
 ('dhcpv6/server6/server.go',[3],'B: a 4,097-byte read buffer reads every datagram of up to 4,096 bytes identically'),
 ('dhcpv6/server6/server.go',[17,18,19,21,22,24,25,29,30,31,32,33,35,36,37,38,39],'A: socket set-up in NewServer (interface look-up, multicast groups)'),
 ('dhcpv6/ztpv6/parse_remote_id.go',[0,27],'A: result of the ZTP extractor (only "no crash" is claimed for the helpers)'),
 ('iana/archtype.go',[9,14,15],'B: capacity hint only'),
 ('netboot/netboot.go',[0],'A: netboot request loop'),
 ('rfc1035label/label.go',[16],'B: equivalent (original is assigned again two lines below whenever data is non-nil; a nil input leaves an object whose names and bytes still agree)'),
]
for f_,sites_,v_ in MAN2:
    for n_ in sites_:
        MAN.setdefault((f_,n_),v_)
# mutants the current checks kill (re-run with tools/automut_recheck.py after the checks were extended): mutants/auto/recheck.jsonl
import os
if os.path.exists('/verif/mutants/auto/recheck.jsonl'):
    for l_ in open('/verif/mutants/auto/recheck.jsonl'):
        r_=json.loads(l_)
        if r_['status']=='killed':
            MAN.setdefault((r_['file'],r_['site']),'C: gap closed — killed by the current %s check (%s)' % (r_['by'], (r_.get('sig') or [''])[0].split('sig=')[-1][:60]))

out=[]
cnt={}
for r,cat in rows:
    if cat is None:
        cat=MAN.get((r['file'],r['site']))
    assert cat, (r['file'],r['site'])
    cnt[cat[0]]=cnt.get(cat[0],0)+1
    out.append((r['file'],r['line'],r['site'],r['op'],r['func'],realdiff(r),cat))
out.sort()
with open('/verif/mutants/auto/TRIAGE.md','w') as f:
    import collections
    st=collections.Counter(r['status'] for r in rs)
    f.write('# Triage of the mutants that survived the automatic campaign (tools/automut.py --sample 2650 --seed 1: every site)\n\n')
    f.write("%d mutants (every mutation site of the 59 anchored source files): %d did not build, %d are caught by the repository's own test suite, %d were killed by a mapped check at campaign time, %d reached the end of their check list (%d survived, %d inconclusive). The campaign ran against the checks as they were when each mutant's turn came (the first 700 before round 4, the rest during rounds 6 and 7); survivors inside a property were re-run against the current checks (tools/automut_recheck.py, mutants/auto/recheck.jsonl).\n" % (len(rs), st['stillborn'], st['suite-killed'], st['killed'], st['survived']+st['inconclusive'], st['survived'], st['inconclusive']))
    f.write('Categories: **A** outside every listed property (%d), **B** equivalent mutant (%d), **C** a real gap of the harness, closed since (%d; each re-run and killed).\n\n' % (cnt.get('A',0),cnt.get('B',0),cnt.get('C',0)))
    f.write('| file:line | site | operator | function | change | verdict |\n|---|---|---|---|---|---|\n')
    for fl,ln,site,op,fn,d,cat in out:
        f.write('| %s:%d | %d | %s | %s | `%s` | %s |\n' % (fl,ln,site,op,fn or '-',d.replace('|','¦').replace('`',"'")[:110],cat))
print(cnt)
