package props

import (
	"fmt"
	"testing"

	"pgregory.net/rapid"

	"verif/obs"
)

// ---- generators -------------------------------------------------------------------

// callStart puts call i on a tick ≡ 2i (mod 16) at or after "after".
func callStart(i, after int) int {
	s := after - after%16 + 2*(i%8)
	for s < after {
		s += 16
	}
	return s
}

// oddTick returns a tick ≡ 1 (mod 4) at or after x (events), dl ≡ 3 (mod 4) for context deadlines.
func evTick(x int) int {
	for x%4 != 1 {
		x++
	}
	return x
}
func dlTick(x int) int {
	for x%4 != 3 {
		x++
	}
	return x
}

func wantTypes(v6 bool) []int {
	if v6 {
		return []int{2, 7}
	}
	return []int{2, 5, 6}
}

// genCliGeneral: 1..8 calls with distinct and colliding ids, arbitrary traffic, cancellations, Close.
func genCliGeneral(v6 bool) *rapid.Generator[cliScenario] {
	return rapid.Custom(func(t *rapid.T) cliScenario {
		sc := cliScenario{V6: v6, T: 16 * rapid.SampledFrom([]int{1, 2, 4, 8}).Draw(t, "T16"), Tries: rapid.SampledFrom([]int{1, 2, 3, 3, 2, 1, 0, -1}).Draw(t, "tries"), CloseAt: -1}
		types := wantTypes(v6)
		ncalls := rapid.IntRange(1, 8).Draw(t, "ncalls")
		horizon := 0
		for i := 0; i < ncalls; i++ {
			after := rapid.IntRange(0, sc.T*4).Draw(t, "after")
			c := cliCall{Start: callStart(i, after), Xid: rapid.IntRange(0, 2).Draw(t, "xid"), Variant: rapid.IntRange(0, 3).Draw(t, "variant"),
				Matcher: rapid.SampledFrom([]int{0, 1, 1, 2, 3}).Draw(t, "matcher"), Want: rapid.SampledFrom(types).Draw(t, "want"), K: rapid.IntRange(1, 4).Draw(t, "k"), CancelAt: -1, Deadline: -1}
			switch rapid.IntRange(0, 5).Draw(t, "end") {
			case 0:
				c.CancelAt = evTick(c.Start + rapid.IntRange(1, sc.T*5).Draw(t, "cancel"))
			case 1:
				c.Deadline = dlTick(c.Start+rapid.IntRange(1, sc.T*5).Draw(t, "deadline")) - c.Start
			}
			sc.Calls = append(sc.Calls, c)
			if e := c.Start + sc.T*8; e > horizon {
				horizon = e
			}
		}
		nd := rapid.IntRange(0, 24).Draw(t, "ndel")
		serial := 1
		for i := 0; i < nd; i++ {
			d := cliDeliver{At: evTick(rapid.IntRange(0, horizon).Draw(t, "at")), Xid: rapid.IntRange(0, 2).Draw(t, "dxid"), Typ: rapid.SampledFrom(types).Draw(t, "typ"), Serial: serial}
			serial++
			d.Kind = rapid.SampledFrom([]int{dgGood, dgGood, dgGood, dgGood, dgGood, dgGood, dgWrongXid, dgWrongHW, dgWrongOp, dgRelayType, dgGarbage, dgEmpty, dgHWEmpty, dgHWPrefix, dgHWExtended, dgHWLong}).Draw(t, "kind")
			d.Op = rapid.SampledFrom([]uint8{1, 3, 0, 255, 2}).Draw(t, "op")
			d.HType = rapid.SampledFrom([]uint8{0, 0, 0, 1, 6, 32, 255}).Draw(t, "htype")
			d.PadTo = rapid.SampledFrom([]int{0, 0, 0, 0, 576, 1499, 1500}).Draw(t, "padto")
			burst := 1
			if rapid.IntRange(0, 4).Draw(t, "burst") == 0 {
				burst = rapid.IntRange(2, 8).Draw(t, "nburst")
			}
			for k := 0; k < burst; k++ {
				dd := d
				if k > 0 && rapid.Bool().Draw(t, "dup") {
					// an exact duplicate of the datagram (same serial)
				} else {
					dd.Serial = serial
					serial++
				}
				sc.Dels = append(sc.Dels, dd)
			}
		}
		if rapid.IntRange(0, 3).Draw(t, "close") == 0 {
			sc.CloseAt = evTick(rapid.IntRange(0, horizon).Draw(t, "closeat"))
			sc.DoubleClose = rapid.Bool().Draw(t, "double")
		}
		sc.LogDropped = rapid.IntRange(0, 3).Draw(t, "logdropped") == 0
		sc.Dest = rapid.SampledFrom([]int{0, 0, 1, 2, 3}).Draw(t, "dest")
		return sc
	})
}

// genCliBlocking: one call whose matcher blocks on its first candidate while 1..12 datagrams arrive
// (per-transaction buffer partly full, exactly full, overfull), then is released.
func genCliBlocking(v6 bool) *rapid.Generator[cliScenario] {
	return rapid.Custom(func(t *rapid.T) cliScenario {
		// ticks of 1 ms, 20 ms or 1 s: the matcher is held for milliseconds up to a quarter of an hour (virtual time)
		sc := cliScenario{V6: v6, T: 16 * 64, Tries: rapid.IntRange(1, 2).Draw(t, "tries"), CloseAt: -1, TickNs: rapid.SampledFrom([]int64{1e6, 1e6, 20e6, 1e9}).Draw(t, "tickns")}
		types := wantTypes(v6)
		c := cliCall{Start: 0, Xid: rapid.IntRange(0, 2).Draw(t, "xid"), Matcher: 4, Want: rapid.SampledFrom(types).Draw(t, "want"), CancelAt: -1, Deadline: -1}
		n := rapid.IntRange(1, 12).Draw(t, "n")
		// the position of the first datagram the matcher accepts is drawn, so that "the 7th" (the one the receive
		// loop holds while the buffer of 5 is full) and later positions are as likely as the first
		firstOK := rapid.IntRange(0, n).Draw(t, "firstok") // n: none
		other := types[0]
		if other == c.Want {
			other = types[1]
		}
		at := 1
		for i := 0; i < n; i++ {
			d := cliDeliver{At: evTick(at), Xid: c.Xid, Typ: other, Serial: i + 1, Kind: dgGood}
			if i == firstOK || (i > firstOK && rapid.Bool().Draw(t, "later")) {
				d.Typ = c.Want
			}
			if i != firstOK && rapid.IntRange(0, 5).Draw(t, "noise") == 0 {
				d.Kind = rapid.SampledFrom([]int{dgWrongXid, dgGarbage, dgWrongHW, dgHWEmpty}).Draw(t, "nk")
			}
			sc.Dels = append(sc.Dels, d)
			at = d.At + rapid.SampledFrom([]int{0, 4, 8, 40}).Draw(t, "gap")
		}
		c.ReleaseAt = evTick(at + rapid.SampledFrom([]int{4, 120, 400, 900}).Draw(t, "hold"))
		if c.ReleaseAt >= sc.T {
			c.ReleaseAt = evTick(sc.T - 8)
		}
		sc.Calls = []cliCall{c}
		return sc
	})
}

// genCliBlockedAcross: one call whose matcher is held on its first candidate PAST one or more try deadlines while
// further datagrams of its transaction queue up behind it (most of them ones the matcher will reject), then
// released. Checked by cmpCliLoose.
func genCliBlockedAcross(v6 bool) *rapid.Generator[cliScenario] {
	return rapid.Custom(func(t *rapid.T) cliScenario {
		sc := cliScenario{V6: v6, T: 16 * rapid.SampledFrom([]int{4, 8}).Draw(t, "T16"), Tries: rapid.IntRange(1, 3).Draw(t, "tries"), CloseAt: -1}
		types := wantTypes(v6)
		c := cliCall{Start: 0, Xid: rapid.IntRange(0, 2).Draw(t, "xid"), Matcher: 4, Want: types[0], CancelAt: -1, Deadline: -1}
		n := rapid.IntRange(1, 9).Draw(t, "n")
		firstOK := rapid.SampledFrom([]int{n, n, n, 0, 1, 5, 6, 7}).Draw(t, "firstok")
		at := 1
		for i := 0; i < n; i++ {
			d := cliDeliver{At: evTick(at), Xid: c.Xid, Typ: types[1], Serial: i + 1, Kind: dgGood}
			if i == firstOK {
				d.Typ = c.Want
			}
			sc.Dels = append(sc.Dels, d)
			at = d.At + rapid.SampledFrom([]int{0, 4, 8}).Draw(t, "gap")
		}
		k := rapid.IntRange(1, 3).Draw(t, "deadlines")
		c.ReleaseAt = evTick(max(at, sc.T*((1<<uint(k))-1)) + rapid.IntRange(1, sc.T-8).Draw(t, "past"))
		sc.Calls = []cliCall{c}
		return sc
	})
}

func cliNonTrivial(sc cliScenario) (bool, []string) {
	var cls []string
	// ≥2 calls pending simultaneously, a datagram rejected by a matcher, a full buffer, a collision
	overlap, collision := false, false
	for i, a := range sc.Calls {
		for j, b := range sc.Calls {
			if i < j && b.Start < a.Start+sc.T {
				overlap = true
				if a.Xid == b.Xid {
					collision = true
				}
			}
		}
	}
	rejecting := false
	for _, c := range sc.Calls {
		if c.Matcher == 2 || c.Matcher == 3 || c.Matcher == 1 {
			rejecting = true
		}
		if c.Matcher == 4 {
			cls = append(cls, "blocking matcher")
			if len(sc.Dels) >= 6 {
				cls = append(cls, "buffer full")
			}
			if len(sc.Dels) >= 7 {
				cls = append(cls, "buffer overfull")
			}
		}
	}
	if sc.blockedAcrossDeadline() {
		cls = append(cls, "matcher held past a try deadline")
	}
	if sc.Dest != 0 {
		cls = append(cls, "other destination (port / broadcast / zoned address)")
	}
	if overlap {
		cls = append(cls, "overlapping calls")
	}
	if collision {
		cls = append(cls, "xid collision")
	}
	if sc.CloseAt >= 0 {
		cls = append(cls, "close during scenario")
	}
	return overlap || (rejecting && len(sc.Dels) > 0) || len(cls) > 0, cls
}

func cliSummary(sc cliScenario) any {
	return map[string]any{"client": map[bool]string{false: "nclient4", true: "nclient6"}[sc.V6], "timeout_ticks": sc.T, "tries": sc.Tries, "calls": sc.Calls, "deliveries": len(sc.Dels), "close_at": sc.CloseAt}
}

func cliCheck(prop, name, rule string, asp int) *chk[cliScenario] {
	var ck *chk[cliScenario]
	ck = newChk(prop, name, rule, func(rec *obs.Rec, sc cliScenario) *obs.Fail {
		got := runCliScenario(curT, sc)
		if f := cmpCli(prop, sc, got, asp); f != nil {
			return f
		}
		nt, cls := cliNonTrivial(sc)
		for _, c := range cls {
			rec.Class(c)
		}
		rec.Class(map[bool]string{false: "nclient4", true: "nclient6"}[sc.V6])
		if nt || asp == aspWrites {
			rec.NonTrivial(obs.HashJSON(sc), func() any { return cliSummary(sc) })
		}
		return nil
	})
	return ck
}

// curT is the outer *testing.T hosting the bubbles of the running test.
var curT *testing.T

// ---- C10 -----------------------------------------------------------------------------

var c10 = cliCheck("C10", "virtual-time",
	"stateful scenarios on one client under virtual time (testing/synctest): 1..8 send-and-read calls with distinct and colliding transaction ids and nil / type / reject-all / accept-k-th / blocking matchers; streams of datagrams mixing matching, non-matching, wrong-id, wrong-hardware-address, wrong-opcode (incl. opcodes other than 1 and 2), relay-typed, undecodable, empty and exactly duplicated ones, in bursts of 1..8 (per-transaction buffer partly full, full and overfull); cancellations and Close. A reference model predicts, per call, the exact datagram returned (by serial: the first one in arrival order that passes the documented filters and the matcher while the call is registered) or the error class (refused colliding id, no response, context); never (nil, nil); non-trivial = overlapping calls, a matcher that rejects, a full buffer or a collision; distinct by scenario hash",
	aspIdentity)

func TestC10_Rapid(t *testing.T) {
	curT = t
	c10.rapidCheck(t, rapid.Custom(func(rt *rapid.T) cliScenario {
		v6 := rapid.Bool().Draw(rt, "v6")
		switch rapid.IntRange(0, 7).Draw(rt, "class") {
		case 0, 1:
			return genCliBlocking(v6).Draw(rt, "blocking")
		case 2:
			return genCliBlockedAcross(v6).Draw(rt, "blocked-across")
		}
		return genCliGeneral(v6).Draw(rt, "general")
	}))
}

// ---- C11 -----------------------------------------------------------------------------

var c11 = cliCheck("C11", "virtual-time",
	"the same scenario space under virtual time, asserting completion: every call returns at exactly the instant the model predicts — the arrival instant of the first acceptable response, the instant its context ends (cancellation or deadline), the instant of Close, or timeout×(2^tries−1) whatever traffic arrives (streams of same-id datagrams the matcher rejects included); a returned call's transaction id is immediately reusable; Close returns at once, twice is harmless, and the bubble must drain (no goroutine left behind); non-trivial = a rejected same-id datagram, or Close/cancel while a call is pending; distinct by scenario hash",
	aspTiming)

// genCliStreams: endless-looking streams of rejected same-id datagrams at several periods relative to the timeout.
func genCliStreams(v6 bool) *rapid.Generator[cliScenario] {
	return rapid.Custom(func(t *rapid.T) cliScenario {
		sc := cliScenario{V6: v6, T: 16 * rapid.SampledFrom([]int{4, 8, 16}).Draw(t, "T16"), Tries: rapid.IntRange(1, 3).Draw(t, "tries"), CloseAt: -1}
		types := wantTypes(v6)
		c := cliCall{Start: 0, Xid: 1, Matcher: rapid.SampledFrom([]int{1, 2, 3}).Draw(t, "matcher"), Want: types[0], K: rapid.IntRange(2, 40).Draw(t, "k"), CancelAt: -1, Deadline: -1}
		period := rapid.SampledFrom([]int{4, sc.T / 8, sc.T / 4, sc.T/2 + 4, sc.T - 4}).Draw(t, "period")
		if period < 4 {
			period = 4
		}
		end := sc.T*((1<<uint(sc.Tries))-1) + sc.T
		serial := 1
		for at := 1; at < end; at += period {
			typ := types[len(types)-1]
			if rapid.IntRange(0, 30).Draw(t, "good") == 0 {
				typ = types[0]
			}
			sc.Dels = append(sc.Dels, cliDeliver{At: evTick(at), Xid: 1, Typ: typ, Serial: serial, Kind: dgGood})
			serial++
		}
		sc.Calls = []cliCall{c}
		// a second call reusing the id right after the first one is expected to have returned
		if rapid.Bool().Draw(t, "reuse") {
			sc.Calls = append(sc.Calls, cliCall{Start: callStart(1, end+16), Xid: 1, Matcher: 0, CancelAt: -1, Deadline: -1})
		}
		return sc
	})
}

func TestC11_Rapid(t *testing.T) {
	curT = t
	c11.rapidCheck(t, rapid.Custom(func(rt *rapid.T) cliScenario {
		v6 := rapid.Bool().Draw(rt, "v6")
		switch rapid.IntRange(0, 5).Draw(rt, "class") {
		case 0, 1:
			return genCliStreams(v6).Draw(rt, "streams")
		case 2:
			return genCliBlockedAcross(v6).Draw(rt, "blocked-across")
		case 3:
			return genCliBlocking(v6).Draw(rt, "blocking")
		}
		return genCliGeneral(v6).Draw(rt, "general")
	}))
}

// ---- C12 -----------------------------------------------------------------------------

var c12 = cliCheck("C12", "schedule",
	"one call per scenario under virtual time over the grid T ∈ {1 ms, 10 ms, 250 ms, 1 s, 5 s} × tries ∈ {−1..6} × request shapes (with and without elapsed-time / large options) × (no response | an accepted response in try k at 1 tick after the send, mid-try, or 1 tick before the deadline); the write log must hold exactly the predicted transmissions: count, instants 0, T, 3T, 7T, …, bytes equal to the request's encoding taken before the call, the requested destination, nothing after the call returned, and the no-response error at T×(2^n−1); unlimited tries are observed for 11 tries (2047 T) before cancellation; non-trivial = every case; distinct by scenario hash",
	aspWrites|aspTiming)

func c12Scenario(v6 bool, tickNs int64, tries, variant, respTry, respPos int) cliScenario {
	sc := cliScenario{V6: v6, TickNs: tickNs, T: 16, Tries: tries, CloseAt: -1, Dest: (variant + tries + 4) % 4}
	c := cliCall{Start: 0, Xid: variant % 3, Variant: variant, Matcher: 1, Want: wantTypes(v6)[0], CancelAt: -1, Deadline: -1}
	sc.Calls = []cliCall{c}
	if respTry >= 0 {
		s := sc.T * ((1 << uint(respTry)) - 1)
		l := sc.T * (1 << uint(respTry))
		at := s + 1
		switch respPos {
		case 1:
			at = evTick(s + l/2)
		case 2:
			at = s + l - 3 // ≡ 1 mod 4, the last event slot before the deadline
		}
		sc.Dels = []cliDeliver{
			{At: at, Kind: dgGood, Xid: c.Xid, Typ: wantTypes(v6)[1], Serial: 1}, // rejected by the matcher: same instant, earlier in order
			{At: at, Kind: dgGood, Xid: c.Xid, Typ: c.Want, Serial: 2},
		}
	}
	return sc
}

func TestC12_Grid(t *testing.T) {
	curT = t
	for _, v6 := range []bool{false, true} {
		for _, T := range []int64{1e6, 10e6, 250e6, 1e9, 5e9} {
			for tries := -1; tries <= 6; tries++ {
				for variant := 0; variant < 4; variant++ {
					c12.one(t, c12Scenario(v6, T/16, tries, variant, -1, 0))
					n := tries
					if n < 0 {
						n = 5
					}
					for k := 0; k < n; k++ {
						for pos := 0; pos < 3; pos++ {
							if variant != 1 && pos != 1 {
								continue
							}
							c12.one(t, c12Scenario(v6, T/16, tries, variant, k, pos))
						}
					}
				}
			}
		}
	}
	c12.rec.Class("full grid")
}

func TestC12_Rapid(t *testing.T) {
	curT = t
	c12.rapidCheck(t, rapid.Custom(func(rt *rapid.T) cliScenario {
		tries := rapid.IntRange(-1, 6).Draw(rt, "tries")
		n := tries
		if n < 0 {
			n = 5
		}
		k := -1
		if n > 0 && rapid.Bool().Draw(rt, "respond") {
			k = rapid.IntRange(0, n-1).Draw(rt, "try")
		}
		T := rapid.SampledFrom([]int64{1e6, 10e6, 250e6, 1e9, 5e9, 48e6}).Draw(rt, "T")
		sc := c12Scenario(rapid.Bool().Draw(rt, "v6"), T/16, tries, rapid.IntRange(0, 3).Draw(rt, "variant"), k, rapid.IntRange(0, 2).Draw(rt, "pos"))
		sc.Dest = rapid.IntRange(0, 3).Draw(rt, "dest")
		if tries < 0 && rapid.Bool().Draw(rt, "cancel") {
			sc.Calls[0].CancelAt = evTick(rapid.IntRange(1, 16*40).Draw(rt, "cancelat"))
		}
		return sc
	}))
}

var _ = fmt.Sprint
