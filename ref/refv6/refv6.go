// Package refv6 is an independent DHCPv6 wire codec written from RFC 8415 and
// the per-option RFCs (3646, 4649, 4704, 5908, 5970, 6939, 7341, 7600, 8357,
// 6355). Plain index arithmetic, standard library only; it shares no code with
// the library under test. It yields a verdict (accept / reject / grey) and a
// value tree.
package refv6

import (
	"bytes"
	"fmt"

	"verif/ref/reflabel"
	"verif/ref/refv4"
)

type Verdict int

const (
	Accept Verdict = iota
	Grey           // the RFCs do not decide; natural reading returned
	Reject
)

func (v Verdict) String() string { return [...]string{"accept", "grey", "reject"}[v] }

func worse(a, b Verdict) Verdict {
	if b > a {
		return b
	}
	return a
}

// Msg is a DHCPv6 message or relay message.
type Msg struct {
	Relay bool
	Type  uint8
	Xid   [3]byte
	Hop   uint8
	Link  [16]byte
	Peer  [16]byte
	Opts  []Opt
}

// Opt is one option. Typ names its layout; fields appear in wire order:
// N numeric fields, B byte-string fields, Names decoded domain names,
// Sub nested options, Msg a nested message, V4 an embedded DHCPv4 packet.
type Opt struct {
	Code  uint16
	Typ   string
	N     []uint64
	B     [][]byte
	Names []string
	Sub   []Opt
	Msg   *Msg
	V4    *refv4.Packet
}

// Known lists the option codes this reference knows a layout for.
var Known = map[uint16]string{
	1: "duid", 2: "duid", 3: "iana", 4: "iata", 5: "iaaddr", 6: "oro", 8: "elapsed", 9: "relaymsg", 13: "status",
	15: "userclass", 16: "vendorclass", 17: "vendoropts", 18: "ifaceid", 23: "dns", 24: "domains", 25: "iapd", 26: "iaprefix",
	32: "irt", 37: "remoteid", 39: "fqdn", 56: "ntp", 59: "bootfileurl", 60: "bootfileparam", 61: "archs", 62: "nii",
	79: "clientlla", 87: "dhcpv4msg", 88: "dhcp4o6server", 97: "4rd", 98: "4rdmap", 99: "4rdnonmap", 135: "relayport",
}

// Space selects the option space a list of options is parsed in.
type Space int

const (
	Top    Space = iota // the message level and every nested standard option space
	Vendor              // vendor-specific options: opaque sub-options
	NTP                 // NTP server sub-options (RFC 5908)
)

// Reason carries the first reason of a reject / grey verdict (for reporting).
type Reason struct{ Why string }

func (r *Reason) set(format string, a ...any) {
	if r != nil && r.Why == "" {
		r.Why = fmt.Sprintf(format, a...)
	}
}

// DecodeMsg reads a message (relay types 12 and 13 have the 34-byte header).
// uncovered lists codes to be treated as opaque even though a layout is known
// (used when the tree under test does not parse that type).
func DecodeMsg(b []byte, uncovered map[uint16]bool, why *Reason) (*Msg, Verdict) {
	if len(b) < 1 {
		why.set("empty input")
		return nil, Reject
	}
	m := &Msg{Type: b[0]}
	var rest []byte
	if b[0] == 12 || b[0] == 13 {
		if len(b) < 34 {
			why.set("relay header incomplete (%d bytes)", len(b))
			return nil, Reject
		}
		m.Relay = true
		m.Hop = b[1]
		copy(m.Link[:], b[2:18])
		copy(m.Peer[:], b[18:34])
		rest = b[34:]
	} else {
		if len(b) < 4 {
			why.set("message header incomplete (%d bytes)", len(b))
			return nil, Reject
		}
		copy(m.Xid[:], b[1:4])
		rest = b[4:]
	}
	opts, v := DecodeOpts(rest, Top, uncovered, why)
	if v == Reject {
		return nil, Reject
	}
	m.Opts = opts
	return m, v
}

// DecodeOpts reads a list of options that must tile b exactly.
func DecodeOpts(b []byte, sp Space, uncovered map[uint16]bool, why *Reason) ([]Opt, Verdict) {
	var out []Opt
	v := Accept
	i := 0
	for i < len(b) {
		if i+4 > len(b) {
			why.set("trailing %d bytes cannot hold an option header", len(b)-i)
			return nil, Reject
		}
		code := uint16(b[i])<<8 | uint16(b[i+1])
		l := int(b[i+2])<<8 | int(b[i+3])
		if i+4+l > len(b) {
			why.set("option %d (length %d) overruns its container (%d bytes left)", code, l, len(b)-i-4)
			return nil, Reject
		}
		o, ov := DecodeOpt(code, b[i+4:i+4+l], sp, uncovered, why)
		if ov == Reject {
			return nil, Reject
		}
		v = worse(v, ov)
		out = append(out, o)
		i += 4 + l
	}
	return out, v
}

func be16(b []byte) uint64 { return uint64(b[0])<<8 | uint64(b[1]) }
func be32(b []byte) uint64 {
	return uint64(b[0])<<24 | uint64(b[1])<<16 | uint64(b[2])<<8 | uint64(b[3])
}
func cp(b []byte) []byte { return append([]byte{}, b...) }

func items16(p []byte) ([][]byte, bool) {
	var items [][]byte
	i := 0
	for i < len(p) {
		if i+2 > len(p) {
			return nil, false
		}
		l := int(p[i])<<8 | int(p[i+1])
		if i+2+l > len(p) {
			return nil, false
		}
		items = append(items, cp(p[i+2:i+2+l]))
		i += 2 + l
	}
	return items, true
}

func labels(p []byte, why *Reason) ([]string, Verdict) {
	names, class, reasons := reflabel.DecodeReasons(p)
	switch class {
	case reflabel.Malformed:
		why.set("domain name: %v", reasons)
		return nil, Reject
	case reflabel.Grey:
		why.set("domain name (grey): %v", reasons)
		return names, Grey
	}
	return names, Accept
}

// DecodeOpt reads one option payload.
func DecodeOpt(code uint16, p []byte, sp Space, uncovered map[uint16]bool, why *Reason) (Opt, Verdict) {
	o := Opt{Code: code, Typ: "opaque"}
	bad := func(format string, a ...any) (Opt, Verdict) {
		why.set("option %d: %s", code, fmt.Sprintf(format, a...))
		return o, Reject
	}
	switch sp {
	case Vendor:
		o.B = [][]byte{cp(p)}
		return o, Accept
	case NTP:
		switch code {
		case 1, 2:
			o.Typ = map[uint16]string{1: "ntpaddr", 2: "ntpmcast"}[code]
			if len(p) != 16 {
				return bad("NTP address sub-option must be 16 bytes, is %d", len(p))
			}
			o.B = [][]byte{cp(p)}
			return o, Accept
		case 3:
			o.Typ = "ntpfqdn"
			names, v := labels(p, why)
			if v == Reject {
				return o, Reject
			}
			o.Names, o.B = names, [][]byte{cp(p)}
			return o, v
		}
		o.B = [][]byte{cp(p)}
		return o, Accept
	}
	typ, known := Known[code]
	if !known || uncovered[code] {
		o.B = [][]byte{cp(p)}
		return o, Accept
	}
	o.Typ = typ
	v := Accept
	sub := func(rest []byte, s Space) bool {
		so, sv := DecodeOpts(rest, s, uncovered, why)
		if sv == Reject {
			return false
		}
		o.Sub = so
		v = worse(v, sv)
		return true
	}
	switch typ {
	case "duid":
		if len(p) < 2 {
			return bad("DUID shorter than its type field")
		}
		t := be16(p)
		d := p[2:]
		o.N = []uint64{t}
		switch t {
		case 1:
			if len(d) < 6 {
				return bad("DUID-LLT shorter than hwtype+time")
			}
			o.N = append(o.N, be16(d), be32(d[2:]))
			o.B = [][]byte{cp(d[6:])}
		case 2:
			if len(d) < 4 {
				return bad("DUID-EN shorter than the enterprise number")
			}
			o.N = append(o.N, be32(d))
			o.B = [][]byte{cp(d[4:])}
		case 3:
			if len(d) < 2 {
				return bad("DUID-LL shorter than hwtype")
			}
			o.N = append(o.N, be16(d))
			o.B = [][]byte{cp(d[2:])}
		case 4:
			if len(d) != 16 {
				return bad("DUID-UUID must carry exactly 16 bytes, has %d", len(d))
			}
			o.B = [][]byte{cp(d)}
		default:
			o.B = [][]byte{cp(d)}
		}
	case "iana", "iapd":
		if len(p) < 12 {
			return bad("IA shorter than IAID+T1+T2")
		}
		o.B = [][]byte{cp(p[:4])}
		o.N = []uint64{be32(p[4:]), be32(p[8:])}
		if !sub(p[12:], Top) {
			return o, Reject
		}
	case "iata":
		if len(p) < 4 {
			return bad("IA_TA shorter than IAID")
		}
		o.B = [][]byte{cp(p[:4])}
		if !sub(p[4:], Top) {
			return o, Reject
		}
	case "iaaddr":
		if len(p) < 24 {
			return bad("IA address shorter than 24 bytes")
		}
		o.B = [][]byte{cp(p[:16])}
		o.N = []uint64{be32(p[16:]), be32(p[20:])}
		if !sub(p[24:], Top) {
			return o, Reject
		}
	case "iaprefix":
		if len(p) < 25 {
			return bad("IA prefix shorter than 25 bytes")
		}
		o.N = []uint64{be32(p), be32(p[4:]), uint64(p[8])}
		o.B = [][]byte{cp(p[9:25])}
		if p[8] > 128 {
			return bad("prefix length %d > 128", p[8])
		}
		if !sub(p[25:], Top) {
			return o, Reject
		}
	case "oro", "archs":
		if len(p)%2 != 0 {
			return bad("odd length %d", len(p))
		}
		if typ == "archs" && len(p) == 0 {
			return bad("empty architecture list")
		}
		for i := 0; i < len(p); i += 2 {
			o.N = append(o.N, be16(p[i:]))
		}
	case "elapsed", "relayport":
		if len(p) != 2 {
			return bad("must be 2 bytes, is %d", len(p))
		}
		o.N = []uint64{be16(p)}
	case "irt":
		if len(p) != 4 {
			return bad("must be 4 bytes, is %d", len(p))
		}
		o.N = []uint64{be32(p)}
	case "relaymsg":
		m, mv := DecodeMsg(p, uncovered, why)
		if mv == Reject {
			return o, Reject
		}
		o.Msg = m
		v = worse(v, mv)
	case "status":
		if len(p) < 2 {
			return bad("status code shorter than 2 bytes")
		}
		o.N = []uint64{be16(p)}
		o.B = [][]byte{cp(p[2:])}
	case "userclass":
		if len(p) == 0 {
			return bad("empty user class option")
		}
		it, ok := items16(p)
		if !ok {
			return bad("user class items do not tile the option")
		}
		o.B = it
	case "vendorclass":
		if len(p) < 4 {
			return bad("vendor class shorter than the enterprise number")
		}
		o.N = []uint64{be32(p)}
		it, ok := items16(p[4:])
		if !ok {
			return bad("vendor class items do not tile the option")
		}
		if len(it) == 0 {
			return bad("vendor class without data")
		}
		o.B = it
	case "vendoropts":
		if len(p) < 4 {
			return bad("vendor options shorter than the enterprise number")
		}
		o.N = []uint64{be32(p)}
		if !sub(p[4:], Vendor) {
			return o, Reject
		}
	case "ifaceid", "bootfileurl":
		o.B = [][]byte{cp(p)}
	case "dns", "dhcp4o6server":
		if len(p)%16 != 0 {
			return bad("length %d is not a multiple of 16", len(p))
		}
		for i := 0; i < len(p); i += 16 {
			o.B = append(o.B, cp(p[i:i+16]))
		}
		if typ == "dns" && len(p) == 0 {
			v = worse(v, Grey) // RFC 3646 gives no meaning to an empty list
			why.set("option 23: empty DNS server list (grey)")
		}
	case "domains":
		names, lv := labels(p, why)
		if lv == Reject {
			return o, Reject
		}
		o.Names, o.B = names, [][]byte{cp(p)}
		v = worse(v, lv)
	case "fqdn":
		if len(p) < 1 {
			return bad("FQDN option without flags octet")
		}
		o.N = []uint64{uint64(p[0])}
		names, lv := labels(p[1:], why)
		if lv == Reject {
			return o, Reject
		}
		o.Names, o.B = names, [][]byte{cp(p[1:])}
		v = worse(v, lv)
	case "remoteid":
		if len(p) < 4 {
			return bad("remote-id shorter than the enterprise number")
		}
		o.N = []uint64{be32(p)}
		o.B = [][]byte{cp(p[4:])}
	case "ntp":
		if !sub(p, NTP) {
			return o, Reject
		}
	case "bootfileparam":
		it, ok := items16(p)
		if !ok {
			return bad("boot file parameters do not tile the option")
		}
		o.B = it
	case "nii":
		if len(p) != 3 {
			return bad("must be 3 bytes, is %d", len(p))
		}
		o.N = []uint64{uint64(p[0]), uint64(p[1]), uint64(p[2])}
	case "clientlla":
		if len(p) < 2 {
			return bad("client link-layer address shorter than the type field")
		}
		o.N = []uint64{be16(p)}
		o.B = [][]byte{cp(p[2:])}
	case "dhcpv4msg":
		pk, r := refv4.Decode(p)
		if r != refv4.OK {
			return bad("embedded DHCPv4 message: %s", r)
		}
		o.V4 = pk
	case "4rd":
		if !sub(p, Top) {
			return o, Reject
		}
	case "4rdmap":
		if len(p) != 24 {
			return bad("must be 24 bytes, is %d", len(p))
		}
		o.N = []uint64{uint64(p[0]), uint64(p[1]), uint64(p[2]), uint64(p[3])}
		o.B = [][]byte{cp(p[4:8]), cp(p[8:24])}
		if p[0] > 32 || p[1] > 128 {
			return bad("prefix length out of range (%d/%d)", p[0], p[1])
		}
	case "4rdnonmap":
		if len(p) != 4 {
			return bad("must be 4 bytes, is %d", len(p))
		}
		o.N = []uint64{uint64(p[0]), uint64(p[1]), be16(p[2:])}
	}
	return o, v
}

// LenOffsets walks b leniently (never fails) and returns the offsets of every
// 2-byte length field it can find at any nesting level: option lengths of the
// top-level list, of the lists nested in IA_NA/IA_TA/IA_PD/IA address/IA
// prefix/vendor-opts/NTP/4RD options and in encapsulated relay messages, and
// the item lengths of user-class, vendor-class and boot-file-parameter lists.
func LenOffsets(b []byte) []int {
	var out []int
	var walkMsg func(base int, p []byte)
	var walkOpts func(base int, p []byte, sp Space)
	items := func(base int, p []byte) {
		for i := 0; i+2 <= len(p); {
			out = append(out, base+i)
			i += 2 + (int(p[i])<<8 | int(p[i+1]))
		}
	}
	walkOpts = func(base int, p []byte, sp Space) {
		for i := 0; i+4 <= len(p); {
			code := uint16(p[i])<<8 | uint16(p[i+1])
			l := int(p[i+2])<<8 | int(p[i+3])
			out = append(out, base+i+2)
			end := i + 4 + l
			if end > len(p) {
				end = len(p)
			}
			body := p[i+4 : end]
			bo := base + i + 4
			if sp == Top {
				skip := -1
				switch Known[code] {
				case "iana", "iapd":
					skip = 12
				case "iata":
					skip = 4
				case "iaaddr":
					skip = 24
				case "iaprefix":
					skip = 25
				case "4rd":
					skip = 0
				}
				switch {
				case skip >= 0 && len(body) >= skip:
					walkOpts(bo+skip, body[skip:], Top)
				case Known[code] == "vendoropts" && len(body) >= 4:
					walkOpts(bo+4, body[4:], Vendor)
				case Known[code] == "ntp":
					walkOpts(bo, body, NTP)
				case Known[code] == "relaymsg":
					walkMsg(bo, body)
				case Known[code] == "userclass" || Known[code] == "bootfileparam":
					items(bo, body)
				case Known[code] == "vendorclass" && len(body) >= 4:
					items(bo+4, body[4:])
				}
			}
			i += 4 + l
		}
	}
	walkMsg = func(base int, p []byte) {
		if len(p) == 0 {
			return
		}
		h := 4
		if p[0] == 12 || p[0] == 13 {
			h = 34
		}
		if len(p) >= h {
			walkOpts(base+h, p[h:], Top)
		}
	}
	walkMsg(0, b)
	return out
}

// LenPaths is LenOffsets with context: for every length field it returns the offsets of the length fields of all
// enclosing options (outermost first) followed by its own, so that an item can be resized consistently.
func LenPaths(b []byte) [][]int {
	var out [][]int
	var walkMsg func(base int, p []byte, path []int)
	var walkOpts func(base int, p []byte, sp Space, path []int)
	ext := func(path []int, off int) []int { return append(append([]int{}, path...), off) }
	items := func(base int, p []byte, path []int) {
		for i := 0; i+2 <= len(p); {
			out = append(out, ext(path, base+i))
			i += 2 + (int(p[i])<<8 | int(p[i+1]))
		}
	}
	walkOpts = func(base int, p []byte, sp Space, path []int) {
		for i := 0; i+4 <= len(p); {
			code := uint16(p[i])<<8 | uint16(p[i+1])
			l := int(p[i+2])<<8 | int(p[i+3])
			mine := ext(path, base+i+2)
			out = append(out, mine)
			end := i + 4 + l
			if end > len(p) {
				end = len(p)
			}
			body := p[i+4 : end]
			bo := base + i + 4
			if sp == Top {
				skip := -1
				switch Known[code] {
				case "iana", "iapd":
					skip = 12
				case "iata":
					skip = 4
				case "iaaddr":
					skip = 24
				case "iaprefix":
					skip = 25
				case "4rd":
					skip = 0
				}
				switch {
				case skip >= 0 && len(body) >= skip:
					walkOpts(bo+skip, body[skip:], Top, mine)
				case Known[code] == "vendoropts" && len(body) >= 4:
					walkOpts(bo+4, body[4:], Vendor, mine)
				case Known[code] == "ntp":
					walkOpts(bo, body, NTP, mine)
				case Known[code] == "relaymsg":
					walkMsg(bo, body, mine)
				case Known[code] == "userclass" || Known[code] == "bootfileparam":
					items(bo, body, mine)
				case Known[code] == "vendorclass" && len(body) >= 4:
					items(bo+4, body[4:], mine)
				}
			}
			i += 4 + l
		}
	}
	walkMsg = func(base int, p []byte, path []int) {
		if len(p) == 0 {
			return
		}
		h := 4
		if p[0] == 12 || p[0] == 13 {
			h = 34
		}
		if len(p) >= h {
			walkOpts(base+h, p[h:], Top, path)
		}
	}
	walkMsg(0, b, nil)
	return out
}

// Resize grows (delta > 0, filling with fill) or shrinks (delta < 0) the payload of the item whose length field path
// ends in path[len(path)-1], at its end, and adds delta to the length field of the item and of every enclosing option,
// so that everything still tiles: what changes is only that one item now has another size. nil when impossible.
func Resize(b []byte, path []int, delta int, fill byte) []byte {
	if len(path) == 0 {
		return nil
	}
	own := path[len(path)-1]
	if own+2 > len(b) {
		return nil
	}
	l := int(b[own])<<8 | int(b[own+1])
	end := own + 2 + l
	if end > len(b) || l+delta < 0 {
		return nil
	}
	var out []byte
	if delta >= 0 {
		out = append(append(append([]byte{}, b[:end]...), bytes.Repeat([]byte{fill}, delta)...), b[end:]...)
	} else {
		out = append(append([]byte{}, b[:end+delta]...), b[end:]...)
	}
	for _, off := range path {
		v := (int(out[off])<<8 | int(out[off+1])) + delta
		if v < 0 || v > 0xffff {
			return nil
		}
		out[off], out[off+1] = byte(v>>8), byte(v)
	}
	return out
}

// Depth walks b leniently and returns the deepest option nesting level it can
// find (0 for a flat message): one level per IA / IA address / IA prefix /
// vendor-opts / NTP / 4RD container and per encapsulated relay message.
func Depth(b []byte) int {
	maxd := 0
	var walkMsg func(p []byte, d int)
	var walkOpts func(p []byte, sp Space, d int)
	walkOpts = func(p []byte, sp Space, d int) {
		if d > maxd {
			maxd = d
		}
		for i := 0; i+4 <= len(p); {
			code := uint16(p[i])<<8 | uint16(p[i+1])
			l := int(p[i+2])<<8 | int(p[i+3])
			end := i + 4 + l
			if end > len(p) {
				end = len(p)
			}
			body := p[i+4 : end]
			if sp == Top {
				skip := -1
				switch Known[code] {
				case "iana", "iapd":
					skip = 12
				case "iata":
					skip = 4
				case "iaaddr":
					skip = 24
				case "iaprefix":
					skip = 25
				case "4rd":
					skip = 0
				}
				switch {
				case skip >= 0 && len(body) >= skip:
					walkOpts(body[skip:], Top, d+1)
				case Known[code] == "vendoropts" && len(body) >= 4:
					walkOpts(body[4:], Vendor, d+1)
				case Known[code] == "ntp":
					walkOpts(body, NTP, d+1)
				case Known[code] == "relaymsg":
					walkMsg(body, d+1)
				}
			}
			i += 4 + l
		}
	}
	walkMsg = func(p []byte, d int) {
		if len(p) == 0 {
			return
		}
		h := 4
		if p[0] == 12 || p[0] == 13 {
			h = 34
		}
		if len(p) >= h {
			walkOpts(p[h:], Top, d)
		}
	}
	walkMsg(b, 0)
	return maxd
}
