package props

import (
	"context"
	"errors"
	"fmt"
	"testing"
	"testing/synctest"
	"time"

	"pgregory.net/rapid"

	"verif/netsim"
	"verif/obs"
)

// ---- generators -------------------------------------------------------------------

// callStart puts call i on a tick ≡ 2i (mod 16) at or after "after".
func callStart(i, after int) int {
	s := after - after%16 + 2*(i%8)
	for s < after {
		s += 16
	}
	return s
}

// oddTick returns a tick ≡ 1 (mod 4) at or after x (events), dl ≡ 3 (mod 4) for context deadlines.
func evTick(x int) int {
	for x%4 != 1 {
		x++
	}
	return x
}
func dlTick(x int) int {
	for x%4 != 3 {
		x++
	}
	return x
}

// cliLogModes: the client's logging configuration (see the adapters' start); half of the scenarios log nothing.
var cliLogModes = []int{0, 0, 0, 0, 0, 1, 2, 3, 4, 5}

func wantTypes(v6 bool) []int {
	if v6 {
		return []int{2, 7}
	}
	return []int{2, 5, 6}
}

// genCliGeneral: 1..8 calls with distinct and colliding ids, arbitrary traffic, cancellations, Close.
func genCliGeneral(v6 bool) *rapid.Generator[cliScenario] {
	return rapid.Custom(func(t *rapid.T) cliScenario {
		sc := cliScenario{V6: v6, T: 16 * rapid.SampledFrom([]int{1, 2, 4, 8}).Draw(t, "T16"), Tries: rapid.SampledFrom([]int{1, 2, 3, 3, 2, 1, 0, -1}).Draw(t, "tries"), CloseAt: -1}
		types := wantTypes(v6)
		ncalls := rapid.IntRange(1, 8).Draw(t, "ncalls")
		horizon := 0
		for i := 0; i < ncalls; i++ {
			after := rapid.IntRange(0, sc.T*4).Draw(t, "after")
			c := cliCall{Start: callStart(i, after), Xid: rapid.IntRange(0, 2).Draw(t, "xid"), Variant: rapid.IntRange(0, 3).Draw(t, "variant"),
				Matcher: rapid.SampledFrom([]int{0, 1, 1, 2, 3}).Draw(t, "matcher"), Want: rapid.SampledFrom(types).Draw(t, "want"), K: rapid.IntRange(1, 4).Draw(t, "k"), CancelAt: -1, Deadline: -1}
			switch rapid.IntRange(0, 5).Draw(t, "end") {
			case 0:
				c.CancelAt = evTick(c.Start + rapid.IntRange(1, sc.T*5).Draw(t, "cancel"))
			case 1:
				c.Deadline = dlTick(c.Start+rapid.IntRange(1, sc.T*5).Draw(t, "deadline")) - c.Start
			case 2:
				c.Ctx = rapid.IntRange(1, 3).Draw(t, "ctx")
			}
			sc.Calls = append(sc.Calls, c)
			if e := c.Start + sc.T*8; e > horizon {
				horizon = e
			}
		}
		nd := rapid.IntRange(0, 24).Draw(t, "ndel")
		serial := 1
		for i := 0; i < nd; i++ {
			d := cliDeliver{At: evTick(rapid.IntRange(0, horizon).Draw(t, "at")), Xid: rapid.IntRange(0, 2).Draw(t, "dxid"), Typ: rapid.SampledFrom(types).Draw(t, "typ"), Serial: serial}
			serial++
			d.Kind = rapid.SampledFrom([]int{dgGood, dgGood, dgGood, dgGood, dgGood, dgGood, dgWrongXid, dgWrongHW, dgWrongOp, dgRelayType, dgGarbage, dgEmpty, dgHWEmpty, dgHWPrefix, dgHWExtended, dgHWLong}).Draw(t, "kind")
			if rapid.IntRange(0, 39).Draw(t, "readerr") == 0 {
				d.Kind = dgReadError
			}
			d.Op = rapid.SampledFrom([]uint8{1, 3, 0, 255, 2}).Draw(t, "op")
			d.HType = rapid.SampledFrom([]uint8{0, 0, 0, 1, 6, 32, 255}).Draw(t, "htype")
			d.PadTo = rapid.SampledFrom([]int{0, 0, 0, 0, 576, 1499, 1500}).Draw(t, "padto")
			burst := 1
			if rapid.IntRange(0, 4).Draw(t, "burst") == 0 {
				burst = rapid.IntRange(2, 8).Draw(t, "nburst")
			}
			for k := 0; k < burst; k++ {
				dd := d
				if k > 0 && rapid.Bool().Draw(t, "dup") {
					// an exact duplicate of the datagram (same serial)
				} else {
					dd.Serial = serial
					serial++
				}
				sc.Dels = append(sc.Dels, dd)
			}
		}
		if rapid.IntRange(0, 3).Draw(t, "close") == 0 {
			sc.CloseAt = evTick(rapid.IntRange(0, horizon).Draw(t, "closeat"))
			sc.DoubleClose = rapid.Bool().Draw(t, "double")
		}
		sc.CloseFails = rapid.IntRange(0, 3).Draw(t, "closefails") == 0
		sc.LogMode, sc.Knob = rapid.SampledFrom(cliLogModes).Draw(t, "logmode"), rapid.SampledFrom([]int{0, 0, 1}).Draw(t, "knob")
		sc.Dest = rapid.SampledFrom([]int{0, 0, 1, 2, 3}).Draw(t, "dest")
		return sc
	})
}

// genCliBlocking: one call whose matcher blocks on its first candidate while 1..12 datagrams arrive
// (per-transaction buffer partly full, exactly full, overfull), then is released.
func genCliBlocking(v6 bool) *rapid.Generator[cliScenario] {
	return rapid.Custom(func(t *rapid.T) cliScenario {
		// ticks of 1 ms, 20 ms or 1 s: the matcher is held for milliseconds up to a quarter of an hour (virtual time)
		sc := cliScenario{V6: v6, T: 16 * 64, Tries: rapid.IntRange(1, 2).Draw(t, "tries"), CloseAt: -1, TickNs: rapid.SampledFrom([]int64{1e6, 1e6, 20e6, 1e9}).Draw(t, "tickns")}
		types := wantTypes(v6)
		c := cliCall{Start: 0, Xid: rapid.IntRange(0, 2).Draw(t, "xid"), Matcher: 4, Want: rapid.SampledFrom(types).Draw(t, "want"), CancelAt: -1, Deadline: -1}
		n := rapid.IntRange(1, 12).Draw(t, "n")
		// the position of the first datagram the matcher accepts is drawn, so that "the 7th" (the one the receive
		// loop holds while the buffer of 5 is full) and later positions are as likely as the first
		firstOK := rapid.IntRange(0, n).Draw(t, "firstok") // n: none
		other := types[0]
		if other == c.Want {
			other = types[1]
		}
		at := 1
		for i := 0; i < n; i++ {
			d := cliDeliver{At: evTick(at), Xid: c.Xid, Typ: other, Serial: i + 1, Kind: dgGood}
			if i == firstOK || (i > firstOK && rapid.Bool().Draw(t, "later")) {
				d.Typ = c.Want
			}
			if i != firstOK && rapid.IntRange(0, 5).Draw(t, "noise") == 0 {
				d.Kind = rapid.SampledFrom([]int{dgWrongXid, dgGarbage, dgWrongHW, dgHWEmpty}).Draw(t, "nk")
			}
			sc.Dels = append(sc.Dels, d)
			at = d.At + rapid.SampledFrom([]int{0, 4, 8, 40}).Draw(t, "gap")
		}
		c.ReleaseAt = evTick(at + rapid.SampledFrom([]int{4, 120, 400, 900}).Draw(t, "hold"))
		if c.ReleaseAt >= sc.T {
			c.ReleaseAt = evTick(sc.T - 8)
		}
		sc.Calls = []cliCall{c}
		// history: once the first call is over (it may have ended while the receive loop was still parked on its
		// full buffer), a later call on the same client gets a response of its own
		if rapid.Bool().Draw(t, "later-call") {
			end := sc.T*((1<<uint(sc.Tries))-1) + 16
			c2 := cliCall{Start: callStart(1, end), Xid: rapid.IntRange(0, 2).Draw(t, "xid2"), Matcher: rapid.SampledFrom([]int{0, 1}).Draw(t, "m2"), Want: c.Want, CancelAt: -1, Deadline: -1}
			sc.Calls = append(sc.Calls, c2)
			sc.Dels = append(sc.Dels, cliDeliver{At: evTick(c2.Start + rapid.IntRange(1, sc.T-8).Draw(t, "resp2")), Xid: c2.Xid, Typ: c.Want, Serial: n + 1, Kind: dgGood})
		}
		sc.LogMode, sc.Knob = rapid.SampledFrom(cliLogModes).Draw(t, "logmode"), rapid.SampledFrom([]int{0, 0, 1}).Draw(t, "knob")
		return sc
	})
}

// genCliBlockedAcross: one call whose matcher is held on its first candidate PAST one or more try deadlines while
// further datagrams of its transaction queue up behind it (most of them ones the matcher will reject), then
// released. Checked by cmpCliLoose.
func genCliBlockedAcross(v6 bool) *rapid.Generator[cliScenario] {
	return rapid.Custom(func(t *rapid.T) cliScenario {
		sc := cliScenario{V6: v6, T: 16 * rapid.SampledFrom([]int{4, 8}).Draw(t, "T16"), Tries: rapid.IntRange(1, 3).Draw(t, "tries"), CloseAt: -1}
		types := wantTypes(v6)
		c := cliCall{Start: 0, Xid: rapid.IntRange(0, 2).Draw(t, "xid"), Matcher: 4, Want: types[0], CancelAt: -1, Deadline: -1}
		n := rapid.IntRange(1, 9).Draw(t, "n")
		firstOK := rapid.SampledFrom([]int{n, n, n, 0, 1, 5, 6, 7}).Draw(t, "firstok")
		at := 1
		for i := 0; i < n; i++ {
			d := cliDeliver{At: evTick(at), Xid: c.Xid, Typ: types[1], Serial: i + 1, Kind: dgGood}
			if i == firstOK || (i > firstOK && rapid.IntRange(0, 2).Draw(t, "later") == 0) {
				d.Typ = c.Want
			}
			sc.Dels = append(sc.Dels, d)
			at = d.At + rapid.SampledFrom([]int{0, 4, 8}).Draw(t, "gap")
		}
		k := rapid.IntRange(1, 3).Draw(t, "deadlines")
		c.ReleaseAt = evTick(max(at, sc.T*((1<<uint(k))-1)) + rapid.IntRange(1, sc.T-8).Draw(t, "past"))
		sc.Calls = []cliCall{c}
		sc.LogMode, sc.Knob = rapid.SampledFrom(cliLogModes).Draw(t, "logmode"), rapid.SampledFrom([]int{0, 0, 1}).Draw(t, "knob")
		return sc
	})
}

func cliNonTrivial(sc cliScenario) (bool, []string) {
	var cls []string
	// ≥2 calls pending simultaneously, a datagram rejected by a matcher, a full buffer, a collision
	overlap, collision := false, false
	for i, a := range sc.Calls {
		for j, b := range sc.Calls {
			if i < j && b.Start < a.Start+sc.T {
				overlap = true
				if a.Xid == b.Xid {
					collision = true
				}
			}
		}
	}
	rejecting := false
	for _, c := range sc.Calls {
		if c.Matcher == 2 || c.Matcher == 3 || c.Matcher == 1 {
			rejecting = true
		}
		if c.Matcher == 4 {
			cls = append(cls, "blocking matcher")
			if len(sc.Dels) >= 6 {
				cls = append(cls, "buffer full")
			}
			if len(sc.Dels) >= 7 {
				cls = append(cls, "buffer overfull")
			}
		}
	}
	if sc.blockedAcrossDeadline() {
		cls = append(cls, "matcher held past a try deadline")
	}
	if sc.Dest != 0 {
		cls = append(cls, "other destination (port / broadcast / zoned address)")
	}
	if overlap {
		cls = append(cls, "overlapping calls")
	}
	if collision {
		cls = append(cls, "xid collision")
	}
	if sc.CloseAt >= 0 {
		cls = append(cls, "close during scenario")
	}
	return overlap || (rejecting && len(sc.Dels) > 0) || len(cls) > 0, cls
}

func cliSummary(sc cliScenario) any {
	return map[string]any{"client": map[bool]string{false: "nclient4", true: "nclient6"}[sc.V6], "timeout_ticks": sc.T, "tries": sc.Tries, "calls": sc.Calls, "deliveries": len(sc.Dels), "close_at": sc.CloseAt}
}

func cliCheck(prop, name, rule string, asp int) *chk[cliScenario] {
	var ck *chk[cliScenario]
	ck = newChk(prop, name, rule, func(rec *obs.Rec, sc cliScenario) *obs.Fail {
		got := runCliScenario(curT, sc)
		if f := cmpCli(prop, sc, got, asp); f != nil {
			return f
		}
		nt, cls := cliNonTrivial(sc)
		for _, c := range cls {
			rec.Class(c)
		}
		rec.Class(map[bool]string{false: "nclient4", true: "nclient6"}[sc.V6])
		if nt || asp == aspWrites {
			rec.NonTrivial(obs.HashJSON(sc), func() any { return cliSummary(sc) })
		}
		return nil
	})
	return ck
}

// curT is the outer *testing.T hosting the bubbles of the running test.
var curT *testing.T

// ---- C10 -----------------------------------------------------------------------------

var c10 = cliCheck("C10", "virtual-time",
	"stateful scenarios on one client under virtual time (testing/synctest): 1..8 send-and-read calls with distinct and colliding transaction ids and nil / type / reject-all / accept-k-th / blocking matchers; streams of datagrams mixing matching, non-matching, wrong-id, wrong-hardware-address, wrong-opcode (incl. opcodes other than 1 and 2), relay-typed, undecodable, empty and exactly duplicated ones, in bursts of 1..8 (per-transaction buffer partly full, full and overfull); cancellations and Close. A reference model predicts, per call, the exact datagram returned (by serial: the first one in arrival order that passes the documented filters and the matcher while the call is registered) or the error class (refused colliding id, no response, context); never (nil, nil); non-trivial = overlapping calls, a matcher that rejects, a full buffer or a collision; distinct by scenario hash",
	aspIdentity)

func TestC10_Rapid(t *testing.T) {
	curT = t
	c10.rapidCheck(t, rapid.Custom(func(rt *rapid.T) cliScenario {
		v6 := rapid.Bool().Draw(rt, "v6")
		switch rapid.IntRange(0, 7).Draw(rt, "class") {
		case 0, 1:
			return genCliBlocking(v6).Draw(rt, "blocking")
		case 2:
			return genCliBlockedAcross(v6).Draw(rt, "blocked-across")
		}
		return genCliGeneral(v6).Draw(rt, "general")
	}))
}

// ---- C11 -----------------------------------------------------------------------------

var c11 = cliCheck("C11", "virtual-time",
	"the same scenario space under virtual time, asserting completion: every call returns at exactly the instant the model predicts — the arrival instant of the first acceptable response, the instant its context ends (cancellation or deadline), the instant of Close, or timeout×(2^tries−1) whatever traffic arrives (streams of same-id datagrams the matcher rejects included); a returned call's transaction id is immediately reusable; Close returns at once, twice is harmless, also when the socket's own Close reports an error (injected), and the bubble must drain (no goroutine left behind); a grid of Close instants over every try; non-trivial = a rejected same-id datagram, or Close/cancel while a call is pending; distinct by scenario hash",
	aspTiming)

// genCliStreams: endless-looking streams of rejected same-id datagrams at several periods relative to the timeout.
func genCliStreams(v6 bool) *rapid.Generator[cliScenario] {
	return rapid.Custom(func(t *rapid.T) cliScenario {
		sc := cliScenario{V6: v6, T: 16 * rapid.SampledFrom([]int{4, 8, 16}).Draw(t, "T16"), Tries: rapid.IntRange(1, 3).Draw(t, "tries"), CloseAt: -1}
		types := wantTypes(v6)
		c := cliCall{Start: 0, Xid: 1, Matcher: rapid.SampledFrom([]int{1, 2, 3}).Draw(t, "matcher"), Want: types[0], K: rapid.IntRange(2, 40).Draw(t, "k"), CancelAt: -1, Deadline: -1}
		period := rapid.SampledFrom([]int{4, sc.T / 8, sc.T / 4, sc.T/2 + 4, sc.T - 4}).Draw(t, "period")
		if period < 4 {
			period = 4
		}
		end := sc.T*((1<<uint(sc.Tries))-1) + sc.T
		serial := 1
		for at := 1; at < end; at += period {
			typ := types[len(types)-1]
			if rapid.IntRange(0, 30).Draw(t, "good") == 0 {
				typ = types[0]
			}
			sc.Dels = append(sc.Dels, cliDeliver{At: evTick(at), Xid: 1, Typ: typ, Serial: serial, Kind: dgGood})
			serial++
		}
		sc.Calls = []cliCall{c}
		// a second call reusing the id right after the first one is expected to have returned
		if rapid.Bool().Draw(t, "reuse") {
			sc.Calls = append(sc.Calls, cliCall{Start: callStart(1, end+16), Xid: 1, Matcher: 0, CancelAt: -1, Deadline: -1})
		}
		sc.LogMode, sc.Knob = rapid.SampledFrom(cliLogModes).Draw(t, "logmode"), rapid.SampledFrom([]int{0, 0, 1}).Draw(t, "knob")
		return sc
	})
}

func TestC11_Rapid(t *testing.T) {
	curT = t
	c11.rapidCheck(t, rapid.Custom(func(rt *rapid.T) cliScenario {
		v6 := rapid.Bool().Draw(rt, "v6")
		switch rapid.IntRange(0, 5).Draw(rt, "class") {
		case 0, 1:
			return genCliStreams(v6).Draw(rt, "streams")
		case 2:
			return genCliBlockedAcross(v6).Draw(rt, "blocked-across")
		case 3:
			return genCliBlocking(v6).Draw(rt, "blocking")
		}
		return genCliGeneral(v6).Draw(rt, "general")
	}))
}

// TestC11_CloseGrid: Close at an early, a middle and the last event slot of every try × the socket's own Close
// succeeding or reporting an error × Close called twice × a rejected datagram arriving at the same instant × every
// logging configuration; a call started after Close is refused.
func TestC11_CloseGrid(t *testing.T) {
	curT = t
	for _, v6 := range []bool{false, true} {
		for _, tries := range []int{-1, 1, 2, 3} {
			n := tries
			if n < 0 {
				n = 3
			}
			for k := 0; k < n; k++ {
				s, l := 16*((1<<uint(k))-1), 16<<uint(k)
				for _, off := range []int{1, l / 2, l - 3} {
					for mode := 0; mode < 8; mode++ {
						sc := c12Scenario(v6, 1e6/16, tries, k%4, -1, 0)
						sc.CloseAt = evTick(s + off)
						sc.CloseFails = mode&1 != 0
						sc.DoubleClose = mode&2 != 0
						if mode&4 != 0 {
							sc.Dels = []cliDeliver{{At: sc.CloseAt, Kind: dgGood, Xid: sc.Calls[0].Xid, Typ: wantTypes(v6)[1], Serial: 1}}
						}
						sc.LogMode = (k + mode) % 6
						sc.Calls = append(sc.Calls, cliCall{Start: callStart(1, sc.CloseAt+1), Xid: 2, Matcher: 0, CancelAt: -1, Deadline: -1})
						c11.one(t, sc)
					}
				}
			}
		}
	}
	c11.rec.Class("close grid")
}

// TestC11_LongHistory: one long-lived client serves 80 calls one after the other (virtual time is free). Three
// histories: every call ends while the receive loop is parked on its full buffer (a blocked matcher, a burst of eight
// datagrams of its transaction, the first one accepted on release); such calls alternating with plain answered ones;
// every call running into its timeout. Whatever a call leaves behind per call (a slot, an entry, a goroutine) shows
// when it has added up: the 80th call behaves like the first.
func TestC11_LongHistory(t *testing.T) {
	curT = t
	for _, v6 := range []bool{false, true} {
		types := wantTypes(v6)
		for hist := 0; hist < 3; hist++ {
			sc := cliScenario{V6: v6, T: 16 * 8, Tries: 1, CloseAt: -1, LogMode: hist % 2}
			serial := 1
			for i := 0; i < 80; i++ {
				start := callStart(i, i*256)
				c := cliCall{Start: start, Xid: i % 3, Matcher: 1, Want: types[0], CancelAt: -1, Deadline: -1}
				switch {
				case hist == 2:
					// silence: the call times out
				case hist == 1 && i%2 == 1:
					sc.Dels = append(sc.Dels, cliDeliver{At: evTick(start + 9), Kind: dgGood, Xid: c.Xid, Typ: c.Want, Serial: serial})
					serial++
				default:
					c.Matcher, c.ReleaseAt = 4, evTick(start+60)
					for k := 0; k < 8; k++ {
						typ := types[1]
						if k == 0 {
							typ = c.Want
						}
						sc.Dels = append(sc.Dels, cliDeliver{At: evTick(start + 1 + 4*k), Kind: dgGood, Xid: c.Xid, Typ: typ, Serial: serial})
						serial++
					}
				}
				sc.Calls = append(sc.Calls, c)
			}
			c11.one(t, sc)
		}
	}
	c11.rec.Class("long history on one client")
}

// ---- C12 -----------------------------------------------------------------------------

var c12 = cliCheck("C12", "schedule",
	"one call per scenario under virtual time over the grid T ∈ {1 ms, 10 ms, 250 ms, 1 s, 5 s} × tries ∈ {−1..6} × request shapes (with and without elapsed-time / large options) × (no response | an accepted response in try k at 1 tick after the send, mid-try, or 1 tick before the deadline); the write log must hold exactly the predicted transmissions: count, instants 0, T, 3T, 7T, …, bytes equal to the request's encoding taken before the call, the requested destination, nothing after the call returned, and the no-response error at T×(2^n−1); unlimited tries are observed for 11 tries (2047 T) before cancellation; a context deadline placed early, mid-try and last in every try (the transmissions before it are all the scheduled ones); every logging configuration of the clients (none, dropped packets, summary, debug, own logger) with requests carrying unsorted option-request lists; non-trivial = every case; distinct by scenario hash",
	aspWrites|aspTiming)

func c12Scenario(v6 bool, tickNs int64, tries, variant, respTry, respPos int) cliScenario {
	sc := cliScenario{V6: v6, TickNs: tickNs, T: 16, Tries: tries, CloseAt: -1, Dest: (variant + tries + 4) % 4}
	c := cliCall{Start: 0, Xid: variant % 3, Variant: variant, Matcher: 1, Want: wantTypes(v6)[0], CancelAt: -1, Deadline: -1}
	sc.Calls = []cliCall{c}
	if respTry >= 0 {
		s := sc.T * ((1 << uint(respTry)) - 1)
		l := sc.T * (1 << uint(respTry))
		at := s + 1
		switch respPos {
		case 1:
			at = evTick(s + l/2)
		case 2:
			at = s + l - 3 // ≡ 1 mod 4, the last event slot before the deadline
		}
		sc.Dels = []cliDeliver{
			{At: at, Kind: dgGood, Xid: c.Xid, Typ: wantTypes(v6)[1], Serial: 1}, // rejected by the matcher: same instant, earlier in order
			{At: at, Kind: dgGood, Xid: c.Xid, Typ: c.Want, Serial: 2},
		}
	}
	return sc
}

func TestC12_Grid(t *testing.T) {
	curT = t
	for _, v6 := range []bool{false, true} {
		for _, T := range []int64{1e6, 10e6, 250e6, 1e9, 5e9} {
			for tries := -1; tries <= 6; tries++ {
				for variant := 0; variant < 4; variant++ {
					c12.one(t, c12Scenario(v6, T/16, tries, variant, -1, 0))
					n := tries
					if n < 0 {
						n = 5
					}
					for k := 0; k < n; k++ {
						for pos := 0; pos < 3; pos++ {
							if variant != 1 && pos != 1 {
								continue
							}
							c12.one(t, c12Scenario(v6, T/16, tries, variant, k, pos))
						}
					}
				}
			}
		}
	}
	// unlimited tries watched for 30 doublings (a microsecond-scale timeout: virtual time is free) — every wait is
	// double the previous one, the 20th like the 2nd
	for _, v6 := range []bool{false, true} {
		for _, tn := range []int64{62, 1000, 1e6} {
			sc := c12Scenario(v6, tn, -1, 1, -1, 0)
			sc.Window = 30
			if tn >= 1e6 {
				sc.Window = 24
			}
			c12.one(t, sc)
		}
	}
	// every combination of request features (client address, server identifier, broadcast flag, requested address,
	// relay address, client identifier / v6: server id, IA, elapsed time, type, size) × every destination
	for _, v6 := range []bool{false, true} {
		for variant := 4; variant < 4+64; variant++ {
			for dest := 0; dest < 4; dest++ {
				sc := c12Scenario(v6, 1e6/16, 2, variant, -1, 0)
				sc.Dest = dest
				c12.one(t, sc)
				// the same with every logging configuration: what a client prints about a request does not change it
				sc.LogMode = 1 + (variant+dest)%5
				sc.Tries = 3
				c12.one(t, sc)
			}
		}
	}
	// contexts that can never end (Background, TODO, a value context): unlimited tries go on until Close, limited ones
	// follow their schedule
	for _, v6 := range []bool{false, true} {
		for _, tries := range []int{-1, 1, 3} {
			for ctx := 1; ctx <= 3; ctx++ {
				sc := c12Scenario(v6, 1e6/16, tries, 1, -1, 0)
				sc.Calls[0].Ctx = ctx
				c12.one(t, sc)
				sc = c12Scenario(v6, 1e6/16, tries, 2, max(0, tries-1), 1)
				sc.Calls[0].Ctx = ctx
				c12.one(t, sc)
			}
		}
	}
	// the socket fails a read (once) at an instant of every try: the schedule of the call in flight, and of a later
	// call, is what it would be with a silent network
	for _, v6 := range []bool{false, true} {
		for _, tries := range []int{1, 3, 4} {
			for k := 0; k < tries; k++ {
				sc := c12Scenario(v6, 1e6/16, tries, 1, -1, 0)
				s := 16 * ((1 << uint(k)) - 1)
				sc.Dels = []cliDeliver{{At: evTick(s + 5), Kind: dgReadError, Serial: 1}, {At: evTick(s + 9), Kind: dgGood, Xid: sc.Calls[0].Xid, Typ: sc.Calls[0].Want, Serial: 2}}
				end := 16*((1<<uint(tries))-1) + 16
				sc.Calls = append(sc.Calls, cliCall{Start: callStart(1, end), Xid: 2, Matcher: 1, Want: sc.Calls[0].Want, CancelAt: -1, Deadline: -1})
				c12.one(t, sc)
			}
		}
	}
	// a context deadline inside the schedule (at every try k, early, mid-try and just before the try's end): the
	// transmissions up to that instant are the scheduled ones, all of them, and the call ends at the deadline
	for _, v6 := range []bool{false, true} {
		for _, tries := range []int{-1, 2, 3, 5, 6} {
			n := tries
			if n < 0 {
				n = 6
			}
			for k := 0; k < n; k++ {
				s, l := 16*((1<<uint(k))-1), 16*(1<<uint(k))
				for _, off := range []int{3, l / 2, l - 1} {
					sc := c12Scenario(v6, 1e6/16, tries, 1, -1, 0)
					sc.Calls[0].Deadline = dlTick(s + off)
					if sc.Calls[0].Deadline >= s+l {
						continue
					}
					c12.one(t, sc)
				}
			}
		}
	}
	c12.rec.Class("full grid")
}

// genC12Sequence: several calls on ONE client, one after the other or overlapping, with requests of different
// shapes and sizes (short after long, long after short), some answered in a later try: every transmission of every
// call must be that call's own request, byte for byte — whatever the client sent before.
func genC12Sequence(v6 bool) *rapid.Generator[cliScenario] {
	return rapid.Custom(func(t *rapid.T) cliScenario {
		sc := cliScenario{V6: v6, T: 16 * rapid.SampledFrom([]int{1, 2, 4}).Draw(t, "T16"), Tries: rapid.IntRange(1, 4).Draw(t, "tries"), CloseAt: -1, Dest: rapid.IntRange(0, 3).Draw(t, "dest")}
		types := wantTypes(v6)
		n := rapid.IntRange(2, 5).Draw(t, "ncalls")
		after := 0
		overlap := rapid.Bool().Draw(t, "overlap")
		serial := 1
		for i := 0; i < n; i++ {
			c := cliCall{Start: callStart(i, after), Xid: i % 3, Variant: rapid.IntRange(0, 3+64).Draw(t, "variant"), Matcher: 1, Want: types[0], CancelAt: -1, Deadline: -1}
			if overlap && i%3 != 0 {
				c.Xid = (i + 1) % 3 // overlapping calls need distinct ids
			}
			sched := sc.T * ((1 << uint(sc.Tries)) - 1)
			if rapid.IntRange(0, 3).Draw(t, "with-deadline") == 0 {
				c.Deadline = dlTick(c.Start+rapid.IntRange(1, sched+8).Draw(t, "deadline")) - c.Start
			}
			if k := rapid.IntRange(-1, sc.Tries-1).Draw(t, "answered-in-try"); k >= 0 {
				at := evTick(c.Start + sc.T*((1<<uint(k))-1) + rapid.IntRange(1, sc.T*(1<<uint(k))-4).Draw(t, "offset"))
				sc.Dels = append(sc.Dels, cliDeliver{At: at, Kind: dgGood, Xid: c.Xid, Typ: c.Want, Serial: serial})
				serial++
			}
			sc.Calls = append(sc.Calls, c)
			if overlap && i%3 != 2 {
				after = c.Start + 2
			} else {
				after = c.Start + sched + 16
			}
		}
		sc.LogMode, sc.Knob = rapid.SampledFrom(cliLogModes).Draw(t, "logmode"), rapid.SampledFrom([]int{0, 0, 1}).Draw(t, "knob")
		return sc
	})
}

func TestC12_Rapid(t *testing.T) {
	curT = t
	c12.rapidCheck(t, rapid.Custom(func(rt *rapid.T) cliScenario {
		if rapid.IntRange(0, 2).Draw(rt, "class") == 0 {
			return genC12Sequence(rapid.Bool().Draw(rt, "v6")).Draw(rt, "sequence")
		}
		tries := rapid.IntRange(-1, 6).Draw(rt, "tries")
		n := tries
		if n < 0 {
			n = 5
		}
		k := -1
		if n > 0 && rapid.Bool().Draw(rt, "respond") {
			k = rapid.IntRange(0, n-1).Draw(rt, "try")
		}
		T := rapid.SampledFrom([]int64{1e6, 10e6, 250e6, 1e9, 5e9, 48e6}).Draw(rt, "T")
		sc := c12Scenario(rapid.Bool().Draw(rt, "v6"), T/16, tries, rapid.IntRange(0, 3+64).Draw(rt, "variant"), k, rapid.IntRange(0, 2).Draw(rt, "pos"))
		sc.Dest = rapid.IntRange(0, 3).Draw(rt, "dest")
		if tries < 0 && rapid.Bool().Draw(rt, "cancel") {
			sc.Calls[0].CancelAt = evTick(rapid.IntRange(1, 16*40).Draw(rt, "cancelat"))
		} else if rapid.IntRange(0, 3).Draw(rt, "with-deadline") == 0 {
			sc.Calls[0].Deadline = dlTick(rapid.IntRange(1, 16*40).Draw(rt, "deadline"))
		} else {
			sc.Calls[0].Ctx = rapid.SampledFrom([]int{0, 0, 1, 2, 3}).Draw(rt, "ctx")
		}
		sc.LogMode, sc.Knob = rapid.SampledFrom(cliLogModes).Draw(rt, "logmode"), rapid.SampledFrom([]int{0, 0, 1}).Draw(rt, "knob")
		return sc
	}))
}

var _ = fmt.Sprint

// ---- C12 / C10: a response that arrives while the transmission is still in progress ---------------

type c12Instant struct {
	V6       bool `json:"v6"`
	T        int  `json:"timeout_ticks"`
	Tries    int  `json:"tries"`
	ReplyTry int  `json:"reply_try"` // the reply is handed to the client from inside the WriteTo of this try (0-based)
	Accept   bool `json:"accept"`    // whether the call's matcher accepts it
	Variant  int  `json:"variant"`
	Dest     int  `json:"dest"`
}

// c12instant: the responder is so fast that its reply is read by the client's receive loop before the client's own
// WriteTo has returned (a responder on the same host, an in-memory transport). Both clients register the
// transaction before they transmit, so such a reply belongs to the call: accepted, it ends the call at that very
// instant and nothing is retransmitted; rejected by the matcher, it changes nothing.
var c12instant = newChk("C12", "instant-reply",
	"one call per scenario under virtual time; the scripted connection delivers the reply from inside the WriteTo of try k and lets the receive loop consume it before WriteTo returns; an accepted reply ends the call at T×(2^k−1) after exactly k+1 transmissions, a rejected one leaves the schedule untouched (n transmissions, no-response error at T×(2^n−1)); non-trivial = every case; distinct by case hash",
	func(rec *obs.Rec, c c12Instant) *obs.Fail {
		name := "nclient4"
		if c.V6 {
			name = "nclient6"
		}
		type result struct {
			serial, typ int
			isNil       bool
			err         string
			at          int
		}
		var res result
		var writes []int
		tick := time.Millisecond
		prob := inBubble(curT, func() {
			var ad cliAdapter = &v4Adapter{}
			if c.V6 {
				ad = &v6Adapter{}
			}
			ad.setDest(c.Dest)
			conn := netsim.New(64)
			if err := ad.start(conn, time.Duration(c.T)*tick, c.Tries, 0); err != nil {
				panic(err)
			}
			types := wantTypes(c.V6)
			typ := types[0]
			if !c.Accept {
				typ = types[1]
			}
			n := 0
			conn.OnWrite = func(w netsim.Write) {
				writes = append(writes, int(w.At/tick))
				if n == c.ReplyTry {
					conn.Deliver(ad.datagram(dgGood, 1, typ, 77, 2, 0, 0), ad.dest())
					synctest.Wait() // the receive loop has taken the datagram and waits for the next one
				}
				n++
			}
			req, _ := ad.request(1, c.Variant)
			done := make(chan struct{})
			go func() {
				defer close(done)
				s, ty, isNil, _, err := ad.call(context.Background(), req, func(serial, t int) bool { return t == types[0] }, false)
				res = result{s, ty, isNil, ad.classify(err), int(conn.Since() / tick)}
			}()
			<-done
			_ = ad.close()
		})
		if prob != "" {
			return obs.Failf("C12/"+name+"/instant-reply/panic-or-leak", "the call returns and Close leaves nothing behind", "%s", clipS(prob))
		}
		wantN, wantAt, wantErr := c.Tries, c.T*((1<<uint(c.Tries))-1), "no-response"
		if c.Accept {
			wantN, wantAt, wantErr = c.ReplyTry+1, c.T*((1<<uint(c.ReplyTry))-1), "nil"
		}
		if res.isNil && res.err == "nil" {
			return obs.Failf("C12/"+name+"/instant-reply/nil-nil", "a response or an error", "(nil, nil)")
		}
		if res.err != wantErr || (c.Accept && res.serial != 77) {
			return obs.Failf("C12/"+name+"/instant-reply/outcome", fmt.Sprintf("%s (reply handed over inside the transmission of try %d, accepted by the matcher: %v)", wantErr, c.ReplyTry, c.Accept), "%s serial %d at tick %d after %d transmissions", res.err, res.serial, res.at, len(writes))
		}
		if len(writes) != wantN {
			return obs.Failf("C12/"+name+"/instant-reply/transmission-count", fmt.Sprintf("%d transmissions", wantN), "%d at ticks %v", len(writes), writes)
		}
		for i, w := range writes {
			if w != c.T*((1<<uint(i))-1) {
				return obs.Failf("C12/"+name+"/instant-reply/transmission-instant", "ticks 0, T, 3T, …", "%v (T=%d)", writes, c.T)
			}
		}
		if res.at != wantAt {
			return obs.Failf("C12/"+name+"/instant-reply/return-instant", fmt.Sprintf("tick %d", wantAt), "tick %d", res.at)
		}
		rec.Class(name)
		rec.NonTrivial(obs.HashJSON(c), func() any { return c })
		return nil
	})

func TestC12_InstantReply(t *testing.T) {
	curT = t
	for _, v6 := range []bool{false, true} {
		for tries := 1; tries <= 4; tries++ {
			for k := 0; k < tries; k++ {
				for _, acc := range []bool{true, false} {
					for variant := 0; variant < 4; variant++ {
						c12instant.one(t, c12Instant{V6: v6, T: 16 * (1 + variant), Tries: tries, ReplyTry: k, Accept: acc, Variant: variant, Dest: (variant + k) % 4})
					}
				}
			}
		}
	}
	c12instant.rec.Class("grid: tries 1..4 × try of the reply × accepted/rejected × request shapes")
}

// ---- C11: a transmission that fails ---------------------------------------------------------------

type c11WriteFail struct {
	V6      bool `json:"v6"`
	T       int  `json:"timeout_ticks"`
	Tries   int  `json:"tries"`
	FailTry int  `json:"fail_try"` // the transmission of this try (0-based) fails with a socket error
	Variant int  `json:"variant"`
}

// c11writefail: injected fault — the socket refuses one transmission (network unreachable). The call ends there and
// then with an error (it is neither a response nor the no-response outcome), its transaction id is free again at that
// very instant (a second call with the same id is accepted and gets its response), Close returns and nothing is left.
var c11writefail = newChk("C11", "write-failure",
	"fault injection under virtual time: the scripted socket fails the transmission of try k; the call must return an error at T×(2^k−1) after k successful transmissions, a second call reusing the transaction id at that instant is accepted and returns the response delivered to it, Close returns and the bubble drains; non-trivial = every case; distinct by case hash",
	func(rec *obs.Rec, c c11WriteFail) *obs.Fail {
		name := "nclient4"
		if c.V6 {
			name = "nclient6"
		}
		tick := time.Millisecond
		var err1, err2 string
		var at1, serial2 int
		var nil2 bool
		sent := 0
		prob := inBubble(curT, func() {
			var ad cliAdapter = &v4Adapter{}
			if c.V6 {
				ad = &v6Adapter{}
			}
			conn := netsim.New(64)
			boom := errors.New("network is unreachable")
			conn.WriteErr = func(n int) error {
				if n == c.FailTry {
					return boom
				}
				return nil
			}
			conn.OnWrite = func(w netsim.Write) { sent++ }
			if err := ad.start(conn, time.Duration(c.T)*tick, c.Tries, 0); err != nil {
				panic(err)
			}
			types := wantTypes(c.V6)
			req, _ := ad.request(1, c.Variant)
			_, _, _, _, err := ad.call(context.Background(), req, func(serial, t int) bool { return t == types[0] }, false)
			err1, at1 = ad.classify(err), int(conn.Since()/tick)
			// the same transaction id again, at once
			req2, _ := ad.request(1, c.Variant)
			done := make(chan struct{})
			go func() {
				defer close(done)
				s, _, isNil, _, err := ad.call(context.Background(), req2, func(serial, t int) bool { return t == types[0] }, false)
				serial2, nil2, err2 = s, isNil, ad.classify(err)
			}()
			synctest.Wait()
			conn.Deliver(ad.datagram(dgGood, 1, types[0], 99, 2, 0, 0), ad.dest())
			<-done
			_ = ad.close()
		})
		if prob != "" {
			return obs.Failf("C11/"+name+"/write-failure/panic-or-leak", "both calls return and Close leaves nothing behind", "%s", clipS(prob))
		}
		wantAt := c.T * ((1 << uint(c.FailTry)) - 1)
		if err1 == "nil" || err1 == "no-response" || err1 == "xid-in-use" {
			return obs.Failf("C11/"+name+"/write-failure/outcome", "the call fails with the socket's error", "%s at tick %d", err1, at1)
		}
		if at1 != wantAt || sent < c.FailTry {
			return obs.Failf("C11/"+name+"/write-failure/return-instant", fmt.Sprintf("error at tick %d after %d successful transmissions", wantAt, c.FailTry), "tick %d after %d", at1, sent)
		}
		if err2 != "nil" || nil2 || serial2 != 99 {
			return obs.Failf("C11/"+name+"/write-failure/id-not-reusable", "a second call with the same transaction id is accepted at once and returns its response", "%s (serial %d)", err2, serial2)
		}
		rec.Class(name)
		rec.NonTrivial(obs.HashJSON(c), func() any { return c })
		return nil
	})

func TestC11_WriteFailure(t *testing.T) {
	curT = t
	for _, v6 := range []bool{false, true} {
		for tries := 1; tries <= 4; tries++ {
			for k := 0; k < tries; k++ {
				for variant := 0; variant < 3; variant++ {
					c11writefail.one(t, c11WriteFail{V6: v6, T: 16 * (1 + variant), Tries: tries, FailTry: k, Variant: variant})
				}
			}
		}
	}
	c11writefail.rec.Class("grid: tries 1..4 × failing try × request shapes")
}
