// Package refv4 is an independent DHCPv4 wire codec written from RFC 951,
// RFC 2131 section 2, RFC 2132 and RFC 3396. It shares no code with the
// library under test (plain index arithmetic on byte slices, standard library
// only). It is the oracle for C04/C07 and the input builder for other checks.
package refv4

import (
	"bytes"
	"fmt"
	"sort"
)

const (
	HeaderLen = 236
	CookieOff = 236
	OptsOff   = 240
	MinLen    = 300
)

var Cookie = [4]byte{99, 130, 83, 99}

// Packet is the reference reading of a DHCPv4 datagram.
type Packet struct {
	Op, HType, HLen, Hops uint8
	Xid                   [4]byte
	Secs, Flags           uint16
	CI, YI, SI, GI        [4]byte
	CHAddr                []byte // clipped to min(hlen,16)
	SName, File           string // cut at the first NUL
	Opts                  map[uint8][]byte
	Order                 []uint8 // codes in order of first appearance
}

// Reason classifies a rejection.
type Reason string

const (
	OK            Reason = ""
	ShortHeader   Reason = "short-header"
	BadCookie     Reason = "bad-cookie"
	NoEnd         Reason = "no-end"
	MissingLength Reason = "missing-length-byte"
	Overrun       Reason = "option-overrun"
)

// Decode applies the acceptance rule of the property C04: 236-byte header,
// cookie, then an options area that is empty or a run of pad / TLV options
// closed by End with no option overrunning the buffer.
func Decode(b []byte) (*Packet, Reason) {
	if len(b) < OptsOff {
		return nil, ShortHeader
	}
	if !bytes.Equal(b[CookieOff:OptsOff], Cookie[:]) {
		return nil, BadCookie
	}
	p := &Packet{Op: b[0], HType: b[1], HLen: b[2], Hops: b[3]}
	copy(p.Xid[:], b[4:8])
	p.Secs = uint16(b[8])<<8 | uint16(b[9])
	p.Flags = uint16(b[10])<<8 | uint16(b[11])
	copy(p.CI[:], b[12:16])
	copy(p.YI[:], b[16:20])
	copy(p.SI[:], b[20:24])
	copy(p.GI[:], b[24:28])
	n := int(p.HLen)
	if n > 16 {
		n = 16
	}
	p.CHAddr = append([]byte{}, b[28:28+n]...)
	p.SName = cutNUL(b[44:108])
	p.File = cutNUL(b[108:236])
	opts, order, why := DecodeOptions(b[OptsOff:], true)
	if why != OK {
		return nil, why
	}
	p.Opts, p.Order = opts, order
	return p, OK
}

func cutNUL(f []byte) string {
	if i := bytes.IndexByte(f, 0); i >= 0 {
		return string(f[:i])
	}
	return string(f)
}

// DecodeOptions reads an options area. With needEnd an area that is not empty
// must be closed by an End option; without it (sub-option lists such as the
// relay agent information value) the area simply has to tile.
func DecodeOptions(a []byte, needEnd bool) (map[uint8][]byte, []uint8, Reason) {
	opts := map[uint8][]byte{}
	var order []uint8
	if len(a) == 0 {
		return opts, order, OK
	}
	i := 0
	for i < len(a) {
		code := a[i]
		i++
		if code == 0 {
			continue
		}
		if code == 255 {
			return opts, order, OK
		}
		if i >= len(a) {
			return nil, nil, MissingLength
		}
		l := int(a[i])
		i++
		if i+l > len(a) {
			return nil, nil, Overrun
		}
		if _, seen := opts[code]; !seen {
			order = append(order, code)
			opts[code] = []byte{}
		}
		opts[code] = append(opts[code], a[i:i+l]...)
		i += l
	}
	if needEnd {
		return nil, nil, NoEnd
	}
	return opts, order, OK
}

// Validate is the canonical-form validator of C07: what any RFC 2131/2132/3396
// receiver may rely on in bytes emitted by an encoder. It returns "" or a
// description of the first rule broken.
func Validate(b []byte) string {
	if len(b) < MinLen {
		return fmt.Sprintf("length %d < 300", len(b))
	}
	if !bytes.Equal(b[CookieOff:OptsOff], Cookie[:]) {
		return "magic cookie missing"
	}
	i := OptsOff
	last := -1 // last code seen (as sort key)
	seen := map[uint8]bool{}
	var prevCode int = -1
	key := func(c uint8) int {
		if c == 82 {
			return 1000 // relay agent information goes last
		}
		return int(c)
	}
	for {
		if i >= len(b) {
			return "no End option"
		}
		code := b[i]
		if code == 255 {
			i++
			break
		}
		if code == 0 {
			return fmt.Sprintf("pad byte inside the options run at offset %d", i)
		}
		if i+1 >= len(b) {
			return "option without length byte"
		}
		l := int(b[i+1])
		if i+2+l > len(b) {
			return fmt.Sprintf("option %d overruns the buffer", code)
		}
		if int(code) == prevCode {
			// a further consecutive instance of the same code: an RFC 3396 split
			// (the RFC does not prescribe where a long value is cut)
		} else {
			if seen[code] {
				return fmt.Sprintf("option %d appears in two separate runs", code)
			}
			if key(code) < last {
				return fmt.Sprintf("option %d out of order (after key %d)", code, last)
			}
			seen[code] = true
			last = key(code)
		}
		prevCode = int(code)
		i += 2 + l
	}
	for ; i < len(b); i++ {
		if b[i] != 0 {
			return fmt.Sprintf("non-zero byte %#x after End at offset %d", b[i], i)
		}
	}
	return ""
}

// Layout controls how EncodeLayout writes the options area, so that
// non-canonical but well-formed inputs can be built.
type Instance struct {
	Code uint8
	Val  []byte
	Pad  int // pad bytes written before this instance
}

// Header builds the 240-byte header + cookie from the packet's header fields.
// hlenRaw is written verbatim; chaddr16/sname64/file128 are raw field images.
func Header(p *Packet, hlenRaw uint8, chaddr16 [16]byte, sname [64]byte, file [128]byte) []byte {
	b := make([]byte, OptsOff)
	b[0], b[1], b[2], b[3] = p.Op, p.HType, hlenRaw, p.Hops
	copy(b[4:8], p.Xid[:])
	b[8], b[9] = byte(p.Secs>>8), byte(p.Secs)
	b[10], b[11] = byte(p.Flags>>8), byte(p.Flags)
	copy(b[12:], p.CI[:])
	copy(b[16:], p.YI[:])
	copy(b[20:], p.SI[:])
	copy(b[24:], p.GI[:])
	copy(b[28:44], chaddr16[:])
	copy(b[44:108], sname[:])
	copy(b[108:236], file[:])
	copy(b[236:240], Cookie[:])
	return b
}

// Area writes instances verbatim (no sorting, no splitting), then End if end,
// then trailing bytes.
func Area(ins []Instance, end bool, trailing []byte) []byte {
	var a []byte
	for _, in := range ins {
		for k := 0; k < in.Pad; k++ {
			a = append(a, 0)
		}
		a = append(a, in.Code, byte(len(in.Val)))
		a = append(a, in.Val...)
	}
	if end {
		a = append(a, 255)
	}
	return append(a, trailing...)
}

// Canonical encodes a packet the way C07 describes the canonical form:
// ascending codes, 82 last, values > 255 split, End, zero padding to 300.
func Canonical(p *Packet) []byte {
	var ch [16]byte
	copy(ch[:], p.CHAddr)
	var sn [64]byte
	copy(sn[:63], p.SName)
	var fl [128]byte
	copy(fl[:127], p.File)
	b := Header(p, uint8(len(p.CHAddr)), ch, sn, fl)
	codes := make([]int, 0, len(p.Opts))
	for c := range p.Opts {
		if c == 82 {
			continue
		}
		codes = append(codes, int(c))
	}
	sort.Ints(codes)
	if _, ok := p.Opts[82]; ok {
		codes = append(codes, 82)
	}
	for _, c := range codes {
		v := p.Opts[uint8(c)]
		if len(v) == 0 {
			b = append(b, byte(c), 0)
			continue
		}
		for len(v) > 0 {
			n := len(v)
			if n > 255 {
				n = 255
			}
			b = append(b, byte(c), byte(n))
			b = append(b, v[:n]...)
			v = v[n:]
		}
	}
	b = append(b, 255)
	for len(b) < MinLen {
		b = append(b, 0)
	}
	return b
}

// Diff returns "" when two reference packets are equal, else the first difference.
func (p *Packet) Diff(q *Packet) string {
	switch {
	case p.Op != q.Op:
		return fmt.Sprintf("op %d vs %d", p.Op, q.Op)
	case p.HType != q.HType:
		return fmt.Sprintf("htype %d vs %d", p.HType, q.HType)
	case p.Hops != q.Hops:
		return fmt.Sprintf("hops %d vs %d", p.Hops, q.Hops)
	case p.Xid != q.Xid:
		return fmt.Sprintf("xid %x vs %x", p.Xid, q.Xid)
	case p.Secs != q.Secs:
		return fmt.Sprintf("secs %d vs %d", p.Secs, q.Secs)
	case p.Flags != q.Flags:
		return fmt.Sprintf("flags %x vs %x", p.Flags, q.Flags)
	case p.CI != q.CI, p.YI != q.YI, p.SI != q.SI, p.GI != q.GI:
		return fmt.Sprintf("addresses %v %v %v %v vs %v %v %v %v", p.CI, p.YI, p.SI, p.GI, q.CI, q.YI, q.SI, q.GI)
	case !bytes.Equal(p.CHAddr, q.CHAddr):
		return fmt.Sprintf("chaddr %x vs %x", p.CHAddr, q.CHAddr)
	case p.SName != q.SName:
		return fmt.Sprintf("sname %q vs %q", p.SName, q.SName)
	case p.File != q.File:
		return fmt.Sprintf("file %q vs %q", p.File, q.File)
	}
	if len(p.Opts) != len(q.Opts) {
		return fmt.Sprintf("%d options vs %d", len(p.Opts), len(q.Opts))
	}
	for k, v := range p.Opts {
		w, ok := q.Opts[k]
		if !ok {
			return fmt.Sprintf("option %d missing", k)
		}
		if !bytes.Equal(v, w) {
			return fmt.Sprintf("option %d: %x vs %x", k, v, w)
		}
	}
	return ""
}
