import json,subprocess,re
rs=[json.loads(l) for l in open('/verif/mutants/auto/results-s1.jsonl')]
sv=[r for r in rs if r['status'] in('survived','inconclusive')]
OUT=[ # (file regex, func regex) -> category A reason
 (r'netboot/netboot.go', r'RequestNetboot|ConversationToNetconf|GetNetConf', 'A: netboot request loop / netconf extraction result (only "no crash" is claimed for these helpers)'),
 (r'.*', r'(Long)?String$|Summary|FlagsToString|ToString', 'A: text of String/LongString/Summary (no property fixes the wording)'),
 (r'.*', r'IPv4AddrsForInterface|GetExternalIPv4Addrs|NewInformForInterface|NewDiscoveryForInterface|NewRawUDPConn|NewIPv6UDPConn|^New$|^new$|NewWithContext|GenerateTransactionID', 'A: OS interface / socket glue and random-source error paths'),
 (r'.*', r'With(Debug|Summary|Short)?Logger|WithLogDroppedPackets|WithLogger|WithDebugLogger|WithUnicast|WithBroadcastAddr|withBufferCap|WithHWAddr|WithTimeout|WithRetry|InterfaceAddr|RemoteAddr', 'A: client/server configuration options and getters not named by a property'),
 (r'dhcpv6/ztpv6/mellanox.go|dhcpv6/option_nii.go|dhcpv6/types.go|dhcpv4/types.go', r'^$', 'A: enumeration constants used for printing'),
 (r'dhcpv6/duid.go', r'Equal$|DUIDType', 'A: DUID.Equal / type names (no property covers them)'),
 (r'iana/', r'Contains', 'A: Archs.Contains (no property covers it)'),
 (r'dhcpv6/dhcpv6message.go', r'GetTime|NewSolicit', 'A: wall-clock helper / argument validation of a client-side constructor'),
]
def realdiff(r):
    out=subprocess.run(['/verif/tools/automut_show.sh',r['file'],str(r['site'])],capture_output=True,text=True).stdout
    return ' | '.join(l for l in out.splitlines() if l.startswith(('+','-')))[:200]
rows=[]
for r in sv:
    cat=None
    for fre,fnre,why in OUT:
        if re.search(fre,r['file']) and re.search(fnre,r['func'] or ''):
            cat=why;break
    rows.append((r,cat))
for r,cat in rows:
    if cat is None:
        print(r['file'],r['site'],'L%d'%r['line'],r['op'],r['func'],'|',realdiff(r))
print(sum(1 for _,c in rows if c), 'auto-classified of', len(rows))

MAN={ # (file, site) -> category
 ('dhcpv4/dhcpv4.go',294):'B: equivalent (falls through to FromBytes(nil), which fails and yields the same nil)',
 ('dhcpv4/nclient4/client.go',6):'A: default constant (properties speak of the configured values)',
 ('dhcpv6/server6/server.go',2):'C: gap closed — a handler invoked with a nil message is now recorded as an unexpected dispatch (was a harness crash: inconclusive)',
 ('dhcpv6/dhcpv6relay.go',17):'B: equivalent (checked type assertion on a nil interface yields the same zero result)',
 ('dhcpv4/dhcpv4.go',2):'B: unused constant',
 ('dhcpv4/nclient4/client.go',41):'B: equivalent (any non-zero value marks the client closed)',
 ('dhcpv6/dhcpv6message.go',118):'A: convenience accessor MessageOptions.NTPServers (no property covers the v6 convenience accessors)',
 ('dhcpv4/nclient4/client.go',151):'B: resource hygiene only (timer stopped early); no observable difference',
 ('dhcpv6/nclient6/client.go',51):'A: log text for dropped packets',
 ('dhcpv6/option_bootfileparam.go',10):'A: parameter of 65,536 octets or more — not representable, outside the encodable domain',
 ('dhcpv4/options.go',38):'B: equivalent (End sorts last anyway and Marshal skips it)',
 ('dhcpv4/option_strings.go',6):'B: equivalent (a lone trailing octet is rejected by FinError either way)',
 ('dhcpv6/dhcpv6relay.go',25):'B: equivalent inside the domain (differs only for net.IP values that are neither 4 nor 16 bytes)',
 ('dhcpv4/nclient4/ipv4.go',46):'B: equivalent (the checksum field is written again after encode)',
 ('dhcpv6/dhcpv6.go',5):'C: gap closed — C05 now checks that MessageFromBytes / RelayMessageFromBytes accept exactly what FromBytes accepts for their message types',
 ('dhcpv4/nclient4/conn_unix.go',18):'C: gap closed — raw connection created without a bound address (nil) in C18 and C03',
 ('dhcpv4/dhcpv4.go',106):'B: equivalent (16 is clipped to 16)',
 ('dhcpv6/nclient6/client.go',53):'A: log text for dropped packets',
 ('dhcpv4/options.go',46):'B: equivalent (Marshal skips the End key)',
 ('dhcpv6/nclient6/client.go',12):'A: default constant',
 ('dhcpv4/nclient4/ipv4.go',11):'B: equivalent (isValid has rejected short frames before)',
 ('rfc1035label/label.go',14):'A: NewLabels helper, not used by the decoders and not named by a property',
 ('dhcpv4/nclient4/conn_unix.go',44):'B: byte count returned together with io.EOF; callers ignore it on error',
 ('dhcpv4/options.go',97):'A: text of Summary with a vendor decoder',
 ('dhcpv6/option_4rd.go',3):'B: equivalent (nil of the checked assertion)',
 ('dhcpv6/server6/server.go',13):'A: socket set-up error path',
 ('dhcpv4/nclient4/client.go',3):'A: default constant',
 ('dhcpv6/nclient6/client.go',47):'A: log text for dropped packets',
 ('dhcpv6/dhcpv6relay.go',1):'B: capacity hint only',
 ('dhcpv6/dhcpv6relay.go',0):'B: capacity hint only',
 ('dhcpv6/nclient6/client.go',78):'B: unreachable error path (NewSolicit cannot fail for the client hardware address)',
 ('dhcpv4/option_vivc.go',1):'B: equivalent (a 4-octet remainder is rejected either way)',
 ('dhcpv4/nclient4/client.go',111):'A: Client.Inform (not part of the exchange rules C13 states)',
 ('dhcpv6/dhcpv6message.go',101):'B: equivalent (checked assertion on nil)',
 ('dhcpv4/option_subnet_mask.go',0):'A: masks longer than 4 bytes are outside the DHCPv4 domain',
 ('dhcpv6/server6/server.go',23):'A: socket set-up error path',
 ('dhcpv6/dhcpv6message.go',173):'A: elapsed-time option of the REQUEST builder (C16 states ids, IAs and transaction id only)',
 ('dhcpv4/nclient4/lease.go',1):'B: unreachable error path',
 ('dhcpv6/nclient6/client.go',41):'A: log line on read errors',
 ('dhcpv4/dhcpv4.go',4):'B: unused constant', ('dhcpv4/dhcpv4.go',5):'B: unused constant',
 ('dhcpv4/nclient4/ipv4.go',14):'B: equivalent (any negative value means "not IPv4")',
 ('dhcpv6/nclient6/client.go',37):'B: a 1501-byte read buffer reads every datagram of up to 1500 bytes identically',
 ('dhcpv4/dhcpv4.go',159):'C: gap closed — C04 now checks IsBroadcast/IsUnicast against the top bit of the flags field for every reserved-bit pattern',
 ('dhcpv6/nclient6/client.go',100):'B: equivalent (nobody receives from the channel after the call has returned)',
 ('dhcpv4/ztpv4/ztp.go',7):'C: gap closed — vendor dictionary now holds "prefix + exactly k fields" for every k and separator (three-field Arista string panics)',
 ('dhcpv4/dhcpv4.go',0):'B: capacity hint only',
 ('dhcpv4/nclient4/ipv4.go',3):'C: gap closed — C18 reads into a buffer exactly as long as the payload behind a 60-byte IP header',
 ('dhcpv4/nclient4/lease.go',7):'A: log line after a successful release',
 ('dhcpv4/modifiers.go',16):'B: equivalent (BootRequest is already the default opcode of a new packet)',
 ('dhcpv6/dhcpv6message.go',58):'B: equivalent (checked assertion on nil)',
 ('dhcpv4/nclient4/ipv4.go',12):'B: equivalent (isValid has rejected short frames before)',
 ('dhcpv4/nclient4/ipv4.go',13):'B: equivalent (isValid has rejected short frames before)',
 ('dhcpv4/nclient4/ipv4.go',135):'B: capacity hint only',
 ('dhcpv6/dhcpv6message.go',37):'B: equivalent (checked assertion on nil)', ('dhcpv6/dhcpv6message.go',48):'B: equivalent (checked assertion on nil)',
 ('dhcpv4/nclient4/conn_unix.go',33):'C: gap closed — consistent IP packets too short to hold a UDP header (C18 frame kind 11, C03)',
 ('dhcpv6/dhcpv6message.go',76):'B: equivalent (checked assertion on nil)',
 ('dhcpv4/nclient4/client.go',37):'C: gap closed — C11 requires that the receive loop\'s read has returned by the time Close returns',
 ('dhcpv4/nclient4/lease.go',0):'A: nil lease argument (outside the domain)',
 ('dhcpv6/option_iaaddress.go',1):'B: equivalent (checked assertion on nil)',
 ('dhcpv4/nclient4/client.go',95):'B: unreachable error path',
}
out=[]
cnt={}
for r,cat in rows:
    if cat is None:
        cat=MAN.get((r['file'],r['site']))
    assert cat, (r['file'],r['site'])
    cnt[cat[0]]=cnt.get(cat[0],0)+1
    out.append((r['file'],r['line'],r['site'],r['op'],r['func'],realdiff(r),cat))
out.sort()
with open('/verif/mutants/auto/TRIAGE.md','w') as f:
    f.write('# Triage of the mutants that survived the automatic campaign (tools/automut.py --sample 700 --seed 1)\n\n')
    f.write("700 sampled mutants: 53 did not build, 421 are caught by the repository's own test suite, 89 were killed by a mapped check, 137 reached the end of their check list (136 survived, 1 inconclusive).\n")
    f.write('Categories: **A** outside every listed property (%d), **B** equivalent mutant (%d), **C** a real gap of the harness, closed since (%d; each re-run and killed).\n\n' % (cnt.get('A',0),cnt.get('B',0),cnt.get('C',0)))
    f.write('| file:line | site | operator | function | change | verdict |\n|---|---|---|---|---|---|\n')
    for fl,ln,site,op,fn,d,cat in out:
        f.write('| %s:%d | %d | %s | %s | `%s` | %s |\n' % (fl,ln,site,op,fn or '-',d.replace('|','¦').replace('`',"'")[:110],cat))
print(cnt)
