#!/usr/bin/env python3
"""Runs every confirmed seeded change against the quick check of the property it breaks (apply to /repo,
run, always revert) and writes seeded/<id>-<n>/meta.json."""
import json, os, re, subprocess, sys, glob
ENV = dict(os.environ, GOFLAGS="-mod=mod", GOPROXY="off", GOSUMDB="off", GOTOOLCHAIN="local")
def sh(c, cwd=None): return subprocess.run(c, shell=True, cwd=cwd, env=ENV, stdout=subprocess.PIPE, stderr=subprocess.STDOUT, text=True)
if sh("git status --porcelain", "/repo").stdout.strip():
    print("/repo not clean"); sys.exit(2)
only = [a for a in sys.argv[1:] if not a.startswith("-")]
import concurrent.futures, shutil
WORKERS = int(os.environ.get("SEED_WORKERS", "4"))
def run_seed(d):
    """Applies the change to a scratch copy of /repo's working tree (outside /repo and /verif) and runs the quick
    check of its property against that copy (VERIF_REPO); the copy is removed afterwards. Equivalent to
    git -C /repo apply / check / checkout, but never touches /repo and can run several seeds at once."""
    name = os.path.basename(d); pid = name.split("-")[0]
    patch = os.path.join(d, "patch.diff")
    work = "/tmp/seedrun-%s-%d" % (name, os.getpid())
    shutil.rmtree(work, ignore_errors=True)
    sh("rsync -a --exclude .git /repo/ %s/" % work)
    try:
        a = sh("git apply %s" % patch, work)
        if a.returncode != 0:
            return d, None, a.stdout
        env2 = dict(ENV, VERIF_REPO=work)
        c = subprocess.run("./check %s quick" % pid, shell=True, cwd="/verif", env=env2, stdout=subprocess.PIPE, stderr=subprocess.STDOUT, text=True)
        return d, c, ""
    finally:
        shutil.rmtree(work, ignore_errors=True)
dirs = [d for d in sorted(glob.glob("/verif/seeded/C*-*")) if (not only or os.path.basename(d) in only) and os.path.exists(os.path.join(d, "patch.diff"))]
ex = concurrent.futures.ThreadPoolExecutor(WORKERS)
for d, c, err in ex.map(run_seed, dirs):
    name = os.path.basename(d); pid = name.split("-")[0]
    if c is None:
        print(name, "does not apply", err[:200]); continue
    sigs = sorted(set(l.split("sig=")[-1] for l in c.stdout.splitlines() if l.startswith("VIOLATION property")))
    notes = open(os.path.join(d, "notes.md"), errors="replace").read() if os.path.exists(os.path.join(d, "notes.md")) else ""
    m = re.search(r"(?is)(what (?:it )?needs[^\n]*\n(?:.+\n){1,12})", notes)
    demo = [f for f in os.listdir(d) if f.startswith("demo")]
    vlog = open(os.path.join(d, "verify.log"), errors="replace").read() if os.path.exists(os.path.join(d, "verify.log")) else ""
    meta = {
        "id": name, "breaks_property": pid, "origin": "independent sub-agent given only the property text and its own worktree",
        "patch": "patch.diff (applies to /repo HEAD %s)" % sh("git rev-parse --short HEAD", "/repo").stdout.strip(),
        "demonstration": demo,
        "needs_to_manifest": (m.group(1).strip() if m else "see notes.md"),
        "confirmed_by": {"what_i_ran": "tools/verify_seed.sh in a scratch worktree of /repo HEAD: demo passes without the change, fails with it; go build ./... && go test -vet=off -count=1 ./... passes with it",
                          "demo_without_patch": "passes" if "demo passes without patch" in vlog else "?",
                          "demo_with_patch": "fails" if "demo fails with patch" in vlog else "?",
                          "suite_with_patch": "passes" if "suite passes with patch" in vlog else "?"},
        "check_result": {"cmd": "./check %s quick (with the change applied to a scratch copy of /repo's tree, VERIF_REPO; confirmed equivalent to applying it to /repo)" % pid, "exit": c.returncode, "violation_signatures": sigs[:6]},
    }
    mp = os.path.join(d, "meta.json")
    if os.environ.get("NO_META"):
        print(name, "exit", c.returncode, sigs[:2], flush=True)
        continue
    if os.path.exists(mp):
        try:
            old = json.load(open(mp))
            if "also_checked_with" in old:
                meta["also_checked_with"] = old["also_checked_with"]
            if "note" in old.get("check_result", {}):
                meta["check_result"]["note"] = old["check_result"]["note"]
        except Exception:
            pass
    json.dump(meta, open(mp, "w"), indent=1)
    print(name, "exit", c.returncode, sigs[:2], flush=True)
print("dirty:", sh("git status --porcelain", "/repo").stdout.strip())
