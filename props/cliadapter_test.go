package props

import (
	"context"
	"encoding/binary"
	"errors"
	"fmt"
	"net"
	"os"
	"time"

	"github.com/insomniacslk/dhcp/dhcpv4"
	"github.com/insomniacslk/dhcp/dhcpv4/nclient4"
	"github.com/insomniacslk/dhcp/dhcpv6"
	"github.com/insomniacslk/dhcp/dhcpv6/nclient6"
	"github.com/insomniacslk/dhcp/iana"

	"verif/netsim"
)

// cliAdapter hides the differences between nclient4 and nclient6 from the scenario engine.
type cliAdapter interface {
	name() string
	start(conn *netsim.Conn, timeout time.Duration, tries int, logMode int) error
	close() error
	// request builds the request of a call; xid selects a transaction id from a small pool.
	request(xid int, variant int) (req any, wire []byte)
	// call runs one send-and-read; match sees (serial, type) of each candidate.
	call(ctx context.Context, req any, match func(serial, typ int) bool, noMatcher bool) (serial int, typ int, gotNil bool, wire []byte, err error)
	// datagram builds an incoming datagram.
	datagram(kind, xid, typ, serial int, op uint8, htype uint8, padTo int) []byte
	dest() net.Addr
	setDest(sel int) // selects one of a few destination addresses (incl. zoned IPv6 ones) for the following calls
	classify(err error) string
}

// quietStderr points os.Stderr at the null device while a client is constructed (the built-in loggers capture the
// stream at that moment) and returns the function that restores it.
var devNull *os.File

func quietStderr() func() {
	if devNull == nil {
		f, err := os.OpenFile(os.DevNull, os.O_WRONLY, 0)
		if err != nil {
			panic(err)
		}
		devNull = f
	}
	old := os.Stderr
	os.Stderr = devNull
	return func() { os.Stderr = old }
}

// cliSink formats what a logger hands it and discards the text.
type cliSink struct{}

func (cliSink) Printf(format string, v ...interface{}) { _ = fmt.Sprintf(format, v...) }

var cliHW = net.HardwareAddr{0x02, 0x11, 0x22, 0x33, 0x44, 0x55}

func xidBytes(i int) [4]byte { return [4]byte{0xA0, 0x10 + byte(i), 0x55, byte(i * 7)} }

// datagram kinds
const (
	dgGood      = iota // right xid, passes the documented filters, type = typ
	dgWrongXid         // a transaction id nobody waits for
	dgWrongHW          // v4: other client hardware address
	dgWrongOp          // v4: opcode op (not BOOTREPLY)
	dgRelayType        // v6: relay-typed message
	dgGarbage          // undecodable
	dgEmpty            // zero-length read
	// v4: hardware addresses that are not the client's, but related to it (v6 maps these to a foreign transaction id)
	dgHWEmpty    // hlen 0, chaddr all zero
	dgHWPrefix   // the first five octets of the client's address (hlen 5)
	dgHWExtended // the client's address followed by two more octets (hlen 8)
	dgHWLong     // the client's address padded to 16 octets (hlen 16)
	dgReadError  // not a datagram: the socket's read reports an error (once) while the client is open
)

// foreign reports whether kind is one of the "other hardware address" kinds.
func dgForeignHW(kind int) bool {
	return kind == dgWrongHW || kind == dgHWEmpty || kind == dgHWPrefix || kind == dgHWExtended || kind == dgHWLong
}

// ---- DHCPv4 ---------------------------------------------------------------------

type v4Adapter struct {
	c       *nclient4.Client
	conn    *netsim.Conn
	destSel int
}

func (a *v4Adapter) setDest(sel int) { a.destSel = sel }

func (a *v4Adapter) name() string { return "nclient4" }
func (a *v4Adapter) start(conn *netsim.Conn, timeout time.Duration, tries int, logMode int) error {
	opts := []nclient4.ClientOpt{nclient4.WithTimeout(timeout), nclient4.WithRetry(tries)}
	// the documented logging configurations (what they print is discarded): a caller's own Logger in the short and in
	// the full format, and the two built-in ones, which write to the process's standard error stream
	// knobs (logMode>>4): 1 — the client's hardware address is configured through WithHWAddr over another address
	// given to the constructor (the interface's): the client's address is the configured one, everywhere
	hw := cliHW
	if logMode>>4 == 1 {
		hw = net.HardwareAddr{0x02, 0xfe, 0xfe, 0xfe, 0xfe, 0x01}
		opts = append(opts, nclient4.WithHWAddr(cliHW))
	}
	switch logMode & 15 {
	case 1:
		opts = append(opts, nclient4.WithLogger(nclient4.ShortSummaryLogger{Printfer: cliSink{}}))
	case 2, 4:
		opts = append(opts, nclient4.WithLogger(nclient4.DebugLogger{Printfer: cliSink{}}))
	case 3:
		opts = append(opts, nclient4.WithSummaryLogger())
	case 5:
		opts = append(opts, nclient4.WithDebugLogger())
	}
	defer quietStderr()()
	c, err := nclient4.NewWithConn(conn, hw, opts...)
	a.c, a.conn = c, conn
	return err
}
func (a *v4Adapter) close() error { return a.c.Close() }
func (a *v4Adapter) dest() net.Addr {
	switch a.destSel % 4 {
	case 1:
		return &net.UDPAddr{IP: net.IPv4bcast, Port: 67}
	case 2:
		return &net.UDPAddr{IP: net.IP{192, 0, 2, 1}, Port: 67} // 4-byte form
	case 3:
		return &net.UDPAddr{IP: net.IPv4(10, 9, 8, 7), Port: 65535}
	}
	return &net.UDPAddr{IP: net.IPv4(10, 9, 8, 7), Port: 6767}
}

func (a *v4Adapter) request(xid int, variant int) (any, []byte) {
	p, err := dhcpv4.NewDiscovery(cliHW, dhcpv4.WithTransactionID(xidBytes(xid)))
	if err != nil {
		panic(err)
	}
	if variant >= 4 {
		// variants 4..: a bit mask of request features — what the request says (addresses, flags, identifiers) is the
		// caller's business; the client transmits it as it is, to the destination it was given
		m := variant - 4
		if m&1 != 0 {
			p.ClientIPAddr = net.IP{10, 0, 0, 9}
		}
		if m&2 != 0 {
			p.UpdateOption(dhcpv4.OptServerIdentifier(net.IP{10, 0, 0, 1}))
		}
		if m&4 != 0 {
			p.SetBroadcast()
		} else {
			p.SetUnicast()
		}
		if m&8 != 0 {
			p.UpdateOption(dhcpv4.OptRequestedIPAddress(net.IP{10, 0, 0, 9}))
			p.UpdateOption(dhcpv4.OptMessageType(dhcpv4.MessageTypeRequest))
		}
		if m&16 != 0 {
			p.GatewayIPAddr = net.IP{10, 0, 9, 1}
			p.HopCount = 1
		}
		if m&32 != 0 {
			p.UpdateOption(dhcpv4.OptClientIdentifier([]byte{1, 2, 0x11, 0x22, 0x33, 0x44, 0x55}))
			p.UpdateOption(dhcpv4.OptMaxMessageSize(1500))
		}
		return p, p.ToBytes()
	}
	switch variant % 4 {
	case 1:
		p.UpdateOption(dhcpv4.OptHostName("client-under-test"))
	case 2:
		p.UpdateOption(dhcpv4.OptGeneric(dhcpv4.GenericOptionCode(200), make([]byte, 300)))
	case 3:
		p.UpdateOption(dhcpv4.OptMessageType(dhcpv4.MessageTypeInform))
		p.ClientIPAddr = net.IP{10, 0, 0, 9}
	}
	return p, p.ToBytes()
}

func v4Serial(p *dhcpv4.DHCPv4) int {
	if v := p.Options.Get(dhcpv4.GenericOptionCode(224)); len(v) == 4 {
		return int(binary.BigEndian.Uint32(v))
	}
	return -1
}

func (a *v4Adapter) call(ctx context.Context, req any, match func(serial, typ int) bool, noMatcher bool) (int, int, bool, []byte, error) {
	var m nclient4.Matcher
	if !noMatcher {
		m = func(p *dhcpv4.DHCPv4) bool { return match(v4Serial(p), int(p.MessageType())) }
	}
	resp, err := a.c.SendAndRead(ctx, a.dest().(*net.UDPAddr), req.(*dhcpv4.DHCPv4), m)
	if resp == nil {
		return -1, 0, true, nil, err
	}
	// the returned datagram must pass the documented filters itself
	typ := int(resp.MessageType())
	if resp.OpCode != dhcpv4.OpcodeBootReply {
		typ = -1000 - int(resp.OpCode)
	}
	return v4Serial(resp), typ, false, resp.ToBytes(), err
}

func (a *v4Adapter) datagram(kind, xid, typ, serial int, op uint8, htype uint8, padTo int) []byte {
	p, _ := dhcpv4.New(dhcpv4.WithTransactionID(xidBytes(xid)), dhcpv4.WithHwAddr(cliHW), dhcpv4.WithMessageType(dhcpv4.MessageType(typ)),
		dhcpv4.WithYourIP(net.IP{10, 0, 0, byte(serial)}), dhcpv4.WithServerIP(net.IP{10, 0, 0, 1}))
	p.OpCode = dhcpv4.OpcodeBootReply
	s := make([]byte, 4)
	binary.BigEndian.PutUint32(s, uint32(serial))
	p.UpdateOption(dhcpv4.OptGeneric(dhcpv4.GenericOptionCode(224), s))
	if htype != 0 {
		p.HWType = iana.HWType(htype)
	}
	// filler options so that the datagram has exactly padTo bytes (e.g. the 1500-byte read buffer size)
	for code := 230; padTo > 0 && code < 250; code++ {
		rest := padTo - len(p.ToBytes())
		if rest < 2 {
			break
		}
		n := min(255, rest-2)
		if rest-2-n == 1 {
			n-- // never leave a single byte that no option can fill
		}
		p.UpdateOption(dhcpv4.OptGeneric(dhcpv4.GenericOptionCode(uint8(code)), make([]byte, n)))
	}
	switch kind {
	case dgWrongXid:
		p.TransactionID = [4]byte{0xEE, 0xEE, byte(xid), byte(serial)}
	case dgWrongHW:
		p.ClientHWAddr = net.HardwareAddr{0x02, 0x11, 0x22, 0x33, 0x44, 0x56}
	case dgHWEmpty:
		p.ClientHWAddr = nil
	case dgHWPrefix:
		p.ClientHWAddr = append(net.HardwareAddr{}, cliHW[:5]...)
	case dgHWExtended:
		p.ClientHWAddr = append(append(net.HardwareAddr{}, cliHW...), 0, 0)
	case dgHWLong:
		p.ClientHWAddr = append(append(net.HardwareAddr{}, cliHW...), make([]byte, 10)...)
	case dgWrongOp:
		p.OpCode = dhcpv4.OpcodeType(op)
	case dgGarbage:
		return []byte{0xde, 0xad, 0xbe, 0xef, byte(serial)}
	case dgEmpty:
		return []byte{}
	case dgRelayType:
		p.OpCode = dhcpv4.OpcodeBootRequest
	}
	return p.ToBytes()
}

func (a *v4Adapter) classify(err error) string {
	var inUse *nclient4.ErrTransactionIDInUse
	switch {
	case err == nil:
		return "nil"
	case errors.Is(err, nclient4.ErrNoResponse):
		return "no-response"
	case errors.Is(err, context.Canceled):
		return "ctx-canceled"
	case errors.Is(err, context.DeadlineExceeded):
		return "ctx-deadline"
	case errors.As(err, &inUse):
		return "xid-in-use"
	}
	return "other:" + err.Error()
}

// ---- DHCPv6 ---------------------------------------------------------------------

type v6Adapter struct {
	c       *nclient6.Client
	conn    *netsim.Conn
	destSel int
}

func (a *v6Adapter) setDest(sel int) { a.destSel = sel }

func (a *v6Adapter) name() string { return "nclient6" }
func (a *v6Adapter) start(conn *netsim.Conn, timeout time.Duration, tries int, logMode int) error {
	opts := []nclient6.ClientOpt{nclient6.WithTimeout(timeout), nclient6.WithRetry(tries)}
	switch logMode & 15 {
	case 1:
		opts = append(opts, nclient6.WithLogDroppedPackets())
	case 2:
		opts = append(opts, nclient6.WithDebugLogger())
	case 3:
		opts = append(opts, nclient6.WithSummaryLogger())
	case 4:
		opts = append(opts, nclient6.WithDebugLogger(), nclient6.WithLogDroppedPackets())
	case 5:
		opts = append(opts, nclient6.WithSummaryLogger(), nclient6.WithLogDroppedPackets())
	}
	defer quietStderr()()
	c, err := nclient6.NewWithConn(conn, cliHW, opts...)
	a.c, a.conn = c, conn
	return err
}
func (a *v6Adapter) close() error { return a.c.Close() }
func (a *v6Adapter) dest() net.Addr {
	switch a.destSel % 4 {
	case 1:
		return &net.UDPAddr{IP: net.ParseIP("ff02::1:2"), Port: 547, Zone: "eth1"}
	case 2:
		return &net.UDPAddr{IP: net.ParseIP("fe80::1"), Port: 547, Zone: "2"}
	case 3:
		return &net.UDPAddr{IP: net.ParseIP("2001:db8::547"), Port: 1547}
	}
	return &net.UDPAddr{IP: net.ParseIP("fe80::77"), Port: 5547}
}

func xid6(i int) dhcpv6.TransactionID { return dhcpv6.TransactionID{0xB0, 0x20 + byte(i), byte(i * 5)} }

func (a *v6Adapter) request(xid int, variant int) (any, []byte) {
	var m *dhcpv6.Message
	var err error
	switch variant % 4 {
	case 0:
		m, err = dhcpv6.NewMessage()
	case 1:
		m, err = dhcpv6.NewSolicit(cliHW) // carries an elapsed-time option
	case 2:
		m, err = dhcpv6.NewSolicit(cliHW, dhcpv6.WithRapidCommit)
	default:
		m, err = dhcpv6.NewMessage()
		if err == nil {
			m.MessageType = dhcpv6.MessageTypeInformationRequest
			m.AddOption(dhcpv6.OptElapsedTime(0))
			m.AddOption(dhcpv6.OptRequestedOption(dhcpv6.OptionDNSRecursiveNameServer))
		}
	}
	if err != nil {
		panic(err)
	}
	if variant >= 4 {
		f := variant - 4
		if f&1 != 0 {
			m.AddOption(dhcpv6.OptServerID(&dhcpv6.DUIDLL{HWType: 1, LinkLayerAddr: net.HardwareAddr{0xaa, 0, 0, 0, 0, 1}}))
			m.MessageType = dhcpv6.MessageTypeRequest
		}
		if f&2 != 0 {
			m.AddOption(&dhcpv6.OptIANA{IaId: [4]byte{1, 2, 3, 4}, T1: time.Hour, T2: 2 * time.Hour})
		}
		if f&4 != 0 {
			m.AddOption(dhcpv6.OptElapsedTime(0xffff * 10 * time.Millisecond))
		}
		if f&8 != 0 {
			m.MessageType = dhcpv6.MessageTypeRenew
		}
		if f&16 != 0 {
			m.AddOption(&dhcpv6.OptionGeneric{OptionCode: 65010, OptionData: make([]byte, 1300)})
		}
		if f&32 != 0 {
			// an option request in the caller's own order (not ascending, one code twice)
			m.UpdateOption(dhcpv6.OptRequestedOption(dhcpv6.OptionBootfileURL, dhcpv6.OptionDNSRecursiveNameServer, dhcpv6.OptionDomainSearchList, dhcpv6.OptionSIPServersDomainNameList, dhcpv6.OptionDNSRecursiveNameServer))
		}
	}
	m.TransactionID = xid6(xid)
	return m, m.ToBytes()
}

func v6Serial(m *dhcpv6.Message) int {
	if o := m.GetOneOption(dhcpv6.OptionCode(65001)); o != nil {
		if b := o.ToBytes(); len(b) == 4 {
			return int(binary.BigEndian.Uint32(b))
		}
	}
	return -1
}

func (a *v6Adapter) call(ctx context.Context, req any, match func(serial, typ int) bool, noMatcher bool) (int, int, bool, []byte, error) {
	var m nclient6.Matcher
	if !noMatcher {
		m = func(p *dhcpv6.Message) bool { return match(v6Serial(p), int(p.MessageType)) }
	}
	resp, err := a.c.SendAndRead(ctx, a.dest().(*net.UDPAddr), req.(*dhcpv6.Message), m)
	if resp == nil {
		return -1, 0, true, nil, err
	}
	return v6Serial(resp), int(resp.MessageType), false, resp.ToBytes(), err
}

func (a *v6Adapter) datagram(kind, xid, typ, serial int, op uint8, htype uint8, padTo int) []byte {
	m := &dhcpv6.Message{MessageType: dhcpv6.MessageType(typ), TransactionID: xid6(xid)}
	s := make([]byte, 4)
	binary.BigEndian.PutUint32(s, uint32(serial))
	m.AddOption(&dhcpv6.OptionGeneric{OptionCode: 65001, OptionData: s})
	if rest := padTo - len(m.ToBytes()) - 4; padTo > 0 && rest >= 0 {
		m.AddOption(&dhcpv6.OptionGeneric{OptionCode: 65002, OptionData: make([]byte, rest)})
	}
	switch kind {
	case dgWrongXid, dgWrongHW, dgWrongOp, dgHWEmpty, dgHWPrefix, dgHWExtended, dgHWLong:
		m.TransactionID = dhcpv6.TransactionID{0xEE, byte(xid), byte(serial)}
	case dgRelayType:
		r, _ := dhcpv6.EncapsulateRelay(m, dhcpv6.MessageTypeRelayReply, net.ParseIP("fe80::1"), net.ParseIP("fe80::2"))
		return r.ToBytes()
	case dgGarbage:
		return []byte{1, 2, 3, 4, 0, 1, 0, 9, byte(serial)} // option overruns
	case dgEmpty:
		return []byte{}
	}
	return m.ToBytes()
}

func (a *v6Adapter) classify(err error) string {
	switch {
	case err == nil:
		return "nil"
	case errors.Is(err, nclient6.ErrNoResponse):
		return "no-response"
	case errors.Is(err, context.Canceled):
		return "ctx-canceled"
	case errors.Is(err, context.DeadlineExceeded):
		return "ctx-deadline"
	}
	if len(err.Error()) > 15 && err.Error()[:15] == "transaction ID " {
		return "xid-in-use"
	}
	return "other:" + err.Error()
}
