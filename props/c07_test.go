package props

import (
	"bytes"
	"fmt"
	"sort"
	"testing"

	"github.com/insomniacslk/dhcp/dhcpv4"
	"pgregory.net/rapid"

	"verif/gen"
	"verif/obs"
	"verif/ref/refv4"
)

// C07 — DHCPv4 encoding is deterministic, canonical and readable by any RFC decoder.

// A construction program reaches the final option content of Base in a given way.
type c07Prog struct {
	Kind  int   `json:"kind"`  // 0 map literal, 1 UpdateOption, 2 OptionsFromList, 3 New(With...) modifiers, 4 encode half, decode, add the rest, 5 wrong values first, encode, then corrected through the exported map (same number of options)
	Order []int `json:"order"` // permutation of option indices
	Junk  []int `json:"junk"`  // positions at which a junk update+delete (or overwritten update) is interleaved
	// PadEnd: bit 0 / bit 1: the Options map also holds the Pad key (0) / the End key (255) with some value. They are
	// framing, not options: the encoder skips them (dhcpv4/options.go Marshal), so they change nothing on the wire.
	PadEnd int `json:"pad_end,omitempty"`
	// MidEncode: ToBytes is also called after every construction step (an encoding taken early must not pin the result)
	MidEncode bool `json:"mid_encode,omitempty"`
	// HWRepr: how the hardware address is spelled: 1 a window of a larger array with foreign octets behind it
	// (capacity ≥ 16), 2 nil when it is empty, 3 the 6..16 octets in an array of exactly 16
	HWRepr int `json:"hw_repr,omitempty"`
}

type c07Case struct {
	Base  gen.V4Case `json:"base"`
	Progs []c07Prog  `json:"progs"`
}

func c07Build(c gen.V4Case, pr c07Prog) *dhcpv4.DHCPv4 {
	p := c07Build0(c, pr)
	switch n := len(p.ClientHWAddr); {
	case pr.HWRepr == 1 && n > 0:
		big := bytes.Repeat([]byte{0xEE}, n+24)
		copy(big, p.ClientHWAddr)
		p.ClientHWAddr = big[:n]
	case pr.HWRepr == 2 && n == 0:
		p.ClientHWAddr = nil
	case pr.HWRepr == 3 && n > 0 && n <= 16:
		big := bytes.Repeat([]byte{0xDD}, 16)
		copy(big, p.ClientHWAddr)
		p.ClientHWAddr = big[:n]
	}
	return p
}

func c07Build0(c gen.V4Case, pr c07Prog) *dhcpv4.DHCPv4 {
	p := c.Lib()
	p.Options = dhcpv4.Options{}
	junkAt := map[int]bool{}
	for _, j := range pr.Junk {
		junkAt[j] = true
	}
	used := map[uint8]bool{}
	for _, o := range c.Opts {
		used[o.Code] = true
	}
	junkCode := uint8(0)
	for k := 1; k < 255; k++ {
		if !used[uint8(k)] {
			junkCode = uint8(k)
			break
		}
	}
	opt := func(i int) dhcpv4.Option {
		if c.Opts[i].Code == 82 && pr.Kind != 0 {
			if subs, ok := canonicalRAI(c.Opts[i].Val); ok {
				return dhcpv4.OptRelayAgentInfo(subs...) // the typed constructor (encodes through Options.ToBytes)
			}
		}
		return dhcpv4.OptGeneric(dhcpv4.GenericOptionCode(c.Opts[i].Code), append([]byte{}, c.Opts[i].Val...))
	}
	mid := func() {
		if pr.MidEncode {
			_ = p.ToBytes()
		}
	}
	switch pr.Kind {
	case 0:
		for _, i := range pr.Order {
			p.Options[c.Opts[i].Code] = append([]byte{}, c.Opts[i].Val...)
			mid()
		}
	case 5:
		// every option present from the start with a wrong value (and one junk option in place of the last one);
		// the packet is encoded; then the values are corrected through the exported map, the number of options
		// staying the same throughout
		for n, i := range pr.Order {
			if n == len(pr.Order)-1 && junkCode != 0 {
				p.Options[junkCode] = []byte("junk")
				continue
			}
			p.Options[c.Opts[i].Code] = []byte{0xAA, byte(n)}
		}
		_ = p.ToBytes()
		for n, i := range pr.Order {
			if n == len(pr.Order)-1 && junkCode != 0 {
				delete(p.Options, junkCode)
			}
			if n%2 == 0 {
				p.Options[c.Opts[i].Code] = append([]byte{}, c.Opts[i].Val...)
			} else {
				p.Options.Update(opt(i))
			}
			mid()
		}
	case 1:
		if pr.MidEncode && len(pr.Order) > 0 {
			p.Options = nil // a packet whose option map was never made: UpdateOption makes it
		}
		for n, i := range pr.Order {
			if junkAt[n] {
				if junkCode != 0 {
					p.UpdateOption(dhcpv4.OptGeneric(dhcpv4.GenericOptionCode(junkCode), []byte("junk")))
				}
				// a first, wrong value that is overwritten afterwards
				p.UpdateOption(dhcpv4.OptGeneric(dhcpv4.GenericOptionCode(c.Opts[i].Code), []byte{0xAA, 0xBB}))
			}
			p.UpdateOption(opt(i))
			if junkAt[n] && junkCode != 0 {
				p.DeleteOption(dhcpv4.GenericOptionCode(junkCode))
			}
			mid()
		}
	case 2:
		var l []dhcpv4.Option
		for _, i := range pr.Order {
			l = append(l, opt(i))
		}
		p.Options = dhcpv4.OptionsFromList(l...)
	case 3:
		var mods []dhcpv4.Modifier
		for n, i := range pr.Order {
			if junkAt[n] && junkCode != 0 {
				mods = append(mods, dhcpv4.WithGeneric(dhcpv4.GenericOptionCode(junkCode), []byte{1}))
			}
			mods = append(mods, dhcpv4.WithOption(opt(i)))
			if junkAt[n] && junkCode != 0 {
				mods = append(mods, dhcpv4.WithoutOption(dhcpv4.GenericOptionCode(junkCode)))
			}
		}
		q, err := dhcpv4.New(mods...)
		if err != nil {
			panic(err)
		}
		p.Options = q.Options
	case 4:
		half := len(pr.Order) / 2
		for _, i := range pr.Order[:half] {
			p.UpdateOption(opt(i))
		}
		q, err := dhcpv4.FromBytes(p.ToBytes())
		if err != nil {
			panic(fmt.Sprintf("decode of own encoding failed: %v", err))
		}
		// header fields of the decoded packet are kept; addresses become 4-byte form
		p = q
		for _, i := range pr.Order[half:] {
			p.UpdateOption(opt(i))
			mid()
		}
	}
	if p.Options == nil {
		p.Options = dhcpv4.Options{}
	}
	if pr.PadEnd&1 != 0 {
		p.Options[0] = []byte{1, 2, 3}
	}
	if pr.PadEnd&2 != 0 {
		p.Options[255] = []byte{9}
	}
	return p
}

var c07 = newChk("C07", "canonical",
	"generated DHCPv4 packets (C01 domain) built by several construction programs (map literal, UpdateOption in a permuted order with interleaved junk add/overwrite/delete, OptionsFromList, New(With…) modifiers, decode-then-edit); each encoding is validated by the independent wire validator, decoded by the independent decoder and compared with the model, and all programs and 8 repeated encodings must give identical bytes; non-trivial = ≥3 options and ≥2 programs; distinct by hash of the encoding",
	func(rec *obs.Rec, c c07Case) *obs.Fail {
		want := c.Base.Ref()
		var first []byte
		var p0 *dhcpv4.DHCPv4
		for pi, pr := range c.Progs {
			p := c07Build(c.Base, pr)
			if pi == 0 {
				p0 = p
			} else {
				// an unrelated packet is built and encoded in between (other contents through the same code paths)
				decoy, _ := dhcpv4.New(dhcpv4.WithOption(dhcpv4.OptRelayAgentInfo(dhcpv4.OptGeneric(dhcpv4.GenericOptionCode(1), []byte("decoy-circuit-id-0123456789")))), dhcpv4.WithGeneric(dhcpv4.GenericOptionCode(200), bytes.Repeat([]byte{0xEE}, 300)))
				_ = decoy.ToBytes()
				_ = decoy.Options.ToBytes()
			}
			var enc []byte
			for rep := 0; rep < 8; rep++ {
				e := p.ToBytes()
				if rep == 0 {
					enc = e
				} else if !bytes.Equal(e, enc) {
					return obs.Failf("C07/nondeterministic/repeat", "identical bytes on every ToBytes call", "call %d differs: %x vs %x", rep, clipb(e[240:]), clipb(enc[240:]))
				}
			}
			if msg := refv4.Validate(enc); msg != "" {
				return obs.Failf("C07/layout/"+layoutKey(msg), "canonical RFC layout", "%s (program kind %d) options area %x", msg, pr.Kind, clipb(enc[min(240, len(enc)):]))
			}
			got, why := refv4.Decode(enc)
			if why != refv4.OK {
				return obs.Failf("C07/unreadable", "independent decoder accepts", "rejected: %s", why)
			}
			if f := cmpRefRef("C07", want, got); f != nil {
				return f
			}
			if pi == 0 {
				first = enc
			} else if !bytes.Equal(first, enc) {
				return obs.Failf("C07/nondeterministic/order", "identical bytes for equal contents", "program %d (kind %d) differs from program 0", pi, pr.Kind)
			}
			// Options.ToBytes (used for nested option lists) must be deterministic and ordered as well
			ob := p.Options.ToBytes()
			for rep := 0; rep < 4; rep++ {
				if !bytes.Equal(ob, p.Options.ToBytes()) {
					return obs.Failf("C07/nondeterministic/options-tobytes", "identical bytes on every Options.ToBytes call", "differs")
				}
			}
		}
		// the first packet, built before all the others, still encodes to the same bytes
		if p0 != nil {
			if e := p0.ToBytes(); !bytes.Equal(e, first) {
				return obs.Failf("C07/nondeterministic/after-other-encodings", "a packet encodes to the same bytes after other packets were built and encoded", "differs at byte %d", firstDiff(e, first))
			}
		}
		has82, long := false, false
		for _, o := range c.Base.Opts {
			if o.Code == 82 {
				has82 = true
			}
			if len(o.Val) > 255 {
				long = true
			}
		}
		if has82 {
			rec.Class("has option 82")
		}
		if long {
			rec.Class("has >255-byte value")
		}
		if len(first) > 300 {
			rec.Class("longer than 300 (no padding)")
		} else {
			rec.Class("padded to 300")
		}
		if len(c.Base.Opts) >= 3 && len(c.Progs) >= 2 {
			rec.NonTrivial(obs.Hash64(first), func() any {
				return map[string]any{"packet": summarizeV4(c.Base), "programs": c.Progs}
			})
		}
		return nil
	})

// canonicalRAI parses a relay agent information value; ok when re-encoding its sub-options in ascending
// code order reproduces exactly the value (so that building it through OptRelayAgentInfo is equivalent).
func canonicalRAI(v []byte) ([]dhcpv4.Option, bool) {
	m, order, why := refv4.DecodeOptions(v, false)
	if why != refv4.OK || len(order) == 0 {
		return nil, false
	}
	var subs []dhcpv4.Option
	var re []byte
	codes := append([]uint8{}, order...)
	sort.Slice(codes, func(i, j int) bool { return codes[i] < codes[j] })
	for _, c := range codes {
		if c == 82 || c == 0 || c == 255 || len(m[c]) == 0 || len(m[c]) > 255 {
			return nil, false
		}
		re = append(append(re, c, byte(len(m[c]))), m[c]...)
		subs = append(subs, dhcpv4.OptGeneric(dhcpv4.GenericOptionCode(c), append([]byte{}, m[c]...)))
	}
	return subs, bytes.Equal(re, v)
}

func layoutKey(msg string) string {
	switch {
	case bytes.Contains([]byte(msg), []byte("out of order")):
		return "order"
	case bytes.Contains([]byte(msg), []byte("length")):
		return "length"
	case bytes.Contains([]byte(msg), []byte("End")):
		return "end"
	case bytes.Contains([]byte(msg), []byte("repeated")), bytes.Contains([]byte(msg), []byte("separate runs")), bytes.Contains([]byte(msg), []byte("continuation")):
		return "split"
	case bytes.Contains([]byte(msg), []byte("overruns")), bytes.Contains([]byte(msg), []byte("without length")):
		return "framing"
	case bytes.Contains([]byte(msg), []byte("after End")), bytes.Contains([]byte(msg), []byte("pad byte")):
		return "padding"
	}
	return "other"
}

// cmpRefRef compares two reference packets (model vs independent decoding).
func cmpRefRef(prefix string, want, got *refv4.Packet) *obs.Fail {
	bad := func(field string, w, g any) *obs.Fail {
		return obs.Failf(prefix+"/field/"+field, fmt.Sprintf("%s = %v", field, w), "%v", g)
	}
	switch {
	case want.Op != got.Op:
		return bad("op", want.Op, got.Op)
	case want.HType != got.HType:
		return bad("htype", want.HType, got.HType)
	case want.HLen != got.HLen:
		return bad("hlen", want.HLen, got.HLen)
	case want.Hops != got.Hops:
		return bad("hops", want.Hops, got.Hops)
	case want.Xid != got.Xid:
		return bad("xid", want.Xid, got.Xid)
	case want.Secs != got.Secs:
		return bad("secs", want.Secs, got.Secs)
	case want.Flags != got.Flags:
		return bad("flags", want.Flags, got.Flags)
	case want.CI != got.CI:
		return bad("ciaddr", want.CI, got.CI)
	case want.YI != got.YI:
		return bad("yiaddr", want.YI, got.YI)
	case want.SI != got.SI:
		return bad("siaddr", want.SI, got.SI)
	case want.GI != got.GI:
		return bad("giaddr", want.GI, got.GI)
	case !bytes.Equal(want.CHAddr, got.CHAddr):
		return bad("chaddr", hx(want.CHAddr), hx(got.CHAddr))
	case want.SName != got.SName:
		return bad("sname", hx([]byte(want.SName)), hx([]byte(got.SName)))
	case want.File != got.File:
		return bad("file", hx([]byte(want.File)), hx([]byte(got.File)))
	}
	g := dhcpv4.Options{}
	for k, v := range got.Opts {
		g[k] = v
	}
	return cmpOptMap(prefix, want.Opts, g)
}

func genC07() *rapid.Generator[c07Case] {
	return rapid.Custom(func(t *rapid.T) c07Case {
		c := c07Case{Base: gen.V4Packet(rapid.SampledFrom([]int{9, 9, 20, 30, 40, 80, 200}).Draw(t, "maxopts"), 1100).Draw(t, "pkt")}
		n := len(c.Base.Opts)
		np := rapid.IntRange(2, 4).Draw(t, "nprogs")
		for i := 0; i < np; i++ {
			pr := c07Prog{Kind: rapid.IntRange(0, 5).Draw(t, "kind"), Order: rapid.Permutation(seq(n)).Draw(t, "order"),
				PadEnd: rapid.SampledFrom([]int{0, 0, 0, 1, 2, 3}).Draw(t, "padend"), MidEncode: rapid.Bool().Draw(t, "midencode"), HWRepr: rapid.SampledFrom([]int{0, 0, 1, 2, 3}).Draw(t, "hwrepr")}
			if n > 0 {
				pr.Junk = rapid.SliceOfN(rapid.IntRange(0, n-1), 0, 3).Draw(t, "junk")
			}
			c.Progs = append(c.Progs, pr)
		}
		return c
	})
}

func seq(n int) []int {
	s := make([]int, n)
	for i := range s {
		s[i] = i
	}
	return s
}

func TestC07_Rapid(t *testing.T) { c07.rapidCheck(t, genC07()) }

// TestC07_Permutations enumerates every update order of up to 6 options for
// several option sets (including 82, a >255-byte value and an empty value).
func TestC07_Permutations(t *testing.T) {
	big := make([]byte, 600)
	for i := range big {
		big[i] = byte(i)
	}
	sets := [][]gen.V4Opt{
		{{Code: 53, Val: []byte{1}}, {Code: 82, Val: []byte{1, 2, 0xaa, 0xbb}}, {Code: 93, Val: []byte{0, 7}}, {Code: 94, Val: []byte{1, 2, 1}}, {Code: 97, Val: bytes.Repeat([]byte{9}, 17)}, {Code: 1, Val: []byte{255, 255, 255, 0}}},
		{{Code: 200, Val: big}, {Code: 3, Val: []byte{}}, {Code: 82, Val: big[:300]}, {Code: 254, Val: []byte{1}}, {Code: 12, Val: []byte("host")}, {Code: 83, Val: []byte{5}}},
		{{Code: 2, Val: []byte{1}}, {Code: 1, Val: []byte{2}}},
		{{Code: 82, Val: []byte{1}}, {Code: 81, Val: []byte{2}}, {Code: 83, Val: []byte{3}}},
	}
	for _, set := range sets {
		base := gen.V4Case{Op: 1, HType: 1, Xid: []byte{9, 8, 7, 6}, CHAddr: []byte{1, 2, 3, 4, 5, 6}, Opts: set}
		perms := permutations(len(set))
		for _, kind := range []int{1, 2, 3} {
			for _, p := range perms {
				c07.one(t, c07Case{Base: base, Progs: []c07Prog{{Kind: 0, Order: seq(len(set))}, {Kind: kind, Order: p}}})
			}
		}
		for pe := 1; pe <= 3; pe++ {
			c07.one(t, c07Case{Base: base, Progs: []c07Prog{{Kind: 0, Order: seq(len(set))}, {Kind: 1, Order: seq(len(set)), PadEnd: pe}, {Kind: 5, Order: seq(len(set)), PadEnd: pe, MidEncode: true, HWRepr: 1 + pe%3}}})
		}
	}
	c07.rec.Class("permutation-enumeration")
}

func permutations(n int) [][]int {
	var out [][]int
	var rec func(cur []int, used []bool)
	rec = func(cur []int, used []bool) {
		if len(cur) == n {
			out = append(out, append([]int{}, cur...))
			return
		}
		for i := 0; i < n; i++ {
			if !used[i] {
				used[i] = true
				rec(append(cur, i), used)
				used[i] = false
			}
		}
	}
	rec(nil, make([]bool, n))
	return out
}
