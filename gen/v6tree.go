package gen

import (
	"sort"

	"pgregory.net/rapid"

	"verif/ref/reflabel"
	"verif/ref/refv6"
)

// V6Cfg controls the DHCPv6 tree generator.
type V6Cfg struct {
	MaxRelayDepth int             // relay chain depth 0..MaxRelayDepth
	MaxOpts       int             // options per list
	Canonical     bool            // stay inside the library's canonical in-memory form (C02 domain)
	Skip          map[uint16]bool // option codes not to generate as typed (uncovered by the tree under test)
}

var unknownCodes = []uint16{7, 14, 0, 10, 200, 65001, 65535, 20}

// KnownCodes returns the typed option codes in ascending order.
func KnownCodes() []uint16 {
	var c []uint16
	for k := range refv6.Known {
		c = append(c, k)
	}
	sort.Slice(c, func(i, j int) bool { return c[i] < c[j] })
	return c
}

func u32gen() *rapid.Generator[uint64] {
	return rapid.Custom(func(t *rapid.T) uint64 {
		switch rapid.IntRange(0, 5).Draw(t, "u32class") {
		case 0:
			return rapid.SampledFrom([]uint64{0, 1, 0x7fffffff, 0x80000000, 0xfffffffe, 0xffffffff}).Draw(t, "edge")
		case 1:
			return uint64(rapid.Uint32Range(0x80000000, 0xffffffff).Draw(t, "high"))
		default:
			return uint64(rapid.Uint32Range(0, 1000000).Draw(t, "low"))
		}
	})
}

// entgen draws an enterprise number: half of the time from a small pool, so that several vendor options of one
// message carry the same number (a look-up by number then meets more than one match).
func entgen() *rapid.Generator[uint64] {
	return rapid.Custom(func(t *rapid.T) uint64 {
		if rapid.Bool().Draw(t, "entpool") {
			return rapid.SampledFrom([]uint64{9, 9, 1271, 2636, 0, 0xffffffff}).Draw(t, "entnum")
		}
		return u32gen().Draw(t, "entany")
	})
}

func addr16(t *rapid.T, label string) []byte {
	switch rapid.IntRange(0, 4).Draw(t, label+"kind") {
	case 4: // IPv4-mapped (::ffff:a.b.c.d): Go's net.IP treats these 16-byte values as IPv4 in To4()
		return []byte{0, 0, 0, 0, 0, 0, 0, 0, 0, 0, 0xff, 0xff, 192, 0, 2, byte(rapid.IntRange(0, 255).Draw(t, label+"v4"))}
	case 0:
		return make([]byte, 16)
	case 1:
		return []byte{0x20, 0x01, 0x0d, 0xb8, 0, 0, 0x12, 0xff, 0, 0, 0, 0, 0, 0, 0, byte(rapid.IntRange(0, 255).Draw(t, label+"last"))}
	case 2:
		return []byte{0xfe, 0x80, 0, 0, 0, 0, 0, 0, 0x02, 0x11, 0x22, 0xff, 0xfe, 0x33, 0x44, 0x55}
	}
	return rapid.SliceOfN(rapid.Byte(), 16, 16).Draw(t, label)
}

func smallBytes(t *rapid.T, label string, max int) []byte {
	n := rapid.SampledFrom([]int{0, 1, 2, 6, 8, 16, 40, 6, 8, 124, 125, 126, 127, 128, 129, 130, 200}).Draw(t, label+"len")
	if n > max {
		n = max
	}
	return Fill(t, n, label)
}

type v6gen struct {
	cfg    V6Cfg
	budget int  // remaining option count across the whole tree
	deep   bool // a deep relay chain: keep the levels lean so that the datagram stays below 4096 bytes
}

// V6Msg generates a DHCPv6 message tree (possibly a relay chain).
func V6Msg(cfg V6Cfg) *rapid.Generator[*refv6.Msg] {
	return rapid.Custom(func(t *rapid.T) *refv6.Msg {
		g := &v6gen{cfg: cfg, budget: 60}
		depth := 0
		if cfg.MaxRelayDepth > 0 {
			depth = rapid.SampledFrom([]int{0, 0, 0, 1, 1, 2, 3, cfg.MaxRelayDepth}).Draw(t, "relaydepth")
			if depth > cfg.MaxRelayDepth {
				depth = cfg.MaxRelayDepth
			}
			if cfg.MaxRelayDepth >= 16 && rapid.IntRange(0, 7).Draw(t, "deep") == 0 {
				depth = rapid.IntRange(9, cfg.MaxRelayDepth).Draw(t, "deepdepth") // every depth up to the bound
			}
		}
		g.deep = depth > 16
		return g.msg(t, depth, 0)
	})
}

func (g *v6gen) msg(t *rapid.T, relayDepth, nest int) *refv6.Msg {
	if relayDepth > 0 {
		m := &refv6.Msg{Relay: true, Type: rapid.SampledFrom([]uint8{12, 13}).Draw(t, "rtype"), Hop: rapid.Byte().Draw(t, "hop")}
		copy(m.Link[:], addr16(t, "link"))
		copy(m.Peer[:], addr16(t, "peer"))
		inner := g.msg(t, relayDepth-1, nest+1)
		n := rapid.IntRange(0, 3).Draw(t, "nrelayopts")
		if g.deep {
			n = 0
		}
		pos := rapid.IntRange(0, n).Draw(t, "relaymsgpos")
		for i := 0; i <= n; i++ {
			if i == pos {
				m.Opts = append(m.Opts, refv6.Opt{Code: 9, Typ: "relaymsg", Msg: inner})
				continue
			}
			code := rapid.SampledFrom([]uint16{18, 37, 79, 135, 65001, 18, 37}).Draw(t, "relayopt")
			m.Opts = append(m.Opts, g.opt(t, code, nest+1))
		}
		return m
	}
	typ := rapid.SampledFrom([]uint8{1, 2, 3, 4, 5, 6, 7, 8, 9, 10, 11, 14, 20, 21, 0, 255, 1, 2, 3, 7}).Draw(t, "mtype")
	m := &refv6.Msg{Type: typ}
	copy(m.Xid[:], rapid.SliceOfN(rapid.Byte(), 3, 3).Draw(t, "xid"))
	if g.deep {
		m.Opts = g.opts(t, 0, min(g.cfg.MaxOpts, 4), nil)
	} else {
		m.Opts = g.opts(t, nest, g.cfg.MaxOpts, nil)
	}
	return m
}

// opts draws a list of options; prefer lists the codes that dominate (e.g. addresses inside an IA).
func (g *v6gen) opts(t *rapid.T, nest, max int, prefer []uint16) []refv6.Opt {
	if nest > 5 {
		max = 0
	}
	n := rapid.IntRange(0, max).Draw(t, "nopts")
	var out []refv6.Opt
	known := KnownCodes()
	for i := 0; i < n && g.budget > 0; i++ {
		g.budget--
		var code uint16
		switch k := rapid.IntRange(0, 9).Draw(t, "codeclass"); {
		case len(prefer) > 0 && k < 6:
			code = rapid.SampledFrom(prefer).Draw(t, "pcode")
		case k == 9:
			code = rapid.SampledFrom(unknownCodes).Draw(t, "ucode")
		default:
			code = rapid.SampledFrom(known).Draw(t, "kcode")
		}
		if code == 9 && nest > 3 {
			code = 18
		}
		out = append(out, g.opt(t, code, nest))
	}
	return out
}

func (g *v6gen) names(t *rapid.T, max int) ([]string, []byte) {
	if !g.cfg.Canonical && rapid.IntRange(0, 3).Draw(t, "compressed") == 0 {
		w := LabelWire(false).Draw(t, "lwire")
		if len(w) > 400 {
			w = w[:0]
		}
		n, class, _ := reflabel.DecodeReasons(w)
		if class == reflabel.Strict {
			return n, w
		}
	}
	n := rapid.SliceOfN(Name(), 0, max).Draw(t, "names")
	return n, reflabel.Encode(n)
}

func (g *v6gen) opt(t *rapid.T, code uint16, nest int) refv6.Opt {
	typ, ok := refv6.Known[code]
	if !ok || g.cfg.Skip[code] {
		return refv6.Opt{Code: code, Typ: "opaque", B: [][]byte{smallBytes(t, "opaque", 300)}}
	}
	o := refv6.Opt{Code: code, Typ: typ}
	switch typ {
	case "duid":
		k := rapid.SampledFrom([]uint64{1, 2, 3, 4, 0, 5, 65535}).Draw(t, "duidtype")
		o.N = []uint64{k}
		switch k {
		case 1:
			o.N = append(o.N, uint64(rapid.Uint16().Draw(t, "hw")), u32gen().Draw(t, "time"))
			o.B = [][]byte{smallBytes(t, "lla", 200)}
		case 2:
			o.N = append(o.N, u32gen().Draw(t, "ent"))
			o.B = [][]byte{smallBytes(t, "entid", 200)}
		case 3:
			o.N = append(o.N, uint64(rapid.Uint16().Draw(t, "hw")))
			o.B = [][]byte{smallBytes(t, "lla", 200)}
		case 4:
			o.B = [][]byte{Fill(t, 16, "uuid")}
		default:
			o.B = [][]byte{smallBytes(t, "duiddata", 200)}
		}
	case "iana", "iapd":
		o.B = [][]byte{Fill(t, 4, "iaid")}
		o.N = []uint64{u32gen().Draw(t, "t1"), u32gen().Draw(t, "t2")}
		if typ == "iana" {
			o.Sub = g.opts(t, nest+1, 4, []uint16{5, 5, 13})
		} else {
			o.Sub = g.opts(t, nest+1, 4, []uint16{26, 26, 13})
		}
	case "iata":
		o.B = [][]byte{Fill(t, 4, "iaid")}
		o.Sub = g.opts(t, nest+1, 3, []uint16{5, 13})
	case "iaaddr":
		o.B = [][]byte{addr16(t, "addr")}
		o.N = []uint64{u32gen().Draw(t, "pref"), u32gen().Draw(t, "valid")}
		o.Sub = g.opts(t, nest+1, 2, []uint16{13})
	case "iaprefix":
		pl := uint64(rapid.SampledFrom([]int{0, 1, 48, 56, 64, 127, 128, 60}).Draw(t, "plen"))
		a := addr16(t, "prefix")
		if pl == 0 && (g.cfg.Canonical || rapid.Bool().Draw(t, "zeroaddr")) {
			a = make([]byte, 16) // canonical form: length 0 ⇔ no prefix
		}
		o.N = []uint64{u32gen().Draw(t, "pref"), u32gen().Draw(t, "valid"), pl}
		o.B = [][]byte{a}
		o.Sub = g.opts(t, nest+1, 2, []uint16{13})
	case "oro":
		n := rapid.IntRange(0, 6).Draw(t, "noro")
		seen := map[uint64]bool{}
		for i := 0; i < n; i++ {
			c := uint64(rapid.SampledFrom([]uint16{23, 24, 59, 60, 56, 1, 65535, 0, 39, 0x8017, 0x8018, 0x7fff, 0xffff ^ 0x8000, 0x0400, 0x8400, 32768}).Draw(t, "orocode"))
			if seen[c] && (g.cfg.Canonical || rapid.Bool().Draw(t, "nodup")) {
				continue
			}
			seen[c] = true
			o.N = append(o.N, c)
		}
	case "archs":
		n := rapid.IntRange(1, 4).Draw(t, "narch")
		for i := 0; i < n; i++ {
			o.N = append(o.N, uint64(rapid.SampledFrom([]uint16{0, 7, 9, 16, 65535, 11}).Draw(t, "arch")))
		}
	case "elapsed", "relayport":
		o.N = []uint64{uint64(rapid.SampledFrom([]uint16{0, 1, 100, 65535, 546, 32768}).Draw(t, "u16"))}
	case "irt":
		o.N = []uint64{u32gen().Draw(t, "irt")}
	case "relaymsg":
		o.Msg = g.msg(t, rapid.IntRange(0, 1).Draw(t, "innerrelay"), nest+1)
	case "status":
		o.N = []uint64{uint64(rapid.SampledFrom([]uint16{0, 1, 2, 6, 65535}).Draw(t, "status"))}
		o.B = [][]byte{smallBytes(t, "statusmsg", 40)}
	case "userclass":
		n := rapid.IntRange(1, 3).Draw(t, "nuc")
		for i := 0; i < n; i++ {
			o.B = append(o.B, smallBytes(t, "uc", 40))
		}
	case "vendorclass":
		o.N = []uint64{entgen().Draw(t, "ent")}
		n := rapid.IntRange(1, 3).Draw(t, "nvc")
		for i := 0; i < n; i++ {
			o.B = append(o.B, smallBytes(t, "vc", 40))
		}
	case "vendoropts":
		o.N = []uint64{entgen().Draw(t, "ent")}
		n := rapid.IntRange(0, 3).Draw(t, "nvo")
		for i := 0; i < n; i++ {
			o.Sub = append(o.Sub, refv6.Opt{Code: rapid.SampledFrom([]uint16{1, 2, 3, 9, 24, 65535}).Draw(t, "vocode"), Typ: "opaque", B: [][]byte{smallBytes(t, "vo", 40)}})
		}
	case "ifaceid", "bootfileurl":
		o.B = [][]byte{smallBytes(t, "bytes", 60)}
	case "dns", "dhcp4o6server":
		lo := 0
		if typ == "dns" {
			lo = 1
		}
		n := rapid.IntRange(lo, 3).Draw(t, "naddr")
		for i := 0; i < n; i++ {
			o.B = append(o.B, addr16(t, "a"))
		}
	case "domains":
		n, w := g.names(t, 4)
		o.Names, o.B = n, [][]byte{w}
	case "fqdn":
		o.N = []uint64{uint64(rapid.SampledFrom([]uint8{0, 1, 2, 4, 7, 255}).Draw(t, "fqdnflags"))}
		n, w := g.names(t, 1)
		o.Names, o.B = n, [][]byte{w}
	case "remoteid":
		o.N = []uint64{u32gen().Draw(t, "ent")}
		o.B = [][]byte{smallBytes(t, "rid", 40)}
	case "ntp":
		n := rapid.IntRange(0, 3).Draw(t, "nntp")
		for i := 0; i < n; i++ {
			sc := rapid.SampledFrom([]uint16{1, 2, 3, 3, 9, 65535}).Draw(t, "ntpsub")
			switch sc {
			case 1:
				o.Sub = append(o.Sub, refv6.Opt{Code: 1, Typ: "ntpaddr", B: [][]byte{addr16(t, "ntpa")}})
			case 2:
				o.Sub = append(o.Sub, refv6.Opt{Code: 2, Typ: "ntpmcast", B: [][]byte{addr16(t, "ntpm")}})
			case 3:
				nm, w := g.names(t, 2)
				o.Sub = append(o.Sub, refv6.Opt{Code: 3, Typ: "ntpfqdn", Names: nm, B: [][]byte{w}})
			default:
				o.Sub = append(o.Sub, refv6.Opt{Code: sc, Typ: "opaque", B: [][]byte{smallBytes(t, "ntpo", 20)}})
			}
		}
	case "bootfileparam":
		n := rapid.IntRange(0, 3).Draw(t, "nbp")
		for i := 0; i < n; i++ {
			o.B = append(o.B, smallBytes(t, "bp", 40))
		}
	case "nii":
		o.N = []uint64{uint64(rapid.Byte().Draw(t, "niit")), uint64(rapid.Byte().Draw(t, "niimaj")), uint64(rapid.Byte().Draw(t, "niimin"))}
	case "clientlla":
		o.N = []uint64{uint64(rapid.Uint16().Draw(t, "hw"))}
		o.B = [][]byte{smallBytes(t, "lla", 20)}
		switch rapid.IntRange(0, 5).Draw(t, "llashape") {
		case 0: // Ethernet MAC
			o.N[0] = 1
			o.B[0] = Fill(t, 6, "mac")
		case 1: // EUI-64 derived from an EUI-48 (ff:fe in the middle), hardware type 27
			o.N[0] = 27
			o.B[0] = []byte{0x00, 0x11, 0x22, 0xff, 0xfe, 0x33, 0x44, byte(rapid.IntRange(0, 255).Draw(t, "eui"))}
		}
	case "dhcpv4msg":
		o.V4 = V4Packet(3, 300).Draw(t, "v4").Ref()
	case "4rd":
		o.Sub = g.opts(t, nest+1, 3, []uint16{98, 98, 99})
	case "4rdmap":
		fl := uint64(rapid.SampledFrom([]uint8{0, 0x80}).Draw(t, "wkp"))
		if !g.cfg.Canonical {
			fl |= uint64(rapid.SampledFrom([]uint8{0, 0, 1, 0x7f}).Draw(t, "rsv"))
		}
		o.N = []uint64{uint64(rapid.IntRange(0, 32).Draw(t, "p4")), uint64(rapid.SampledFrom([]int{0, 1, 48, 64, 128}).Draw(t, "p6")), uint64(rapid.Byte().Draw(t, "ea")), fl}
		o.B = [][]byte{Fill(t, 4, "p4a"), addr16(t, "p6a")}
	case "4rdnonmap":
		fl := uint64(rapid.SampledFrom([]uint8{0, 1, 0x80, 0x81}).Draw(t, "nmflags"))
		tc := uint64(rapid.SampledFrom([]uint8{0, 0, 1, 120, 255}).Draw(t, "tclass"))
		if !g.cfg.Canonical {
			fl |= uint64(rapid.SampledFrom([]uint8{0, 0, 0x7e}).Draw(t, "rsv"))
		} else if fl&1 == 0 {
			tc = 0
		}
		o.N = []uint64{fl, tc, uint64(rapid.Uint16().Draw(t, "pmtu"))}
	}
	return o
}

// V6Opt generates a single option of the given code (used to drive ParseOption directly).
func V6Opt(cfg V6Cfg, code uint16) *rapid.Generator[refv6.Opt] {
	return rapid.Custom(func(t *rapid.T) refv6.Opt {
		g := &v6gen{cfg: cfg, budget: 12}
		if cfg.MaxOpts == 0 {
			g.cfg.MaxOpts = 3
		}
		return g.opt(t, code, 1)
	})
}
