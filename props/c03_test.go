package props

import (
	"bytes"
	"fmt"
	"go/ast"
	"go/parser"
	"go/token"
	"io"
	"net"
	"os"
	"path/filepath"
	"regexp"
	"sort"
	"strconv"
	"strings"
	"sync"
	"testing"
	"time"

	"github.com/insomniacslk/dhcp/dhcpv4"
	"github.com/insomniacslk/dhcp/dhcpv4/nclient4"
	"github.com/insomniacslk/dhcp/dhcpv6"
	"github.com/insomniacslk/dhcp/iana"
	"github.com/insomniacslk/dhcp/netboot"
	"github.com/insomniacslk/dhcp/rfc1035label"
	"pgregory.net/rapid"

	"verif/gen"
	"verif/obs"
	"verif/ref/refip"
)

// C03 — no input can crash decoding or any read-only use of a decoded message.

type c03Case struct {
	Entry string    `json:"entry"`
	B     obs.Hex   `json:"bytes"`
	Conv  []obs.Hex `json:"conversation,omitempty"` // netboot: a sequence of datagrams
	Bound int       `json:"bound,omitempty"`        // raw: 0 bound to port 68, 1 no bound address (nil), 2 bound to an address and port
	// raw: Buf > 0: the caller's read buffer is Buf octets shorter than the frame (min 0) instead of 2048 octets; odd
	// values allocate it exactly (len == cap), even ones as the front of a larger array
	Buf int `json:"buf,omitempty"`
}

var c03Entries = []string{"v4", "v4opts", "v4types", "v6", "v6msg", "v6relay", "v6opt", "duid", "labels", "archs", "raw", "netboot6", "netboot4"}

// c03Run executes one entry point on one input; returns (accepted, observers run, panic entry).
func c03Run(c c03Case) (accepted bool, observers int, f *obs.Fail) {
	in := func() []byte { return append([]byte{}, c.B...) }
	walkFail := func(es []obsEntry) *obs.Fail {
		if p := firstPanic(es); p != nil {
			return obs.Failf("C03/"+c.Entry+"/observer-panic/"+methodKey(p.Name)+"@"+p.Out, "every read-only operation returns normally", "%s panicked: %s", p.Name, p.Panic)
		}
		return nil
	}
	deep := len(c.B) <= 4096
	switch c.Entry {
	case "v4":
		p, err := dhcpv4.FromBytes(in())
		if err != nil {
			return false, 0, nil
		}
		if !deep {
			_ = p.ToBytes()
			return true, 1, nil
		}
		es := observeV4(p, true)
		es = append(es, observeAgain(p)...)
		return true, len(es), walkFail(es)
	case "v4opts":
		o := dhcpv4.Options{}
		if err := o.FromBytes(in()); err != nil {
			return false, 0, nil
		}
		_ = o.String()
		_ = o.ToBytes()
		_ = o.Summary(nil)
		r := dhcpv4.RelayOptions{Options: o}
		_ = r.String()
		return true, 4, nil
	case "v4types":
		n := 0
		type fb interface {
			FromBytes([]byte) error
			String() string
		}
		var mt dhcpv4.MessageType
		var du dhcpv4.Duration
		var u16 dhcpv4.Uint16
		var ac dhcpv4.AutoConfiguration
		var st dhcpv4.String
		for _, d := range []fb{&dhcpv4.IP{}, &dhcpv4.IPs{}, &du, &dhcpv4.Routes{}, &dhcpv4.Strings{}, &dhcpv4.VIVCIdentifiers{}, &dhcpv4.RelayOptions{},
			&u16, &dhcpv4.OptionCodeList{}, &mt, &dhcpv4.IPMask{}, &ac, &st, &iana.Archs{}, &rfc1035label.Labels{}} {
			if d.FromBytes(in()) == nil {
				n++
				_ = d.String()
				if tb, ok := d.(interface{ ToBytes() []byte }); ok {
					_ = tb.ToBytes()
				}
			}
		}
		return n > 0, n, nil
	case "v6", "v6msg", "v6relay":
		var d dhcpv6.DHCPv6
		var err error
		switch c.Entry {
		case "v6":
			d, err = dhcpv6.FromBytes(in())
		case "v6msg":
			var m *dhcpv6.Message
			m, err = dhcpv6.MessageFromBytes(in())
			d = m
		default:
			var r *dhcpv6.RelayMessage
			r, err = dhcpv6.RelayMessageFromBytes(in())
			d = r
		}
		if err != nil {
			return false, 0, nil
		}
		if !deep {
			_ = d.ToBytes()
			return true, 1, nil
		}
		es := observeV6(d, true)
		es = append(es, observeAgain(d)...)
		return true, len(es), walkFail(es)
	case "v6opt":
		if len(c.B) < 2 {
			return false, 0, nil
		}
		code := dhcpv6.OptionCode(uint16(c.B[0])<<8 | uint16(c.B[1]))
		o, err := dhcpv6.ParseOption(code, in()[2:])
		if err != nil {
			return false, 0, nil
		}
		_ = o.String()
		_ = o.ToBytes()
		_ = o.Code()
		if ls, ok := o.(interface{ LongString(int) string }); ok {
			_ = ls.LongString(2)
		}
		return true, 4, nil
	case "duid":
		d, err := dhcpv6.DUIDFromBytes(in())
		if err != nil {
			return false, 0, nil
		}
		_ = d.String()
		_ = d.ToBytes()
		_ = d.DUIDType()
		_ = d.Equal(d)
		return true, 4, nil
	case "labels":
		l, err := rfc1035label.FromBytes(in())
		if err != nil {
			return false, 0, nil
		}
		_ = l.String()
		_ = l.ToBytes()
		_ = l.Length()
		return true, 3, nil
	case "archs":
		var a iana.Archs
		if err := a.FromBytes(in()); err != nil {
			return false, 0, nil
		}
		_ = a.String()
		_ = a.ToBytes()
		return true, 2, nil
	case "raw":
		raw := &scriptRaw{frames: [][]byte{in()}}
		var ba *net.UDPAddr
		switch c.Bound {
		case 0:
			ba = &net.UDPAddr{Port: 68}
		case 2:
			ba = &net.UDPAddr{IP: net.IP{255, 255, 255, 255}, Port: 68}
		}
		conn := nclient4.NewBroadcastUDPConn(raw, ba)
		buf := make([]byte, 2048)
		if c.Buf > 0 {
			buf = make([]byte, max(0, len(c.B)-c.Buf), max(0, len(c.B)-c.Buf)+(1-c.Buf%2)*64)
		}
		n, _, err := conn.ReadFrom(buf)
		if n > len(buf) {
			return false, 0, obs.Failf("C03/raw/count-beyond-buffer", fmt.Sprintf("at most %d octets", len(buf)), "n=%d", n)
		}
		return err == nil, 1, nil
	case "netboot6":
		var conv []dhcpv6.DHCPv6
		for _, b := range c.Conv {
			if d, err := dhcpv6.FromBytes(append([]byte{}, b...)); err == nil {
				conv = append(conv, d)
			}
		}
		_, _ = netboot.ConversationToNetconf(conv)
		return len(conv) > 0, 1, nil
	case "netboot4":
		var conv []*dhcpv4.DHCPv4
		for _, b := range c.Conv {
			if d, err := dhcpv4.FromBytes(append([]byte{}, b...)); err == nil {
				conv = append(conv, d)
			}
		}
		_, _ = netboot.ConversationToNetconfv4(conv)
		return len(conv) > 0, 1, nil
	}
	return false, 0, obs.Failf("C03/harness", "known entry", "%s", c.Entry)
}

var c03 = newChk("C03", "no-crash",
	"byte strings of length 0..65507 (generated valid encodings of every option type with 0..4 structure-aware mutations, all truncations of a corpus, pure random strings, raw IPv4/UDP frames, netboot conversations of 0..4 messages) fed to every decoding entry point; for each accepted input of ≤4096 bytes the reflective observer walk (every exported niladic method reachable from the value, parametrised accessors, builders, relay decapsulation, MAC extraction, ZTP and netboot extractors) runs under recover with a termination watchdog; non-trivial = input accepted and ≥1 observer executed; distinct by hash of (entry, input)",
	func(rec *obs.Rec, c c03Case) *obs.Fail {
		type res struct {
			acc bool
			n   int
			f   *obs.Fail
		}
		run := func(limit time.Duration) (res, bool) {
			ch := make(chan res, 1)
			go func() {
				var r res
				f := obs.Guard("C03/"+c.Entry+"/decode", func() *obs.Fail {
					r.acc, r.n, r.f = c03Run(c)
					return r.f
				})
				r.f = f
				ch <- r
			}()
			select {
			case r := <-ch:
				return r, true
			case <-time.After(limit):
				return res{}, false
			}
		}
		r, done := run(60 * time.Second)
		if !done {
			// reproduce once more before reporting, so that machine load cannot produce it
			if _, done2 := run(120 * time.Second); !done2 {
				return obs.Failf("C03/"+c.Entry+"/nontermination", "terminates", "still running after 60 s and again after 120 s on a %d-byte input", len(c.B))
			}
			rec.Class("slow once (not reproduced)")
			return nil
		}
		if r.f != nil {
			return r.f
		}
		if r.acc {
			rec.Class(c.Entry + "/accepted")
			rec.ClassN("observer calls", int64(r.n))
			if r.n > 0 {
				rec.NonTrivial(obs.Hash64([]byte(c.Entry), c.B, flat(c.Conv)), func() any {
					return map[string]any{"entry": c.Entry, "len": len(c.B), "bytes": hx(clipb(c.B)), "observer_calls": r.n}
				})
			}
		} else {
			rec.Class(c.Entry + "/rejected")
		}
		return nil
	})

func flat(bs []obs.Hex) []byte {
	var out []byte
	for _, b := range bs {
		out = append(out, byte(len(b)>>8), byte(len(b)))
		out = append(out, b...)
	}
	return out
}

// hostile constants for the helper packages: vendor strings the ZTP parsers look for.
var ztpStrings = []string{"Arista;DCS-7050;01.23;SN1", "Arista;", "Cisco;a", "ZPESystems:NSC:001", "ZPESystems:", "NVOS##MSN##SN", "NVOS##", "1271-23422Z11-123", "1271", "1271-",
	"SN:0;PID:R1", "SN;PID", "SN:0;PID", "Ethernet1:2", "Ethernet1/2/3", "Ethernet", "Juniper-ptx1000-DD576", "Juniper-", "Juniper-a", "ZPESystems:NSC:", "Cisco Systems, Inc."}

// ztpDict is the dictionary of vendor strings planted where the helper packages look: the hand-written list above
// plus every short string literal found in the helper packages' own (non-test) source files at check time and the
// decimal enterprise numbers of iana/entid.go — the same idea as a fuzzer dictionary, so that a vendor branch added
// to a parser is reached without the harness knowing its spelling. Each literal also gets a few continuations
// (separators the parsers split on) so that "prefix only" and "prefix + fields" are both present.
var ztpDictOnce sync.Once
var ztpDictV []string

func ztpDict() []string {
	ztpDictOnce.Do(func() {
		seen := map[string]bool{}
		add := func(s string) {
			if len(s) >= 2 && len(s) <= 40 && !seen[s] {
				seen[s] = true
				ztpDictV = append(ztpDictV, s)
			}
		}
		for _, s := range ztpStrings {
			add(s)
		}
		var lits []string
		for _, dir := range []string{"dhcpv4/ztpv4", "dhcpv6/ztpv6", "netboot"} {
			files, _ := filepath.Glob(filepath.Join(repoDir(), dir, "*.go"))
			sort.Strings(files)
			for _, fn := range files {
				if strings.HasSuffix(fn, "_test.go") {
					continue
				}
				fset := token.NewFileSet()
				f, err := parser.ParseFile(fset, fn, nil, 0)
				if err != nil {
					continue
				}
				ast.Inspect(f, func(n ast.Node) bool {
					if _, ok := n.(*ast.ImportSpec); ok {
						return false
					}
					if bl, ok := n.(*ast.BasicLit); ok && bl.Kind == token.STRING {
						if v, err := strconv.Unquote(bl.Value); err == nil && len(v) >= 2 && len(v) <= 24 && !strings.ContainsAny(v, "%\n ") {
							lits = append(lits, v)
						}
					}
					return true
				})
			}
		}
		if b, err := os.ReadFile(filepath.Join(repoDir(), "iana", "entid.go")); err == nil {
			for _, m := range regexp.MustCompile(`EnterpriseID\s*=\s*(\d+)`).FindAllStringSubmatch(string(b), -1) {
				lits = append(lits, m[1])
			}
		}
		for _, l := range lits {
			add(l)
			// continuations with every field count 1..5 for every separator the parsers split on, so that
			// "prefix + exactly k fields" exists for each k a length check might be off by
			for _, sep := range []string{";", ":", "-", "##", "/", ","} {
				tail := ""
				for k := 1; k <= 5; k++ {
					if k > 1 {
						tail += sep
					}
					tail += string(rune('a' + k - 1))
					add(l + tail)
					if !strings.HasSuffix(l, sep) {
						add(l + sep + tail)
					}
				}
				add(l + sep)
			}
		}
	})
	return ztpDictV
}

func genC03() *rapid.Generator[c03Case] {
	return rapid.Custom(func(t *rapid.T) c03Case {
		entry := rapid.SampledFrom(c03Entries).Draw(t, "entry")
		c := c03Case{Entry: entry}
		v6 := func(mut int) []byte {
			b := []byte(genV6Wire(v6Cfg(4, 10, false)).Draw(t, "v6"))
			if rapid.IntRange(0, 3).Draw(t, "ztp") == 0 {
				// plant vendor strings where the ZTP helpers look (vendor class data, vendor opts, remote id, interface id)
				s := rapid.SampledFrom(ztpDict()).Draw(t, "ztpstr")
				ent := rapid.SampledFrom([][]byte{{0, 0, 4, 0xf7}, {0, 0, 0x81, 0x19}, {0, 0, 0, 9}, {0, 0, 0x75, 0x6a}}).Draw(t, "ent")
				vc := append(append([]byte{0, 16, 0, byte(6 + len(s))}, ent...), 0, byte(len(s)))
				vc = append(vc, s...)
				vo := append(append([]byte{0, 17, 0, byte(8 + len(s))}, ent...), 0, 1, 0, byte(len(s)))
				vo = append(vo, s...)
				extra := [][]byte{vc, vo, append(vc, vo...)}[rapid.IntRange(0, 2).Draw(t, "which")]
				if rapid.Bool().Draw(t, "cid-en") {
					extra = append(extra, 0, 1, 0, 10, 0, 2, 0, 0, 4, 0xf7, 'S', 'N', '1', '2')
				}
				b = append(b, extra...)
			}
			for k := rapid.IntRange(0, mut).Draw(t, "nmut"); k > 0; k-- {
				b = mutateV6(t, b)
			}
			return b
		}
		v4 := func(mut int) []byte {
			b := gen.V4Wire(8, rapid.SampledFrom([]int{400, 400, 400, 1300}).Draw(t, "maxval"), mut).Draw(t, "v4")
			return b
		}
		big := func() []byte {
			n := rapid.SampledFrom([]int{4097, 8192, 16384, 65507}).Draw(t, "bign")
			unit := rapid.SampledFrom([][]byte{{0, 14, 0, 0}, {0, 3, 0, 12, 0, 0, 0, 1, 0, 0, 0, 0, 0, 0, 0, 0}, {0xC0, 0x00}, {1, 'a'}, {0x3f}, {12, 1, 'x'}, {0, 9, 0xff, 0xff, 12}}).Draw(t, "unit")
			b := make([]byte, 0, n)
			pre := rapid.SampledFrom([][]byte{{1, 0, 0, 0}, {}, {0, 24}, {0, 56}}).Draw(t, "pre")
			b = append(b, pre...)
			for len(b)+len(unit) <= n {
				b = append(b, unit...)
			}
			return b
		}
		switch entry {
		case "v4":
			if rapid.IntRange(0, 30).Draw(t, "big") == 0 {
				c.B = append(v4Prefix(), big()...)
				if len(c.B) > 65507 {
					c.B = c.B[:65507]
				}
			} else {
				c.B = v4(4)
				if rapid.IntRange(0, 3).Draw(t, "ztp4") == 0 && len(c.B) > 244 {
					// vendor strings for ztpv4: class identifier (60), VIVC (124), relay agent circuit id
					s := rapid.SampledFrom(ztpDict()).Draw(t, "ztpstr")
					opt := append([]byte{60, byte(len(s))}, s...)
					viv := append([]byte{124, byte(5 + len(s)), 0, 0, 0, 9, byte(len(s))}, s...)
					rai := append([]byte{82, byte(2 + len(s)), 1, byte(len(s))}, s...)
					ins := [][]byte{opt, viv, rai, append(opt, viv...)}[rapid.IntRange(0, 3).Draw(t, "which")]
					c.B = append(append(append([]byte{}, c.B[:240]...), ins...), c.B[240:]...)
				}
			}
		case "v4opts", "v4types":
			switch rapid.IntRange(0, 3).Draw(t, "k") {
			case 0:
				c.B = gen.Fill(t, rapid.IntRange(0, 70).Draw(t, "n"), "raw")
			case 1:
				b := v4(2)
				if len(b) > 240 {
					c.B = b[240:]
				}
			case 2:
				c.B = gen.LabelWire(true).Draw(t, "labels")
			default:
				c.B = rapid.SliceOfN(rapid.SampledFrom([]byte{0, 1, 2, 4, 5, 32, 33, 255}), 0, 40).Draw(t, "small")
			}
		case "v6", "v6msg", "v6relay":
			if rapid.IntRange(0, 30).Draw(t, "big") == 0 {
				c.B = big()
			} else if rapid.IntRange(0, 9).Draw(t, "raw") == 0 {
				c.B = gen.Fill(t, rapid.IntRange(0, 120).Draw(t, "n"), "raw")
			} else {
				c.B = v6(4)
			}
		case "v6opt":
			code := rapid.SampledFrom(gen.KnownCodes()).Draw(t, "code")
			o := gen.V6Opt(v6Cfg(1, 3, false), code).Draw(t, "opt")
			p := encodeOptPayload(&o)
			w := append([]byte{1, 0, 0, 0, byte(code >> 8), byte(code), byte(len(p) >> 8), byte(len(p))}, p...)
			for k := rapid.IntRange(0, 3).Draw(t, "nmut"); k > 0; k-- {
				w = mutateV6(t, w)
			}
			if len(w) >= 8 {
				p = w[8:]
			} else {
				p = nil
			}
			c.B = append([]byte{byte(code >> 8), byte(code)}, p...)
		case "duid":
			c.B = append([]byte{0, byte(rapid.IntRange(0, 5).Draw(t, "dt"))}, gen.Fill(t, rapid.IntRange(0, 24).Draw(t, "n"), "d")...)
			if rapid.IntRange(0, 4).Draw(t, "cut") == 0 {
				c.B = c.B[:rapid.IntRange(0, len(c.B)).Draw(t, "c")]
			}
		case "labels":
			if rapid.IntRange(0, 20).Draw(t, "big") == 0 {
				c.B = big()
			} else {
				c.B = gen.LabelWire(true).Draw(t, "labels")
			}
		case "archs":
			c.B = gen.Fill(t, rapid.IntRange(0, 9).Draw(t, "n"), "a")
		case "raw":
			if rapid.IntRange(0, 3).Draw(t, "shortbuf") == 0 {
				c.Buf = rapid.IntRange(1, 140).Draw(t, "buf")
			}
			f := genC18Read().Draw(t, "frames")
			var bound [4]byte
			b, _ := f.Frames[0].build(bound, false, 68)
			for k := rapid.IntRange(0, 2).Draw(t, "nmut"); k > 0 && len(b) > 0; k-- {
				i := rapid.IntRange(0, min(len(b)-1, 27)).Draw(t, "i")
				b[i] = rapid.Byte().Draw(t, "v")
			}
			// the fields the reader may or may not consult are fields like any other: UDP length (consistent by
			// construction so far), fragment word, header checksum, UDP checksum
			if ihl := 20; len(b) >= 28 && int(b[0]&0xf)*4 >= 20 && len(b) >= int(b[0]&0xf)*4+8 && rapid.IntRange(0, 2).Draw(t, "udplen") == 0 {
				ihl = int(b[0]&0xf) * 4
				ul := rapid.SampledFrom([]int{0, 1, 2, 3, 4, 5, 6, 7, 8, 9, 0xffff, len(b) - ihl - 1, len(b) - ihl + 1}).Draw(t, "ul")
				b[ihl+4], b[ihl+5] = byte(ul>>8), byte(ul)
			}
			if len(b) >= 20 && rapid.IntRange(0, 3).Draw(t, "fragword") == 0 {
				fw := rapid.SampledFrom([]int{0x4000, 0x2000, 0x8000, 0x0001, 0x1fff, 0xffff}).Draw(t, "fw")
				b[6], b[7] = byte(fw>>8), byte(fw)
			}
			c.B = b
			c.Bound = rapid.SampledFrom([]int{0, 0, 1, 2}).Draw(t, "bound")
		case "netboot6":
			n := rapid.IntRange(0, 4).Draw(t, "nconv")
			for i := 0; i < n; i++ {
				b := v6(1)
				if len(b) > 0 && rapid.IntRange(0, 1).Draw(t, "settype") == 0 {
					b[0] = rapid.SampledFrom([]byte{2, 7, 1, 3}).Draw(t, "type")
				}
				c.Conv = append(c.Conv, b)
			}
		case "netboot4":
			n := rapid.IntRange(0, 4).Draw(t, "nconv")
			for i := 0; i < n; i++ {
				c.Conv = append(c.Conv, v4(1))
			}
		}
		return c
	})
}

func TestC03_Rapid(t *testing.T) {
	recordV6Coverage(c03.rec)
	c03.rapidCheck(t, genC03())
}

// TestC03_Truncations: every truncation of a set of generated valid encodings, through every matching entry point.
func TestC03_Truncations(t *testing.T) {
	n := 12
	if os.Getenv("VERIF_TIER") == "thorough" {
		n = 60
	}
	var v6s, v4s [][]byte
	rapidSample(t, n, 3, func(rt *rapid.T) {
		v6s = append(v6s, genV6Wire(v6Cfg(3, 8, false)).Draw(rt, "v6"))
		v4s = append(v4s, gen.V4Wire(6, 300, 0).Draw(rt, "v4"))
	})
	for _, b := range v6s {
		if len(b) > 1200 {
			continue
		}
		for cut := 0; cut <= len(b); cut++ {
			c03.one(t, c03Case{Entry: "v6", B: b[:cut]})
		}
	}
	for _, b := range v4s {
		if len(b) > 900 {
			continue
		}
		for cut := 236; cut <= len(b); cut++ {
			c03.one(t, c03Case{Entry: "v4", B: b[:cut]})
		}
		// nested truncation: the same cuts of the DHCPv4 packet carried inside a DHCPv6 message (plain and relayed) with
		// every enclosing length consistent — what the inner decoder refuses or tolerates must leave a usable value
		for cut := 236; cut <= len(b); cut++ {
			m := append([]byte{20, 1, 2, 3}, v6opt(87, b[:cut])...)
			c03.one(t, c03Case{Entry: "v6", B: m})
			if cut%3 == 0 {
				c03.one(t, c03Case{Entry: "v6", B: append(append(append([]byte{12, 0}, make([]byte, 32)...), v6opt(9, m)...), v6opt(18, []byte("if0"))...)})
			}
		}
	}
	// an inner DHCPv6 message cut at every offset inside a relay message of consistent length
	for _, b := range v6s[:min(len(v6s), 6)] {
		if len(b) > 600 {
			continue
		}
		for cut := 0; cut <= len(b); cut++ {
			c03.one(t, c03Case{Entry: "v6", B: append(append([]byte{12, 0}, make([]byte, 32)...), v6opt(9, b[:cut])...)})
		}
	}
}

// TestC03_HelperMatrix: the helper packages on the shapes they special-case: every ZTP vendor string in every
// carrier option, on plain and relay-encapsulated messages; netboot conversations of every type subset.
func TestC03_HelperMatrix(t *testing.T) {
	ents := [][]byte{{0, 0, 4, 0xf7}, {0, 0, 0x81, 0x19}, {0, 0, 0, 9}, {0, 0, 0x75, 0x6a}, {0, 0, 0x0a, 0x4c}, {0, 0, 0, 0}}
	dict := ztpDict()
	if os.Getenv("VERIF_TIER") != "thorough" {
		// quick tier: the hand-written strings, every harvested literal as it is, and every third continuation
		var sub []string
		for i, s := range dict {
			if i < len(ztpStrings) || i%3 == 0 || !strings.ContainsAny(s[len(s)-1:], "abcde") {
				sub = append(sub, s)
			}
		}
		dict = sub
	}
	for _, s := range dict {
		for _, ent := range ents {
			vc := append(append([]byte{0, 16, 0, byte(6 + len(s))}, ent...), 0, byte(len(s)))
			vc = append(vc, s...)
			vo := append(append([]byte{0, 17, 0, byte(8 + len(s))}, ent...), 0, 1, 0, byte(len(s)))
			vo = append(vo, s...)
			cid := []byte{0, 1, 0, 10, 0, 2, 0, 0, 4, 0xf7, 'S', 'N', '1', '2'}
			for _, opts := range [][]byte{vc, vo, append(append([]byte{}, vc...), vo...), append(append([]byte{}, cid...), vc...), append(append([]byte{}, cid...), vo...)} {
				msg := append([]byte{1, 1, 2, 3}, opts...)
				c03.one(t, c03Case{Entry: "v6", B: msg})
				// the same inside a relay message, and with the vendor options at the relay level
				hdr := make([]byte, 34)
				hdr[0] = 12
				rm := append(append([]byte{}, hdr...), 0, 9, byte(len(msg)>>8), byte(len(msg)))
				rm = append(rm, msg...)
				c03.one(t, c03Case{Entry: "v6", B: rm})
				c03.one(t, c03Case{Entry: "v6", B: append(append([]byte{}, rm...), opts...)})
				rid := append(append([]byte{0, 37, 0, byte(4 + len(s))}, ent...), s...)
				iid := append([]byte{0, 18, 0, byte(len(s))}, s...)
				c03.one(t, c03Case{Entry: "v6", B: append(append(append([]byte{}, rm...), rid...), iid...)})
			}
		}
		// DHCPv4 carriers
		for _, ins := range [][]byte{
			append([]byte{60, byte(len(s))}, s...),
			append([]byte{124, byte(5 + len(s)), 0, 0, 0, 9, byte(len(s))}, s...),
			append([]byte{82, byte(2 + len(s)), 1, byte(len(s))}, s...),
			append(append([]byte{60, byte(len(s))}, s...), append([]byte{61, 3, 0, 'a', 'b', 12, 2, 'h', 'n'}, append([]byte{124, byte(5 + len(s)), 0, 0, 0, 9, byte(len(s))}, s...)...)...),
		} {
			p := append(append(v4Prefix(), ins...), 53, 1, 2, 1, 4, 255, 255, 255, 0, 3, 4, 10, 0, 0, 1, 255)
			c03.one(t, c03Case{Entry: "v4", B: p})
		}
		// the class identifier together with every shape of the companion options the parsers fall back to
		// (client identifier 61, host name 12): absent, present but empty, one octet, a short text
		shapes := [][]byte{nil, {}, {0}, []byte("ab")}
		for _, cid := range shapes {
			for _, hn := range shapes {
				p := append(v4Prefix(), append([]byte{60, byte(len(s))}, s...)...)
				if cid != nil {
					p = append(append(p, 61, byte(len(cid))), cid...)
				}
				if hn != nil {
					p = append(append(p, 12, byte(len(hn))), hn...)
				}
				c03.one(t, c03Case{Entry: "v4", B: append(p, 53, 1, 1, 255)})
			}
		}
		// relay agent information with the string as circuit-id (remote-id) and every shape of the other sub-option the
		// extractors fall back to: absent, empty, one zero octet, two, a short text
		if len(s) <= 120 {
			for _, other := range shapes {
				for swap := 0; swap < 2; swap++ {
					c1, c2 := byte(1), byte(2)
					if swap == 1 {
						c1, c2 = 2, 1
					}
					v := append([]byte{c1, byte(len(s))}, s...)
					if other != nil {
						v = append(append(v, c2, byte(len(other))), other...)
					}
					p := append(append(v4Prefix(), 82, byte(len(v))), v...)
					c03.one(t, c03Case{Entry: "v4", B: append(p, 53, 1, 1, 255)})
				}
			}
			v := append(append([]byte{1, byte(len(s))}, s...), 2, 2, 0, 0)
			c03.one(t, c03Case{Entry: "v4", B: append(append(append(v4Prefix(), 82, byte(len(v))), v...), 53, 1, 1, 255)})
		}
		// companion options whose text coincides with a part of the class identifier: each field of the identifier
		// (split on the separators above), alone, followed by a separator, and followed by a separator and more text
		// — a parser that relates the two options (prefix, suffix, equality) meets the equal and the nearly equal case
		fields := strings.FieldsFunc(string(s), func(r rune) bool { return strings.ContainsRune(";:-#/, ", r) })
		fields = append(fields, string(s))
		seenD := map[string]bool{}
		for _, fld := range fields {
			for _, d := range []string{fld, fld + "-", fld + "-x", "x-" + fld, fld[:len(fld)-1]} {
				if seenD[d] || len(d) > 60 {
					continue
				}
				seenD[d] = true
				for _, where := range []int{1, 2, 3} {
					p := append(v4Prefix(), append([]byte{60, byte(len(s))}, s...)...)
					if where&1 != 0 {
						p = append(append(p, 61, byte(len(d))), d...)
					}
					if where&2 != 0 {
						p = append(append(p, 12, byte(len(d))), d...)
					}
					c03.one(t, c03Case{Entry: "v4", B: append(p, 53, 1, 1, 255)})
				}
			}
		}
	}
	// vendor-specific information (option 17) for every enterprise number the tree knows (harvested from
	// iana/entid.go at check time) and a few others × sub-option codes 0..64, 255, 65535 × payloads of 0, 1, 16 and
	// 32 octets: a vendor-specific sub-option parser or extractor is reached whatever its enterprise and code are
	entNums := []uint32{0, 9, 1271, 2636, 30065, 33049, 0xffffffff}
	if b, err := os.ReadFile(filepath.Join(repoDir(), "iana", "entid.go")); err == nil {
		for _, m := range regexp.MustCompile(`EnterpriseID\s*=\s*(\d+)`).FindAllStringSubmatch(string(b), -1) {
			if v, err := strconv.ParseUint(m[1], 10, 32); err == nil {
				entNums = append(entNums, uint32(v))
			}
		}
	}
	seenEnt := map[uint32]bool{}
	for _, ent := range entNums {
		if seenEnt[ent] {
			continue
		}
		seenEnt[ent] = true
		var codes []int
		for c := 0; c <= 64; c++ {
			codes = append(codes, c)
		}
		codes = append(codes, 255, 65535)
		for _, code := range codes {
			for _, n := range []int{0, 1, 16, 32} {
				pl := bytes.Repeat([]byte{0x20}, n)
				vo := []byte{0, 17, 0, byte(8 + n), byte(ent >> 24), byte(ent >> 16), byte(ent >> 8), byte(ent), byte(code >> 8), byte(code), 0, byte(n)}
				vo = append(vo, pl...)
				c03.one(t, c03Case{Entry: "v6", B: append([]byte{1, 1, 2, 3}, vo...)})
			}
		}
	}
	// netboot: every subset / order of {ADVERTISE, REPLY, SOLICIT} with and without IA_NA and boot file URL
	mk := func(typ byte, iana, url bool) []byte {
		m := []byte{typ, 9, 9, 9}
		if iana {
			m = append(m, 0, 3, 0, 40, 0, 0, 0, 1, 0, 0, 0, 0, 0, 0, 0, 0, 0, 5, 0, 24)
			m = append(m, make([]byte, 24)...)
		}
		if url {
			m = append(m, 0, 59, 0, 4, 't', 'f', 't', 'p')
		}
		return m
	}
	var pool []obs.Hex
	for _, typ := range []byte{1, 2, 7} {
		for _, iana := range []bool{false, true} {
			for _, url := range []bool{false, true} {
				pool = append(pool, mk(typ, iana, url))
			}
		}
	}
	for i := range pool {
		c03.one(t, c03Case{Entry: "netboot6", Conv: []obs.Hex{pool[i]}})
		for j := range pool {
			c03.one(t, c03Case{Entry: "netboot6", Conv: []obs.Hex{pool[i], pool[j]}})
		}
	}
	c03.one(t, c03Case{Entry: "netboot6"})
	c03.one(t, c03Case{Entry: "netboot4"})
	c03.rec.Class("helper matrix")
}

// TestC03_DeepRelay: every relay depth 1..100 around inner messages carrying the options the printers and
// helpers special-case (embedded DHCPv4 message, vendor class + enterprise client id, IA with addresses and a
// compressed search list, vendor options + EUI-64 link-layer address), with and without per-level options.
func TestC03_DeepRelay(t *testing.T) {
	for ii, inner := range deepInners() {
		for _, d := range deepDepths() {
			for _, opts := range []bool{false, true} {
				for hop := 0; hop <= 4; hop++ {
					if hop > 0 && (ii > 1 || opts || !(d <= 3 || d%8 == 0 || (d >= 30 && d <= 36) || d >= 63)) {
						continue // dishonest hop counts at the depths where a fixed-size table would end
					}
					b := deepRelayHops(d, inner, opts, hop)
					if len(b) > 4096 {
						continue
					}
					c03.one(t, c03Case{Entry: "v6", B: b})
				}
			}
		}
	}
	c03.rec.Class("deep relay enumeration")
}

// TestC03_LongOptions: decoded DHCPv4 packets whose option values have every total length around the multiples of
// 255 and 256 (up to 1,300 octets, arriving as consecutive instances), alone, next to other options, and inside a
// TestC03_OptionPairs: DHCPv4 packets holding every unordered pair of the option codes the library has a typed reading
// for, each with typical well-formed values (several for the codes whose value selects a branch: architecture,
// message type, vendor-specific information) — a printing, summarising or extracting path that consults two options
// together is reached for every pair, alone and inside DHCPv4-in-DHCPv6.
func TestC03_OptionPairs(t *testing.T) {
	ip := []byte{10, 0, 0, 1}
	vals := map[uint8][][]byte{
		1: {{255, 255, 255, 0}}, 3: {ip}, 6: {append(append([]byte{}, ip...), 8, 8, 8, 8)}, 12: {[]byte("host")}, 15: {[]byte("example.org")}, 17: {[]byte("/root")},
		28: {{10, 0, 0, 255}}, 42: {ip}, 43: {{6, 1, 8, 255}, {1, 2, 3, 4}, {71, 4, 0, 0, 0, 0, 255}, {}}, 44: {ip}, 50: {ip}, 51: {{0, 0, 14, 16}}, 53: {{1}, {2}, {5}, {8}},
		54: {ip}, 55: {{1, 3, 6, 43, 60, 66, 67}}, 56: {[]byte("nak")}, 57: {{5, 220}}, 58: {{0, 0, 7, 8}}, 59: {{0, 0, 12, 78}}, 60: {[]byte("PXEClient:Arch:00016:UNDI:003001"), []byte("PXEClient"), []byte("HTTPClient"), []byte("anything")},
		61: {{1, 1, 2, 3, 4, 5, 6}}, 66: {[]byte("tftp.example")}, 67: {[]byte("boot.efi")}, 77: {{3, 'a', 'b', 'c'}, []byte("iPXE")}, 82: {{1, 2, 'a', 'b', 2, 1, 'c'}},
		93: {{0, 0}, {0, 7}, {0, 16}, {0, 11}, {255, 255}, {0, 7, 0, 16}, {0, 33}}, 94: {{1, 2, 1}, {1, 3, 16}}, 97: {append([]byte{0}, bytes.Repeat([]byte{7}, 16)...)}, 108: {{0, 0, 7, 8}}, 116: {{1}},
		119: {{3, 'e', 'n', 'g', 7, 'e', 'x', 'a', 'm', 'p', 'l', 'e', 0}}, 121: {{24, 10, 0, 0, 1, 2, 3, 4}}, 124: {{0, 0, 0, 9, 2, 'a', 'b'}}, 125: {{0, 0, 0, 9, 3, 1, 1, 'x'}}, 175: {{1, 1, 1}}, 252: {[]byte("http://wpad/")},
	}
	var codes []int
	for c := range vals {
		codes = append(codes, int(c))
	}
	sort.Ints(codes)
	n := 0
	for ai, a := range codes {
		for _, b := range codes[ai+1:] {
			for _, va := range vals[uint8(a)] {
				for _, vb := range vals[uint8(b)] {
					p := append(append(append(v4Prefix(), byte(a), byte(len(va))), va...), append(append([]byte{byte(b), byte(len(vb))}, vb...), 255)...)
					c03.one(t, c03Case{Entry: "v4", B: p})
					if n%4 == 0 {
						c03.one(t, c03Case{Entry: "v6", B: append([]byte{20, 1, 2, 3}, v6opt(87, p)...)})
					}
					n++
				}
			}
		}
	}
	c03.rec.Class("all pairs of typed DHCPv4 options")
}

// DHCPv4-in-DHCPv6 option: every read-only operation, re-encoding included, returns normally.
// TestC03_RawFields: well-formed frames for the bound port in which one field the reader need not trust takes every
// small or extreme value: UDP length 0..16 / 0xffff / actual±1, fragment word, for IP headers of 20, 24 and 60 octets
// and payloads of 0, 1, 8 and 300 octets — read through every binding of the connection.
func TestC03_RawFields(t *testing.T) {
	for _, ihl := range []int{5, 6, 15} {
		for _, plen := range []int{0, 1, 8, 300} {
			base := refip.Build(ihl, bytes.Repeat([]byte{1}, (ihl-5)*4), -1, 17, [4]byte{10, 0, 0, 1}, [4]byte{255, 255, 255, 255}, 67, 68, bytes.Repeat([]byte{0x5a}, plen), nil)
			var uls []int
			for v := 0; v <= 16; v++ {
				uls = append(uls, v)
			}
			uls = append(uls, 0xffff, 0x8000, 8+plen-1, 8+plen+1)
			for _, ul := range uls {
				for _, fw := range []int{0, 0x4000} {
					f := append([]byte{}, base...)
					f[ihl*4+4], f[ihl*4+5] = byte(ul>>8), byte(ul)
					f[6], f[7] = byte(fw>>8), byte(fw)
					for bound := 0; bound <= 2; bound++ {
						c03.one(t, c03Case{Entry: "raw", B: f, Bound: bound})
					}
					if ul == 8+plen+1 && fw == 0 {
						// the well-formed frame itself (UDP length restored) read into caller buffers shorter than its payload
						g := append([]byte{}, base...)
						for short := 1; short <= 72; short++ {
							c03.one(t, c03Case{Entry: "raw", B: g, Buf: ihl*4 + 8 + short})
						}
					}
				}
			}
		}
	}
	c03.rec.Class("raw frames with hostile UDP length / fragment words")
}

func TestC03_LongOptions(t *testing.T) {
	var lens []int
	for _, c := range []int{255, 510, 765, 1020, 1275} {
		for d := -3; d <= 5; d++ {
			lens = append(lens, c+d)
		}
	}
	for _, code := range []byte{43, 82, 119, 61} {
		for _, l := range lens {
			var area []byte
			for rest, k := l, 0; rest > 0; k++ {
				n := min(rest, 255)
				area = append(append(area, code, byte(n)), bytes.Repeat([]byte{byte('a' + k)}, n)...)
				rest -= n
			}
			p := append(append(v4Prefix(), 53, 1, 5), area...)
			p = append(p, 1, 4, 255, 255, 255, 0, 255)
			c03.one(t, c03Case{Entry: "v4", B: p})
			m := append([]byte{20, 0, 0, 0, 0, 87, byte(len(p) >> 8), byte(len(p))}, p...)
			c03.one(t, c03Case{Entry: "v6", B: m})
		}
	}
	c03.rec.Class("long option values around the instance boundaries")
}

func FuzzC03_V6(f *testing.F) {
	f.Add([]byte{1, 0xaa, 0xbb, 0xcc, 0, 8, 0, 2, 0, 0})
	f.Add([]byte{12, 0, 0, 0, 0, 0, 0, 0, 0, 0, 0, 0, 0, 0, 0, 0, 0, 0, 0, 0, 0, 0, 0, 0, 0, 0, 0, 0, 0, 0, 0, 0, 0, 0, 0, 9, 0, 4, 1, 0, 0, 0})
	f.Fuzz(func(t *testing.T, b []byte) {
		if len(b) > 8192 {
			return
		}
		c03.one(t, c03Case{Entry: "v6", B: b})
	})
}

func FuzzC03_V4(f *testing.F) {
	f.Add(append(v4Prefix(), 53, 1, 1, 255))
	f.Fuzz(func(t *testing.T, b []byte) {
		if len(b) > 8192 {
			return
		}
		c03.one(t, c03Case{Entry: "v4", B: b})
	})
}

func FuzzC03_RawFrame(f *testing.F) {
	f.Add(refip.Build(5, nil, -1, 17, [4]byte{10, 0, 0, 1}, [4]byte{255, 255, 255, 255}, 67, 68, []byte("payload"), nil))
	f.Fuzz(func(t *testing.T, b []byte) {
		if len(b) > 2048 || len(b) == 0 {
			return
		}
		c03.one(t, c03Case{Entry: "raw", B: b})
	})
}

var _ = io.EOF
var _ = strings.Contains
var _ = fmt.Sprint
