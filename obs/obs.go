// Package obs is the bookkeeping layer shared by every check: it counts what a
// run generated, classifies cases, keeps the set of distinct non-trivial case
// hashes, collects samples, writes violations as replay files and knows the
// list of known findings. Nothing in here draws random numbers or reads the
// clock for anything but the wall time reported in the evidence.
package obs

import (
	"bufio"
	"encoding/binary"
	"encoding/hex"
	"encoding/json"
	"fmt"
	"hash/fnv"
	"os"
	"path/filepath"
	"runtime/debug"
	"sort"
	"strings"
	"sync"
	"time"
)

// Hex is a byte string that is written as a hex string in JSON (replay files,
// samples) so that cases stay readable and byte exact.
type Hex []byte

func (h Hex) MarshalJSON() ([]byte, error) { return json.Marshal(hex.EncodeToString(h)) }
func (h *Hex) UnmarshalJSON(b []byte) error {
	var s string
	if err := json.Unmarshal(b, &s); err != nil {
		return err
	}
	d, err := hex.DecodeString(s)
	if err != nil {
		return err
	}
	*h = d
	return nil
}

// Fail is what an oracle returns when the property does not hold on a case.
type Fail struct {
	Sig      string // root-cause signature, e.g. "C06/unstable/iaprefix-len>128"
	Expected string
	Got      string
}

func (f *Fail) String() string {
	return fmt.Sprintf("sig=%s\n  expected: %s\n  got:      %s", f.Sig, clip(f.Expected, 600), clip(f.Got, 600))
}

func clip(s string, n int) string {
	if len(s) > n {
		return s[:n] + fmt.Sprintf("…(+%d bytes)", len(s)-n)
	}
	return s
}

// Failf builds a Fail.
func Failf(sig, expected, gotFormat string, a ...any) *Fail {
	return &Fail{Sig: sig, Expected: expected, Got: fmt.Sprintf(gotFormat, a...)}
}

type sample struct {
	hash uint64
	v    any
}

// Rec records one check (one property may have several checks).
type Rec struct {
	mu       sync.Mutex
	Prop     string
	Check    string
	Rule     string
	evals    int64
	classes  map[string]int64
	distinct map[uint64]struct{}
	first    []any
	smallest []sample
	known    map[string]int64
	viol     []violation
	start    time.Time
	extra    map[string]any
	exhaust  bool
}

type violation struct {
	Sig    string `json:"sig"`
	Replay string `json:"replay"`
	Detail string `json:"detail"`
}

var (
	regMu sync.Mutex
	recs  []*Rec
)

// New registers a recorder; Flush writes all registered recorders.
func New(prop, check, rule string) *Rec {
	r := &Rec{Prop: prop, Check: check, Rule: rule, classes: map[string]int64{}, distinct: map[uint64]struct{}{},
		known: map[string]int64{}, start: time.Now(), extra: map[string]any{}}
	regMu.Lock()
	recs = append(recs, r)
	regMu.Unlock()
	return r
}

// Eval counts one generated case.
func (r *Rec) Eval() { r.mu.Lock(); r.evals++; r.mu.Unlock() }

// EvalN counts n generated cases.
func (r *Rec) EvalN(n int64) { r.mu.Lock(); r.evals += n; r.mu.Unlock() }

// Class increments a class counter (distribution of what was generated).
func (r *Rec) Class(label string) { r.mu.Lock(); r.classes[label]++; r.mu.Unlock() }

// ClassN adds n to a class counter.
func (r *Rec) ClassN(label string, n int64) { r.mu.Lock(); r.classes[label] += n; r.mu.Unlock() }

// Extra stores an additional coverage key.
func (r *Rec) Extra(k string, v any) { r.mu.Lock(); r.extra[k] = v; r.mu.Unlock() }

// Exhaustive marks that the check enumerated its stated finite scope completely.
func (r *Rec) Exhaustive() { r.mu.Lock(); r.exhaust = true; r.mu.Unlock() }

// Hash64 is the case hash used for distinctness.
func Hash64(parts ...[]byte) uint64 {
	h := fnv.New64a()
	var l [8]byte
	for _, p := range parts {
		binary.LittleEndian.PutUint64(l[:], uint64(len(p)))
		h.Write(l[:])
		h.Write(p)
	}
	return h.Sum64()
}

// HashJSON hashes the JSON rendering of a case.
func HashJSON(v any) uint64 {
	b, _ := json.Marshal(v)
	return Hash64(b)
}

// NonTrivial records a case that is non-trivial by the check's rule. The
// sample function is only called when the case is kept as a sample.
func (r *Rec) NonTrivial(hash uint64, sampleFn func() any) {
	r.mu.Lock()
	defer r.mu.Unlock()
	if _, ok := r.distinct[hash]; ok {
		return
	}
	r.distinct[hash] = struct{}{}
	if len(r.first) < 3 {
		r.first = append(r.first, shrinkSample(sampleFn()))
		return
	}
	if len(r.smallest) < 5 || hash < r.smallest[len(r.smallest)-1].hash {
		r.smallest = append(r.smallest, sample{hash, shrinkSample(sampleFn())})
		sort.Slice(r.smallest, func(i, j int) bool { return r.smallest[i].hash < r.smallest[j].hash })
		if len(r.smallest) > 5 {
			r.smallest = r.smallest[:5]
		}
	}
}

// shrinkSample renders a sample to JSON and clips it so evidence files stay small.
func shrinkSample(v any) any {
	b, err := json.Marshal(v)
	if err != nil {
		return fmt.Sprintf("%v", v)
	}
	if len(b) <= 1500 {
		var out any
		if json.Unmarshal(b, &out) == nil {
			return out
		}
	}
	return clip(string(b), 1500)
}

// ---- known findings ------------------------------------------------------

type finding struct {
	prop, sig, what string
}

var (
	knownOnce sync.Once
	knownList []finding
)

// Root returns the /verif directory (VERIF_ROOT or the parent of the package dir).
func Root() string {
	if r := os.Getenv("VERIF_ROOT"); r != "" {
		return r
	}
	wd, _ := os.Getwd()
	for d := wd; d != "/"; d = filepath.Dir(d) {
		if _, err := os.Stat(filepath.Join(d, "properties.jsonl")); err == nil {
			return d
		}
	}
	return wd
}

func loadKnown() {
	f, err := os.Open(filepath.Join(Root(), "KNOWN_FINDINGS.txt"))
	if err != nil {
		return
	}
	defer f.Close()
	sc := bufio.NewScanner(f)
	for sc.Scan() {
		line := strings.TrimSpace(sc.Text())
		if !strings.HasPrefix(line, "known:") {
			continue // "fixed:" lines and comments suppress nothing
		}
		fields := strings.Fields(strings.TrimPrefix(line, "known:"))
		var fd finding
		var rest []string
		for _, f := range fields {
			switch {
			case strings.HasPrefix(f, "property=") && fd.prop == "":
				fd.prop = strings.TrimPrefix(f, "property=")
			case strings.HasPrefix(f, "sig=") && fd.sig == "":
				fd.sig = strings.TrimPrefix(f, "sig=")
			default:
				rest = append(rest, f)
			}
		}
		fd.what = strings.Join(rest, " ")
		if fd.prop != "" && fd.sig != "" {
			knownList = append(knownList, fd)
		}
	}
}

// IsKnown reports whether (prop, sig) is listed as a known finding.
func IsKnown(prop, sig string) (string, bool) {
	knownOnce.Do(loadKnown)
	for _, f := range knownList {
		if f.prop == prop && f.sig == sig {
			return f.what, true
		}
	}
	return "", false
}

// Known counts a violation that matches a known finding; returns true when it
// is known (the caller then treats the case as excluded and continues).
func (r *Rec) Known(f *Fail) bool {
	if _, ok := IsKnown(r.Prop, f.Sig); !ok {
		return false
	}
	r.mu.Lock()
	r.known[f.Sig]++
	r.mu.Unlock()
	return true
}

// ---- violations ----------------------------------------------------------

// ReplayFile is the on-disk form of a failing (or regression) case.
type ReplayFile struct {
	Property string          `json:"property"`
	Check    string          `json:"check"`
	Sig      string          `json:"sig"`
	Expected string          `json:"expected,omitempty"`
	Got      string          `json:"got,omitempty"`
	Case     json.RawMessage `json:"case"`
}

func outDir() string {
	d := os.Getenv("VERIF_OUT")
	if d == "" {
		d = filepath.Join(Root(), "work", "out", "adhoc")
	}
	os.MkdirAll(d, 0o755)
	return d
}

// Violation writes (overwrites) the pending replay file of this check. rapid
// re-runs the property while shrinking, and its last failing execution is the
// minimal one, so the file that survives is the minimal reproduction.
func (r *Rec) Violation(f *Fail, c any) string {
	cb, _ := json.Marshal(c)
	rf := ReplayFile{Property: r.Prop, Check: r.Check, Sig: f.Sig, Expected: clip(f.Expected, 4000), Got: clip(f.Got, 4000), Case: cb}
	b, _ := json.MarshalIndent(rf, "", " ")
	shard := os.Getenv("VERIF_SHARD")
	path := filepath.Join(outDir(), fmt.Sprintf("pending-%s-%s-%s.json", r.Prop, r.Check, shard))
	os.WriteFile(path, b, 0o644)
	r.mu.Lock()
	// keep only the latest per signature (the shrunk one)
	kept := r.viol[:0]
	for _, v := range r.viol {
		if v.Replay != path {
			kept = append(kept, v)
		}
	}
	r.viol = append(kept, violation{Sig: f.Sig, Replay: path, Detail: clip(f.String(), 1500)})
	r.mu.Unlock()
	return path
}

// Guard runs fn and converts a panic into a Fail with the given signature prefix.
func Guard(sigPrefix string, fn func() *Fail) (res *Fail) {
	defer func() {
		if p := recover(); p != nil {
			st := string(debug.Stack())
			res = &Fail{Sig: sigPrefix + "/panic/" + PanicSite(st), Expected: "no panic", Got: fmt.Sprintf("panic: %v\n%s", p, clip(st, 2500))}
		}
	}()
	return fn()
}

// PanicSite extracts the top-most library frame (function name) from a stack.
func PanicSite(stack string) string {
	lines := strings.Split(stack, "\n")
	for _, l := range lines {
		l = strings.TrimSpace(l)
		if strings.HasPrefix(l, "github.com/insomniacslk/dhcp/") {
			if i := strings.LastIndex(l, "("); i > 0 {
				l = l[:i]
			}
			return strings.TrimPrefix(l, "github.com/insomniacslk/dhcp/")
		}
	}
	return "unknown"
}

// ---- flush ----------------------------------------------------------------

type fragment struct {
	Property   string           `json:"property"`
	Check      string           `json:"check"`
	Rule       string           `json:"rule"`
	Evals      int64            `json:"evaluations"`
	Distinct   int              `json:"distinct_nontrivial"`
	Classes    map[string]int64 `json:"classes"`
	Samples    []any            `json:"samples"`
	Known      map[string]int64 `json:"excluded_known"`
	Violations []violation      `json:"violations"`
	WallS      float64          `json:"wall_s"`
	Extra      map[string]any   `json:"extra"`
	Exhaustive bool             `json:"exhaustive"`
	HashFile   string           `json:"hash_file"`
}

// Flush writes one fragment (and its hash set) per registered recorder that saw any case.
func Flush() {
	regMu.Lock()
	defer regMu.Unlock()
	shard := os.Getenv("VERIF_SHARD")
	for _, r := range recs {
		r.mu.Lock()
		if r.evals == 0 && len(r.viol) == 0 {
			r.mu.Unlock()
			continue
		}
		fr := fragment{Property: r.Prop, Check: r.Check, Rule: r.Rule, Evals: r.evals, Distinct: len(r.distinct), Classes: r.classes,
			Known: r.known, Violations: r.viol, WallS: time.Since(r.start).Seconds(), Extra: r.extra, Exhaustive: r.exhaust}
		fr.Samples = append(fr.Samples, r.first...)
		for _, s := range r.smallest {
			fr.Samples = append(fr.Samples, s.v)
		}
		base := filepath.Join(outDir(), fmt.Sprintf("frag-%s-%s-%s-%d", r.Prop, r.Check, shard, os.Getpid()))
		hb := make([]byte, 0, 8*len(r.distinct))
		var w [8]byte
		for h := range r.distinct {
			binary.LittleEndian.PutUint64(w[:], h)
			hb = append(hb, w[:]...)
		}
		os.WriteFile(base+".hashes", hb, 0o644)
		fr.HashFile = base + ".hashes"
		b, _ := json.MarshalIndent(fr, "", " ")
		os.WriteFile(base+".json", b, 0o644)
		r.mu.Unlock()
	}
}
