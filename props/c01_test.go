package props

import (
	"bytes"
	"fmt"
	"net"
	"sort"
	"testing"

	"github.com/insomniacslk/dhcp/dhcpv4"

	"verif/gen"
	"verif/obs"
)

// C01 — DHCPv4 encode→decode preserves every header field and option value.
//
// Oracle: q := FromBytes(p.ToBytes()) must succeed and equal p through the
// public struct fields and the Options map (same key set, byte-equal values).
// Only the documented equivalences are applied: nil ≡ 0.0.0.0 and 4-byte ≡
// IPv4-mapped for addresses, nil ≡ empty for the hardware address and for
// empty option values.

// c01Refused: malformed packets (fresh copies each time) whose rejection happens midway through the options.
func c01Refused() [][]byte {
	long := &dhcpv4.DHCPv4{OpCode: 1, HWType: 1, ClientHWAddr: net.HardwareAddr{1, 2, 3, 4, 5, 6}, Options: dhcpv4.Options{}}
	v := make([]byte, 700)
	for i := range v {
		v[i] = 0xB0 | byte(i&0xf)
	}
	long.Options[43] = v
	long.Options[12] = []byte("refused")
	full := long.ToBytes()
	var out [][]byte
	for _, cut := range []int{100, 239, 245, 240 + 257 + 40, 240 + 2*257 + 40, len(full) - 1} {
		if cut < len(full) {
			out = append(out, append([]byte{}, full[:cut]...))
		}
	}
	out = append(out, append(append([]byte{}, full[:240]...), 43, 200, 1, 2, 3))
	return out
}

var c01 = newChk("C01", "roundtrip",
	"generated DHCPv4 packet values (C01 domain) encoded then decoded; non-trivial = ≥1 option and one of {value >255 bytes, empty value, chaddr length ≠ 6, non-empty sname/file, ≥4 options}; distinct by hash of the encoding",
	func(rec *obs.Rec, c gen.V4Case) *obs.Fail {
		p := c.Lib()
		enc := p.ToBytes()
		encCopy := append([]byte{}, enc...)
		// history: other packets are encoded (and one decoded) between this encoding and its decoding — what
		// ToBytes returned must stay what it was
		other := c01Other(c)
		_ = other.ToBytes()
		if o2, err := dhcpv4.FromBytes(other.ToBytes()); err == nil {
			_ = o2.ToBytes()
		}
		// the unhappy path in between: inputs the decoder must refuse (a packet cut inside a split long option, after
		// one and after two complete instances; inside the header; an option announcing more than is left) are
		// decoded before this one — a decode depends on its input alone
		for _, bad := range c01Refused() {
			if _, err := dhcpv4.FromBytes(bad); err == nil {
				return obs.Failf("C01/harness/poison-accepted", "a truncated packet is refused", "accepted %d bytes", len(bad))
			}
		}
		_ = p.ToBytes()
		if !bytes.Equal(enc, encCopy) {
			return obs.Failf("C01/encoding-changed-by-later-calls", "the bytes returned by ToBytes stay as returned", "changed at byte %d after encoding other packets", firstDiff(enc, encCopy))
		}
		q, err := dhcpv4.FromBytes(enc)
		if err != nil {
			return obs.Failf("C01/decode-error", "decoding of own encoding succeeds", "error %v (encoding %d bytes)", err, len(enc))
		}
		if f := cmpV4(c, q); f != nil {
			return f
		}
		// decoding reads its input, it does not write to it; the same bytes decode to the same packet again, also
		// after the first result has been overwritten in place (results share no memory with each other)
		if !bytes.Equal(enc, encCopy) {
			return obs.Failf("C01/decoder-wrote-to-its-input", "FromBytes leaves its input unchanged", "input changed at byte %d", firstDiff(enc, encCopy))
		}
		// second generation: the decoded packet encodes to the same bytes and decodes to the same packet again (a value
		// the decoder itself produced — e.g. a nil slice for an empty option — must be as encodable as a hand-built one)
		enc2 := q.ToBytes()
		if !bytes.Equal(enc2, enc) {
			return obs.Failf("C01/second-generation/encoding", "the decoded packet re-encodes to the same bytes", "differs at byte %d", firstDiff(enc2, enc))
		}
		// the same packet with its empty option values held as nil instead of empty slices is the same packet
		pn := c.Lib()
		for k, v := range pn.Options {
			if len(v) == 0 {
				pn.Options[k] = nil
			}
		}
		if encN := pn.ToBytes(); !bytes.Equal(encN, enc) {
			return obs.Failf("C01/nil-vs-empty", "an empty option value encodes the same whether it is nil or an empty slice", "differs at byte %d", firstDiff(encN, enc))
		}
		scribbleValue(q, 0xA5)
		q2, err := dhcpv4.FromBytes(enc)
		if err != nil {
			return obs.Failf("C01/second-decode-error", "the same bytes decode again", "error %v", err)
		}
		if f := cmpV4(c, q2); f != nil {
			f.Sig += "/second-decode"
			return f
		}
		// classification
		long, empty := false, false
		for _, o := range c.Opts {
			if len(o.Val) > 255 {
				long = true
			}
			if len(o.Val) == 0 {
				empty = true
			}
		}
		if long {
			rec.Class("has >255-byte value")
		}
		if empty {
			rec.Class("has empty value")
		}
		if len(c.CHAddr) != 6 {
			rec.Class("chaddr len != 6")
		}
		if len(c.Opts) > 0 && (long || empty || len(c.CHAddr) != 6 || len(c.SName) > 0 || len(c.File) > 0 || len(c.Opts) >= 4) {
			rec.NonTrivial(obs.Hash64(enc), func() any { return summarizeV4(c) })
		}
		return nil
	})

// c01Other derives a different packet of at least 300 encoded bytes from the case (deterministically, so that a
// replayed case sees the same history).
func c01Other(c gen.V4Case) *dhcpv4.DHCPv4 {
	o := c.Lib()
	o.TransactionID[0] ^= 0xff
	o.ClientHWAddr = net.HardwareAddr{0xde, 0xad, 0xbe, 0xef, 0, byte(len(c.Opts))}
	o.YourIPAddr = net.IP{203, 0, 113, 77}
	for k, v := range o.Options {
		w := make([]byte, len(v))
		for i := range v {
			w[i] = ^v[i]
		}
		o.Options[k] = w
	}
	o.Options[250] = bytes.Repeat([]byte{0x5A}, 310)
	return o
}

func ip4eq(lib net.IP, want [4]byte) bool {
	if lib == nil {
		return want == [4]byte{}
	}
	v := lib.To4()
	return v != nil && bytes.Equal(v, want[:])
}

// cmpV4 compares a decoded library packet with the generated case.
func cmpV4(c gen.V4Case, q *dhcpv4.DHCPv4) *obs.Fail {
	bad := func(field string, want, got any) *obs.Fail {
		return obs.Failf("C01/field/"+field, fmt.Sprintf("%s = %v", field, want), "%v", got)
	}
	if uint8(q.OpCode) != c.Op {
		return bad("op", c.Op, q.OpCode)
	}
	if uint8(q.HWType) != c.HType {
		return bad("htype", c.HType, q.HWType)
	}
	if q.HopCount != c.Hops {
		return bad("hops", c.Hops, q.HopCount)
	}
	if !bytes.Equal(q.TransactionID[:], c.Xid) {
		return bad("xid", hx(c.Xid), hx(q.TransactionID[:]))
	}
	if q.NumSeconds != c.Secs {
		return bad("secs", c.Secs, q.NumSeconds)
	}
	if q.Flags != c.Flags {
		return bad("flags", c.Flags, q.Flags)
	}
	if !ip4eq(q.ClientIPAddr, c.CI.Four()) {
		return bad("ciaddr", c.CI.Four(), q.ClientIPAddr)
	}
	if !ip4eq(q.YourIPAddr, c.YI.Four()) {
		return bad("yiaddr", c.YI.Four(), q.YourIPAddr)
	}
	if !ip4eq(q.ServerIPAddr, c.SI.Four()) {
		return bad("siaddr", c.SI.Four(), q.ServerIPAddr)
	}
	if !ip4eq(q.GatewayIPAddr, c.GI.Four()) {
		return bad("giaddr", c.GI.Four(), q.GatewayIPAddr)
	}
	if !bytes.Equal(q.ClientHWAddr, c.CHAddr) {
		return bad("chaddr", hx(c.CHAddr), hx(q.ClientHWAddr))
	}
	if q.ServerHostName != string(c.SName) {
		return bad("sname", hx(c.SName), hx([]byte(q.ServerHostName)))
	}
	if q.BootFileName != string(c.File) {
		return bad("file", hx(c.File), hx([]byte(q.BootFileName)))
	}
	want := map[uint8][]byte{}
	for _, o := range c.Opts {
		want[o.Code] = o.Val
	}
	return cmpOptMap("C01", want, q.Options)
}

func cmpOptMap(prefix string, want map[uint8][]byte, got dhcpv4.Options) *obs.Fail {
	var keys []int
	for k := range want {
		keys = append(keys, int(k))
	}
	sort.Ints(keys)
	for _, k := range keys {
		v, ok := got[uint8(k)]
		if !ok {
			return obs.Failf(prefix+"/option-lost", fmt.Sprintf("option %d present (%d bytes)", k, len(want[uint8(k)])), "absent")
		}
		if !bytes.Equal(v, want[uint8(k)]) {
			return obs.Failf(prefix+"/option-value", fmt.Sprintf("option %d = %x", k, clipb(want[uint8(k)])), "%x (len %d, want len %d)", clipb(v), len(v), len(want[uint8(k)]))
		}
	}
	var gk []int
	for k := range got {
		gk = append(gk, int(k))
	}
	sort.Ints(gk)
	for _, k := range gk {
		if _, ok := want[uint8(k)]; !ok {
			return obs.Failf(prefix+"/option-invented", fmt.Sprintf("no option %d", k), "present with %d bytes", len(got[uint8(k)]))
		}
	}
	return nil
}

func clipb(b []byte) []byte {
	if len(b) > 48 {
		return b[:48]
	}
	return b
}

func summarizeV4(c gen.V4Case) any {
	type o struct {
		Code uint8 `json:"code"`
		Len  int   `json:"len"`
	}
	var os_ []o
	for _, x := range c.Opts {
		os_ = append(os_, o{x.Code, len(x.Val)})
	}
	return map[string]any{"op": c.Op, "htype": c.HType, "xid": hx(c.Xid), "flags": c.Flags, "chaddr": hx(c.CHAddr),
		"ci_form": c.CI.Form, "sname_len": len(c.SName), "file_len": len(c.File), "opts": os_}
}

// TestC01_Boundaries enumerates every value length around the split
// boundaries × code × neighbour option (seed independent).
func TestC01_Boundaries(t *testing.T) {
	var lens []int
	add := func(a, b int) {
		for i := a; i <= b; i++ {
			lens = append(lens, i)
		}
	}
	add(0, 3)
	add(250, 260)
	add(505, 515)
	add(760, 770)
	add(1015, 1025)
	lens = append(lens, 4096)
	for _, l := range lens {
		for _, code := range []uint8{1, 82, 254} {
			for nb := 0; nb < 3; nb++ {
				c := gen.V4Case{Op: 1, HType: 1, Xid: []byte{1, 2, 3, 4}, CHAddr: []byte{1, 2, 3, 4, 5, 6}}
				v := make([]byte, l)
				for i := range v {
					v[i] = byte(i*7 + 1)
				}
				c.Opts = append(c.Opts, gen.V4Opt{Code: code, Val: v})
				switch nb {
				case 1:
					c.Opts = append(c.Opts, gen.V4Opt{Code: 53, Val: []byte{1}})
				case 2:
					c.Opts = append(c.Opts, gen.V4Opt{Code: 60, Val: []byte{}}, gen.V4Opt{Code: 200, Val: bytes.Repeat([]byte{0xff}, 255)})
				}
				c01.one(t, c)
			}
		}
	}
	// many large options at once: options areas around and beyond 32 KiB and 64 KiB (k values of 4,096 octets, and
	// every code 1..254 with 300 octets each), where offsets and counts leave 15 and 16 bits
	for _, k := range []int{7, 8, 9, 15, 16, 17, 20, 33} {
		c := gen.V4Case{Op: 2, HType: 1, Xid: []byte{9, 8, 7, 6}, CHAddr: []byte{1, 2, 3, 4, 5, 6}}
		for j := 0; j < k; j++ {
			v := make([]byte, 4096)
			for i := range v {
				v[i] = byte(i*13 + j*31 + 1)
			}
			c.Opts = append(c.Opts, gen.V4Opt{Code: uint8(10 + 7*j), Val: v})
		}
		c01.one(t, c)
	}
	for _, per := range []int{1, 129, 300} {
		c := gen.V4Case{Op: 1, HType: 1, Xid: []byte{9, 8, 7, 5}, CHAddr: []byte{1, 2, 3, 4, 5, 6}}
		for code := 1; code <= 254; code++ {
			v := make([]byte, per)
			for i := range v {
				v[i] = byte(i + code)
			}
			c.Opts = append(c.Opts, gen.V4Opt{Code: uint8(code), Val: v})
		}
		c01.one(t, c)
	}
	c01.rec.Class("boundary-enumeration")
}

func TestC01_Rapid(t *testing.T) {
	c01.rapidCheck(t, gen.V4Packet(12, 4096))
}
