package props

import (
	"context"
	"fmt"
	"sync"
	"testing"
	"time"

	"pgregory.net/rapid"

	"verif/netsim"
	"verif/obs"
)

// C10, real-time stress mode: 2..8 real goroutines call send-and-read concurrently (distinct and colliding
// transaction ids) while a feeder goroutine delivers a generated stream; run with and without the race
// detector. Only interleaving-independent safety facts are asserted.

type c10Caller struct {
	Xid     int `json:"xid"`
	Matcher int `json:"matcher"` // 0 nil, 1 type==want, 3 accept the K-th candidate
	K       int `json:"k"`
	DelayUs int `json:"delay_us"`
}

type c10Feed struct {
	Kind  int   `json:"kind"`
	Xid   int   `json:"xid"`
	Typ   int   `json:"typ"`
	GapUs int   `json:"gap_us"`
	HType uint8 `json:"htype"`
}

type c10Stress struct {
	V6      bool        `json:"v6"`
	Callers []c10Caller `json:"callers"`
	Feeds   []c10Feed   `json:"feeds"`
}

var c10stress = newChk("C10", "stress",
	"real-time stress on one client: 2..8 goroutines calling send-and-read concurrently with distinct and colliding transaction ids and nil / type / accept-k-th matchers while a feeder delivers 0..40 datagrams (matching, non-matching, wrong id / hardware address / opcode, undecodable) with microsecond gaps; also under the race detector. Asserted under every interleaving: a call returns a non-nil error or a datagram that carries its transaction id, was accepted by its own matcher on that very invocation, and is returned to no other call; never (nil, nil); no panic; every call returns; non-trivial = ≥2 callers share a transaction id; distinct by case hash",
	func(rec *obs.Rec, c c10Stress) *obs.Fail {
		var ad cliAdapter = &v4Adapter{}
		if c.V6 {
			ad = &v6Adapter{}
		}
		conn := netsim.New(4096)
		if err := ad.start(conn, 25*time.Millisecond, 2, 0); err != nil {
			return obs.Failf("C10/harness", "client starts", "%v", err)
		}
		want := wantTypes(c.V6)[0]
		type res struct {
			serial, typ, accepted int
			isNil                 bool
			err                   error
			panicked              string
			xid                   int
		}
		results := make([]res, len(c.Callers))
		var wg sync.WaitGroup
		for i, cl := range c.Callers {
			wg.Add(1)
			go func(i int, cl c10Caller) {
				defer wg.Done()
				r := res{xid: cl.Xid, accepted: -1}
				defer func() {
					if p := recover(); p != nil {
						r.panicked = fmt.Sprint(p)
					}
					results[i] = r
				}()
				time.Sleep(time.Duration(cl.DelayUs) * time.Microsecond)
				req, _ := ad.request(cl.Xid, i)
				seen := 0
				match := func(serial, typ int) bool {
					seen++
					ok := true
					switch cl.Matcher {
					case 1:
						ok = typ == want
					case 3:
						ok = seen == cl.K
					}
					if ok {
						r.accepted = serial
					}
					return ok
				}
				r.serial, r.typ, r.isNil, _, r.err = ad.call(context.Background(), req, match, cl.Matcher == 0)
			}(i, cl)
		}
		go func() {
			for i, f := range c.Feeds {
				time.Sleep(time.Duration(f.GapUs) * time.Microsecond)
				conn.Deliver(ad.datagram(f.Kind, f.Xid, f.Typ, 1+i, 3, f.HType, 0), ad.dest())
			}
		}()
		done := make(chan struct{})
		go func() { wg.Wait(); close(done) }()
		select {
		case <-done:
		case <-time.After(60 * time.Second):
			return obs.Failf("C10/"+ad.name()+"/stress/stuck", "every call returns (budget 75 ms)", "calls still running after 60 s")
		}
		name := ad.name()
		closed := make(chan struct{})
		go func() { ad.close(); close(closed) }()
		select {
		case <-closed:
		case <-time.After(10 * time.Second):
			rec.Class("Close did not return within 10 s (C11's business, not asserted here)")
		}
		feedXid := map[int]int{}
		for i, f := range c.Feeds {
			if f.Kind == dgGood {
				feedXid[1+i] = f.Xid
			}
		}
		returned := map[int]int{}
		for i, r := range results {
			who := fmt.Sprintf("caller %d (xid %d)", i, r.xid)
			switch {
			case r.panicked != "":
				return obs.Failf("C10/"+name+"/stress/panic", who+" returns normally", "panic: %s", r.panicked)
			case r.isNil && r.err == nil:
				return obs.Failf("C10/"+name+"/stress/nil-nil", who+" returns a response or an error", "(nil, nil)")
			case r.err != nil:
				continue
			}
			fx, good := feedXid[r.serial]
			switch {
			case !good:
				return obs.Failf("C10/"+name+"/stress/foreign", who+" returns a datagram that passes the documented filters", "serial %d (not a well-formed reply of the stream)", r.serial)
			case fx != r.xid:
				return obs.Failf("C10/"+name+"/stress/wrong-transaction", who+" returns a datagram of its own transaction", "serial %d of transaction %d", r.serial, fx)
			case c.Callers[i].Matcher != 0 && r.accepted != r.serial:
				return obs.Failf("C10/"+name+"/stress/matcher", who+" returns the datagram its matcher accepted", "returned %d, matcher accepted %d", r.serial, r.accepted)
			}
			if j, dup := returned[r.serial]; dup {
				return obs.Failf("C10/"+name+"/stress/shared-response", "a datagram is returned to one call only", "serial %d returned to callers %d and %d", r.serial, j, i)
			}
			returned[r.serial] = i
		}
		collide := false
		seen := map[int]bool{}
		for _, cl := range c.Callers {
			if seen[cl.Xid] {
				collide = true
			}
			seen[cl.Xid] = true
		}
		rec.Class(name)
		if collide {
			rec.Class("colliding ids")
			rec.NonTrivial(obs.HashJSON(c), func() any { return c })
		}
		return nil
	})

func TestC10_StressRapid(t *testing.T) {
	c10stress.rapidCheck(t, rapid.Custom(func(rt *rapid.T) c10Stress {
		c := c10Stress{V6: rapid.Bool().Draw(rt, "v6")}
		types := wantTypes(c.V6)
		for i := rapid.IntRange(2, 8).Draw(rt, "ncallers"); i > 0; i-- {
			c.Callers = append(c.Callers, c10Caller{Xid: rapid.IntRange(0, 2).Draw(rt, "xid"), Matcher: rapid.SampledFrom([]int{0, 1, 1, 3}).Draw(rt, "matcher"),
				K: rapid.IntRange(1, 3).Draw(rt, "k"), DelayUs: rapid.SampledFrom([]int{0, 0, 0, 20, 100, 500, 3000}).Draw(rt, "delay")})
		}
		for i := rapid.IntRange(0, 40).Draw(rt, "nfeeds"); i > 0; i-- {
			c.Feeds = append(c.Feeds, c10Feed{Kind: rapid.SampledFrom([]int{dgGood, dgGood, dgGood, dgGood, dgWrongXid, dgWrongHW, dgWrongOp, dgGarbage}).Draw(rt, "kind"),
				Xid: rapid.IntRange(0, 2).Draw(rt, "fxid"), Typ: rapid.SampledFrom(types).Draw(rt, "typ"), GapUs: rapid.SampledFrom([]int{0, 0, 5, 50, 300, 2000}).Draw(rt, "gap"),
				HType: rapid.SampledFrom([]uint8{0, 0, 0, 6, 32}).Draw(rt, "htype")})
		}
		return c
	}))
}
