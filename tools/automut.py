#!/usr/bin/env python3
"""Automatic mutation-sensitivity campaign.

For a deterministic sample of syntactic mutants of the library (tools/automut/main.go: operator replacement,
literal +-1, negated conditions, removed guards, deleted statements, break/continue swaps) this tool
  1. makes a scratch copy of /repo's working tree outside /repo and /verif, applies ONE mutant,
  2. drops it if it does not build ("stillborn") or if the repository's own test suite fails ("suite-killed":
     the existing tests already catch it, so it is not the kind of change the checks exist for),
  3. runs the quick checks mapped to the mutated file against the copy (VERIF_REPO=<copy> ./check <id> quick),
     cheapest first, until one exits 1 ("killed", with the signature) — or none does ("survived").
Exit 2 of a check is recorded as "inconclusive". Nothing is ever written to /repo. Results: one JSON line per
mutant in --out. Survivors are then triaged by hand (equivalent mutant / outside every property / real gap).

usage: tools/automut.py --out FILE [--sample N] [--seed S] [--workers W] [--only substr,...] [--resume]
"""
import argparse
import concurrent.futures as cf
import json
import os
import random
import shutil
import subprocess
import sys
import threading
import time

ROOT = os.path.dirname(os.path.dirname(os.path.abspath(__file__)))
REPO = "/repo"
GO = shutil.which("go1.26.8") or "/usr/local/bin/go1.26.8"

V4CORE = ["C01", "C04", "C07", "C15", "C17", "C06", "C20", "C03", "C13"]
MAP = [  # (path prefix, checks in the order they are tried)
    ("dhcpv4/dhcpv4.go", V4CORE),
    ("dhcpv4/options.go", ["C01", "C04", "C07", "C17", "C06", "C03", "C08", "C09"]),
    ("dhcpv4/modifiers.go", ["C15", "C13", "C17"]),
    ("dhcpv4/types.go", ["C15", "C10", "C13", "C17", "C20", "C03"]),
    ("dhcpv4/option_", ["C17", "C15", "C07", "C20", "C03", "C06"]),
    ("dhcpv4/nclient4/client.go", ["C12", "C13", "C11", "C10"]),
    ("dhcpv4/nclient4/lease.go", ["C13"]),
    ("dhcpv4/nclient4/ipv4.go", ["C18", "C03"]),
    ("dhcpv4/nclient4/conn_unix.go", ["C18", "C03"]),
    ("dhcpv4/server4/server.go", ["C14"]),
    ("dhcpv4/ztpv4/", ["C03"]),
    ("dhcpv6/dhcpv6.go", ["C02", "C05", "C16", "C06", "C03", "C20", "C13"]),
    ("dhcpv6/dhcpv6message.go", ["C02", "C05", "C16", "C06", "C03", "C20", "C13"]),
    ("dhcpv6/dhcpv6relay.go", ["C02", "C05", "C16", "C06", "C03", "C20"]),
    ("dhcpv6/modifiers.go", ["C16", "C13", "C02"]),
    ("dhcpv6/nclient6/client.go", ["C12", "C13", "C11", "C10"]),
    ("dhcpv6/server6/server.go", ["C14"]),
    ("dhcpv6/ztpv6/", ["C03"]),
    ("dhcpv6/options.go", ["C02", "C05", "C06", "C03", "C08", "C20", "C16", "C09"]),
    ("dhcpv6/option_", ["C02", "C05", "C06", "C03", "C08", "C20", "C16"]),
    ("dhcpv6/duid.go", ["C02", "C05", "C06", "C03", "C08", "C16"]),
    ("dhcpv6/types.go", ["C02", "C20", "C03"]),
    ("netboot/netboot.go", ["C03"]),
    ("rfc1035label/label.go", ["C19", "C05", "C02", "C17", "C09", "C08"]),
    ("iana/archtype.go", ["C03", "C17", "C02"]),
]


def checks_for(rel):
    for pre, cs in MAP:
        if rel.startswith(pre):
            return cs
    return None


def env(gocache):
    e = dict(os.environ)
    e.update({"GOFLAGS": "-mod=mod", "GOPROXY": "off", "GOSUMDB": "off", "GOTOOLCHAIN": "local", "GOCACHE": gocache})
    return e


def sh(cmd, cwd, e, timeout):
    try:
        p = subprocess.run(cmd, shell=True, cwd=cwd, env=e, stdout=subprocess.PIPE, stderr=subprocess.STDOUT, text=True, timeout=timeout)
        return p.returncode, p.stdout
    except subprocess.TimeoutExpired as ex:
        return -9, (ex.stdout or b"").decode(errors="replace") if isinstance(ex.stdout, bytes) else (ex.stdout or "")


def enumerate_sites(mutbin):
    sites = []
    for dp, dn, fn in os.walk(REPO):
        dn[:] = [d for d in dn if d != ".git"]
        for f in sorted(fn):
            if not f.endswith(".go") or f.endswith("_test.go") or f.endswith("_windows.go"):
                continue
            rel = os.path.relpath(os.path.join(dp, f), REPO)
            if checks_for(rel) is None:
                continue
            out = subprocess.run([mutbin, "-file", os.path.join(REPO, rel), "-list"], stdout=subprocess.PIPE, text=True).stdout
            for line in out.splitlines():
                i, ln, op, fnname, desc = line.split("\t")
                sites.append({"file": rel, "site": int(i), "line": int(ln), "op": op, "func": fnname, "desc": desc})
    sites.sort(key=lambda s: (s["file"], s["site"]))
    return sites


def run_one(m, base, mutbin, gocache, lock, outf, suite_sem):
    wid = threading.get_ident()
    work = os.path.join(base, "w%d" % wid)
    shutil.rmtree(work, ignore_errors=True)
    subprocess.run(["rsync", "-a", "--exclude", ".git", REPO + "/", work + "/"], check=True)
    e = env(gocache)
    res = dict(m)
    t0 = time.time()
    try:
        target = os.path.join(work, m["file"])
        r = subprocess.run([mutbin, "-file", os.path.join(REPO, m["file"]), "-site", str(m["site"]), "-out", target])
        if r.returncode != 0:
            res["status"] = "tool-error"
            return res
        d = subprocess.run(["diff", "-u", os.path.join(REPO, m["file"]), target], stdout=subprocess.PIPE, text=True).stdout
        res["diff"] = "\n".join(l for l in d.splitlines()[2:] if l.startswith(("+", "-")))[:600]
        rc, out = sh("go build ./...", work, e, 300)
        if rc != 0:
            res["status"] = "stillborn"
            return res
        with suite_sem:
            rc, out = sh("go test -vet=off -count=1 -timeout 120s ./...", work, e, 400)
            if rc != 0 and ("nclient6" in out and "connection refused" in out):
                rc, out = sh("go test -vet=off -count=1 -timeout 120s ./...", work, e, 400)
        if rc != 0:
            res["status"] = "suite-killed"
            fails = [l for l in out.splitlines() if l.startswith(("--- FAIL", "FAIL", "panic:"))]
            res["suite"] = fails[:3]
            return res
        res["checks"] = {}
        res["status"] = "survived"
        for cid in checks_for(m["file"]):
            e2 = dict(e, VERIF_REPO=work, VERIF_SEED="0")
            rc, out = sh("./check %s quick" % cid, ROOT, e2, 1500)
            sigs = sorted(set(l.split("sig=")[-1] for l in out.splitlines() if l.startswith("VIOLATION property")))
            res["checks"][cid] = {"exit": rc, "sigs": sigs[:3]}
            if rc == 1:
                res["status"] = "killed"
                res["killed_by"] = cid
                break
            if rc != 0:
                res["status"] = "inconclusive"
                res["checks"][cid]["tail"] = out[-600:]
        return res
    finally:
        res["wall_s"] = round(time.time() - t0, 1)
        shutil.rmtree(work, ignore_errors=True)
        with lock:
            outf.write(json.dumps(res, sort_keys=True) + "\n")
            outf.flush()


def main():
    ap = argparse.ArgumentParser()
    ap.add_argument("--out", required=True)
    ap.add_argument("--sample", type=int, default=400)
    ap.add_argument("--seed", type=int, default=1)
    ap.add_argument("--workers", type=int, default=6)
    ap.add_argument("--only", default="")
    ap.add_argument("--resume", action="store_true")
    a = ap.parse_args()
    if subprocess.run("git -C /repo status --porcelain", shell=True, stdout=subprocess.PIPE, text=True).stdout.strip():
        print("/repo not clean")
        return 2
    base = "/tmp/automut-%d" % os.getpid()
    os.makedirs(base, exist_ok=True)
    gocache = os.path.join(base, "gocache")
    mutbin = os.path.join(base, "automut")
    rc, out = sh("%s build -o %s ./tools/automut" % (GO, mutbin), ROOT, env(gocache), 600)
    if rc != 0:
        print(out)
        return 2
    sites = enumerate_sites(mutbin)
    if a.only:
        subs = a.only.split(",")
        sites = [s for s in sites if any(x in s["file"] for x in subs)]
    print("mutation sites in scope: %d" % len(sites), flush=True)
    rnd = random.Random(a.seed)
    rnd.shuffle(sites)
    todo = sites[:a.sample]
    done = set()
    if a.resume and os.path.exists(a.out):
        for l in open(a.out):
            try:
                r = json.loads(l)
                done.add((r["file"], r["site"]))
            except Exception:
                pass
    todo = [s for s in todo if (s["file"], s["site"]) not in done]
    os.makedirs(os.path.dirname(os.path.abspath(a.out)), exist_ok=True)
    outf = open(a.out, "a")
    lock = threading.Lock()
    suite_sem = threading.Semaphore(a.workers)
    # warm the cache once (copy without mutation)
    n = 0
    try:
        with cf.ThreadPoolExecutor(a.workers) as ex:
            futs = [ex.submit(run_one, m, base, mutbin, gocache, lock, outf, suite_sem) for m in todo]
            for f in cf.as_completed(futs):
                n += 1
                try:
                    r = f.result()
                    print("%d/%d %-34s #%-3d L%-4d %-10s %-12s %s" % (n, len(todo), r["file"], r["site"], r["line"], r["op"], r["status"],
                                                                   r.get("killed_by", "")), flush=True)
                except Exception as exn:
                    print("worker error:", exn, flush=True)
                if n % 50 == 0:
                    # keep the scratch build cache bounded
                    sz = subprocess.run("du -sm %s | cut -f1" % gocache, shell=True, stdout=subprocess.PIPE, text=True).stdout.strip()
                    if sz.isdigit() and int(sz) > 30000:
                        subprocess.run([GO, "clean", "-cache"], env=env(gocache))
    finally:
        shutil.rmtree(base, ignore_errors=True)
    return 0


if __name__ == "__main__":
    sys.exit(main())
