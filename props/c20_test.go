package props

import (
	"bytes"
	"fmt"
	"net"
	"reflect"
	"testing"
	"time"

	"github.com/insomniacslk/dhcp/dhcpv4"
	"github.com/insomniacslk/dhcp/dhcpv6"
	"github.com/insomniacslk/dhcp/iana"
	"github.com/insomniacslk/dhcp/rfc1035label"
	"pgregory.net/rapid"

	"verif/gen"
	"verif/obs"
	"verif/ref/refv6"
)

// C20 — reading or printing a message never changes it.
//
// For a value built by mk() (fresh each time): the observation paths are
// discovered on a scratch copy; the baseline of every path is taken on its own
// pristine copy; then a generated program of ≤6 read-only calls runs on one
// object, interleaved with encodings: every call must return its pristine
// baseline, the encoding must never change, and at the end every path must
// still return its baseline.

type c20Case struct {
	Kind int     `json:"kind"` // 0 v4 decoded, 1 v4 built, 2 v6 decoded, 3 v6 built from tree, 4 standalone option value
	B    obs.Hex `json:"bytes"`
	Opt  int     `json:"opt"`  // standalone option selector
	Prog []int   `json:"prog"` // indices into the discovered path list (mod its length)
}

type c20Val struct {
	root reflect.Value
	enc  func() []byte
}

func c20Make(c c20Case) (func() *c20Val, string) {
	switch c.Kind {
	case 0:
		if _, err := dhcpv4.FromBytes(append([]byte{}, c.B...)); err != nil {
			return nil, ""
		}
		return func() *c20Val {
			p, _ := dhcpv4.FromBytes(append([]byte{}, c.B...))
			return &c20Val{reflect.ValueOf(p), p.ToBytes}
		}, "v4-decoded"
	case 1:
		ref, why := decodeRefV4(c.B)
		if !why {
			return nil, ""
		}
		return func() *c20Val {
			p := gen.RefV4ToLib(ref)
			// typed values with list-typed fields attached through the exported constructors
			p.UpdateOption(dhcpv4.OptParameterRequestList(dhcpv4.OptionRouter, dhcpv4.OptionSubnetMask, dhcpv4.OptionDomainName, dhcpv4.OptionBroadcastAddress))
			if len(c.B)%2 == 1 {
				// list arguments with repeated and unsorted elements: legal to construct, whatever a reader makes of them
				p.UpdateOption(dhcpv4.OptParameterRequestList(dhcpv4.OptionRouter, dhcpv4.OptionRouter, dhcpv4.OptionSubnetMask, dhcpv4.OptionBootfileName, dhcpv4.OptionRouter))
				p.UpdateOption(dhcpv4.OptClientArch(iana.Arch(7), iana.Arch(7), iana.Arch(0)))
				p.UpdateOption(dhcpv4.OptDNS(net.IP{8, 8, 8, 8}, net.IP{8, 8, 8, 8}, net.IP{1, 1, 1, 1}))
			}
			return &c20Val{reflect.ValueOf(p), p.ToBytes}
		}, "v4-built"
	case 2:
		if _, err := dhcpv6.FromBytes(append([]byte{}, c.B...)); err != nil {
			return nil, ""
		}
		return func() *c20Val {
			d, _ := dhcpv6.FromBytes(append([]byte{}, c.B...))
			return &c20Val{reflect.ValueOf(d), d.ToBytes}
		}, "v6-decoded"
	case 3:
		t, v := refv6.DecodeMsg(c.B, v6Cov().skip, nil)
		if v != refv6.Accept {
			return nil, ""
		}
		return func() *c20Val {
			// one case in three holds every second typed option as a generic one (same code, same bytes), nil for
			// empty fields and spare capacity behind byte fields: a reader has nothing to "repair" there
			repr := 0
			if len(c.B)%3 == 0 {
				repr = 4 | 2 | 8
				if len(c.B)%2 == 0 {
					repr |= 16 // the relay message option as well
				}
			}
			d := gen.ToLibMsgRepr(t, repr)
			if m, ok := d.(*dhcpv6.Message); ok && len(c.B)%2 == 1 {
				// constructor-built options whose list arguments hold repeated and unsorted elements (a decoder may
				// drop duplicates; a constructor takes what it is given)
				if m.GetOneOption(dhcpv6.OptionORO) == nil {
					m.AddOption(dhcpv6.OptRequestedOption(dhcpv6.OptionDNSRecursiveNameServer, dhcpv6.OptionDNSRecursiveNameServer, dhcpv6.OptionDomainSearchList, dhcpv6.OptionBootfileURL, dhcpv6.OptionDNSRecursiveNameServer, dhcpv6.OptionBootfileParam))
				}
				if m.GetOneOption(dhcpv6.OptionClientArchType) == nil {
					m.AddOption(dhcpv6.OptClientArchType(iana.Arch(7), iana.Arch(7), iana.Arch(0)))
				}
				if m.GetOneOption(dhcpv6.OptionDNSRecursiveNameServer) == nil {
					m.AddOption(dhcpv6.OptDNS(net.ParseIP("2001:db8::53"), net.ParseIP("2001:db8::53"), net.ParseIP("2001:db8::1")))
				}
				// several vendor options of one enterprise (RFC 8415 section 21.17 allows one per enterprise number; a
				// constructor-built message can hold what a sloppy peer sends)
				if m.GetOneOption(dhcpv6.OptionVendorOpts) == nil {
					m.AddOption(&dhcpv6.OptVendorOpts{EnterpriseNumber: 9, VendorOpts: dhcpv6.Options{&dhcpv6.OptionGeneric{OptionCode: 1, OptionData: []byte("a")}}})
					m.AddOption(&dhcpv6.OptVendorOpts{EnterpriseNumber: 1271, VendorOpts: dhcpv6.Options{&dhcpv6.OptionGeneric{OptionCode: 2, OptionData: []byte("b")}}})
					m.AddOption(&dhcpv6.OptVendorOpts{EnterpriseNumber: 9, VendorOpts: dhcpv6.Options{&dhcpv6.OptionGeneric{OptionCode: 3, OptionData: []byte("c")}}})
				}
			}
			return &c20Val{reflect.ValueOf(d), d.ToBytes}
		}, "v6-built"
	default:
		mk := c20Standalone(c.Opt, c.B)
		if mk == nil {
			return nil, ""
		}
		return mk, "standalone-option"
	}
}

func decodeRefV4(b []byte) (*refv4Packet, bool) {
	p, why := refv4Decode(b)
	return p, why
}

// c20Standalone builds standalone option values through the exported constructors.
func c20Standalone(sel int, seed []byte) func() *c20Val {
	table := c20Table(seed)
	return table[((sel%len(table))+len(table))%len(table)]
}

func c20Table(seed []byte) []func() *c20Val {
	bs := func(i, n int) []byte {
		out := make([]byte, n)
		for k := range out {
			if len(seed) > 0 {
				out[k] = seed[(i+k)%len(seed)]
			}
		}
		return out
	}
	v4 := func(f func() dhcpv4.Option) func() *c20Val {
		return func() *c20Val {
			o := f()
			return &c20Val{reflect.ValueOf(&o), func() []byte { return o.Value.ToBytes() }}
		}
	}
	v6 := func(f func() dhcpv6.Option) func() *c20Val {
		return func() *c20Val {
			o := f()
			return &c20Val{reflect.ValueOf(&o).Elem(), o.ToBytes}
		}
	}
	codes := func() []dhcpv4.OptionCode {
		var l dhcpv4.OptionCodeList
		_ = l.FromBytes(bs(0, 2+len(seed)%6))
		return l
	}
	table := []func() *c20Val{
		v4(func() dhcpv4.Option { return dhcpv4.OptParameterRequestList(codes()...) }),
		v4(func() dhcpv4.Option { return dhcpv4.OptRouter(net.IP(bs(0, 4)), net.IP(bs(4, 4))) }),
		v4(func() dhcpv4.Option { return dhcpv4.OptDNS(net.IP(bs(1, 4)), net.IP(bs(2, 4)), net.IP(bs(0, 4))) }),
		v4(func() dhcpv4.Option {
			return dhcpv4.OptRelayAgentInfo(dhcpv4.OptGeneric(dhcpv4.GenericOptionCode(2), bs(0, 3)), dhcpv4.OptGeneric(dhcpv4.GenericOptionCode(1), bs(3, 4)), dhcpv4.OptGeneric(dhcpv4.GenericOptionCode(151), bs(1, 2)))
		}),
		v4(func() dhcpv4.Option {
			return dhcpv4.OptDomainSearch(&rfc1035label.Labels{Labels: []string{"b.example.org", "a.example.org"}})
		}),
		v4(func() dhcpv4.Option { return dhcpv4.OptClientArch(iana.Arch(9), iana.Arch(0), iana.Arch(7)) }),
		v4(func() dhcpv4.Option { return dhcpv4.OptRFC3004UserClass([]string{"zz", "aa", string(bs(0, 3))}) }),
		v4(func() dhcpv4.Option {
			return dhcpv4.OptVIVC(dhcpv4.VIVCIdentifier{EntID: 9, Data: bs(0, 4)}, dhcpv4.VIVCIdentifier{EntID: 3, Data: bs(2, 2)})
		}),
		v4(func() dhcpv4.Option {
			return dhcpv4.OptClasslessStaticRoute(&dhcpv4.Route{Dest: &net.IPNet{IP: net.IP{10, 9, 0, 0}, Mask: net.CIDRMask(16, 32)}, Router: net.IP(bs(0, 4))},
				&dhcpv4.Route{Dest: &net.IPNet{IP: net.IP{10, 1, 0, 0}, Mask: net.CIDRMask(24, 32)}, Router: net.IP(bs(1, 4))})
		}),
		v4(func() dhcpv4.Option { return dhcpv4.OptIPAddressLeaseTime(time.Duration(len(seed)) * time.Second) }),
		v4(func() dhcpv4.Option { return dhcpv4.OptSubnetMask(net.IPMask(bs(0, 4))) }),
		v6(func() dhcpv6.Option {
			return dhcpv6.OptRequestedOption(dhcpv6.OptionCode(59), dhcpv6.OptionCode(23), dhcpv6.OptionCode(24), dhcpv6.OptionCode(uint16(len(seed))))
		}),
		v6(func() dhcpv6.Option { return dhcpv6.OptClientArchType(iana.Arch(9), iana.Arch(7), iana.Arch(0)) }),
		v6(func() dhcpv6.Option { return dhcpv6.OptDNS(net.IP(bs(0, 16)), net.IP(bs(3, 16))) }),
		v6(func() dhcpv6.Option {
			return dhcpv6.OptDomainSearchList(&rfc1035label.Labels{Labels: []string{"b.example.org", "a.example.org"}})
		}),
		v6(func() dhcpv6.Option { return dhcpv6.OptBootFileParam("z", "a", string(bs(0, 3))) }),
		v6(func() dhcpv6.Option {
			return &dhcpv6.OptIAPD{IaId: [4]byte{1, 2, 3, 4}, T1: time.Hour, Options: dhcpv6.PDOptions{Options: dhcpv6.Options{
				&dhcpv6.OptIAPrefix{PreferredLifetime: time.Hour, ValidLifetime: 2 * time.Hour, Prefix: &net.IPNet{IP: net.IP(append([]byte{0x20, 0x01, 0x0d, 0xb8, 0, 0, 0x12, 0xff}, bs(0, 8)...)), Mask: net.CIDRMask(56, 128)}},
			}}}
		}),
		v6(func() dhcpv6.Option {
			return &dhcpv6.OptVendorClass{EnterpriseNumber: 9, Data: [][]byte{bs(0, 3), bs(1, 2)}}
		}),
		v6(func() dhcpv6.Option { return &dhcpv6.OptUserClass{UserClasses: [][]byte{bs(2, 3), bs(0, 1)}} }),
		v6(func() dhcpv6.Option {
			return &dhcpv6.Opt4RDMapRule{Prefix4: net.IPNet{IP: net.IP{10, 200, 3, 4}, Mask: net.CIDRMask(12, 32)}, Prefix6: net.IPNet{IP: net.IP(bs(0, 16)), Mask: net.CIDRMask(40, 128)}, EABitsLength: 5}
		}),
		v6(func() dhcpv6.Option {
			return dhcpv6.OptClientID(&dhcpv6.DUIDLLT{HWType: 1, Time: 7, LinkLayerAddr: bs(0, 6)})
		}),
		// numeric arguments beyond what the wire field can hold (the constructors take them; an encoder may clamp,
		// wrap or truncate the encoded value, but neither encoding nor printing may rewrite the option that is read)
		v6(func() dhcpv6.Option {
			return dhcpv6.OptElapsedTime(20*time.Minute + time.Duration(len(seed))*time.Millisecond)
		}),
		v6(func() dhcpv6.Option { return dhcpv6.OptElapsedTime(655360 * time.Millisecond) }),
		v6(func() dhcpv6.Option { return dhcpv6.OptInformationRefreshTime((1<<33 + 7) * time.Second) }),
		v6(func() dhcpv6.Option {
			return &dhcpv6.OptIANA{IaId: [4]byte{4, 3, 2, 1}, T1: (1 << 33) * time.Second, T2: -5 * time.Second, Options: dhcpv6.IdentityOptions{Options: dhcpv6.Options{
				&dhcpv6.OptIAAddress{IPv6Addr: net.IP(bs(0, 16)), PreferredLifetime: 1500 * time.Millisecond, ValidLifetime: (1<<32 + 1) * time.Second},
			}}}
		}),
		v6(func() dhcpv6.Option { return dhcpv6.OptRelayPort(65535) }),
		v6(func() dhcpv6.Option {
			tc := uint8(0)
			return &dhcpv6.Opt4RDNonMapRule{HubAndSpoke: true, TrafficClass: &tc, DomainPMTU: 65535}
		}),
		v4(func() dhcpv4.Option { return dhcpv4.OptIPAddressLeaseTime((1<<33 + 9) * time.Second) }),
		v4(func() dhcpv4.Option { return dhcpv4.OptRenewTimeValue(-3 * time.Second) }),
		v4(func() dhcpv4.Option { return dhcpv4.OptRebindingTimeValue(1999 * time.Millisecond) }),
		v4(func() dhcpv4.Option { return dhcpv4.OptIPv6OnlyPreferred((1<<33 + 3) * time.Second) }),
		v4(func() dhcpv4.Option { return dhcpv4.OptMaxMessageSize(65535) }),
		v4(func() dhcpv4.Option { return dhcpv4.OptHostName(string(bs(0, 300))) }),
		// lists holding the empty / zero element, first, in the middle and last (a constructor takes what it is given;
		// an encoder may skip or reject such an element, but neither encoding nor printing may rewrite the caller's list)
		v4(func() dhcpv4.Option { return dhcpv4.OptRFC3004UserClass([]string{"", "iPXE", string(bs(0, 3)), ""}) }),
		v4(func() dhcpv4.Option { return dhcpv4.OptRFC3004UserClass([]string{"iPXE", "", "x86", string(bs(0, 2))}) }),
		v4(func() dhcpv4.Option { return dhcpv4.OptUserClass("") }),
		v4(func() dhcpv4.Option {
			return dhcpv4.OptVIVC(dhcpv4.VIVCIdentifier{EntID: 0, Data: nil}, dhcpv4.VIVCIdentifier{EntID: 9, Data: bs(0, 4)}, dhcpv4.VIVCIdentifier{EntID: 9, Data: []byte{}})
		}),
		v4(func() dhcpv4.Option {
			return dhcpv4.OptDNS(net.IP{0, 0, 0, 0}, net.IP(bs(1, 4)), nil, net.IP(bs(2, 4)))
		}),
		v4(func() dhcpv4.Option { return dhcpv4.OptRouter() }),
		v4(func() dhcpv4.Option { return dhcpv4.OptParameterRequestList() }),
		v4(func() dhcpv4.Option {
			return dhcpv4.OptDomainSearch(&rfc1035label.Labels{Labels: []string{"", "b.example.org", "", "a.example.org"}})
		}),
		v4(func() dhcpv4.Option {
			return dhcpv4.OptRelayAgentInfo(dhcpv4.OptGeneric(dhcpv4.GenericOptionCode(1), nil), dhcpv4.OptGeneric(dhcpv4.GenericOptionCode(2), bs(0, 3)), dhcpv4.OptGeneric(dhcpv4.GenericOptionCode(0), []byte{}))
		}),
		v6(func() dhcpv6.Option { return dhcpv6.OptBootFileParam("", "a", "", string(bs(0, 3))) }),
		v6(func() dhcpv6.Option { return &dhcpv6.OptUserClass{UserClasses: [][]byte{nil, bs(2, 3), {}, bs(0, 1)}} }),
		v6(func() dhcpv6.Option {
			return &dhcpv6.OptVendorClass{EnterpriseNumber: 0, Data: [][]byte{{}, bs(0, 3), nil}}
		}),
		v6(func() dhcpv6.Option { return dhcpv6.OptRequestedOption() }),
		v6(func() dhcpv6.Option { return dhcpv6.OptRequestedOption(0, 0, dhcpv6.OptionCode(23), 0) }),
		v6(func() dhcpv6.Option {
			return dhcpv6.OptDomainSearchList(&rfc1035label.Labels{Labels: []string{"", "b.example.org", ""}})
		}),
		v6(func() dhcpv6.Option {
			return &dhcpv6.OptVendorOpts{EnterpriseNumber: 9, VendorOpts: dhcpv6.Options{&dhcpv6.OptionGeneric{OptionCode: 1}, &dhcpv6.OptionGeneric{OptionCode: 1, OptionData: bs(0, 2)}, &dhcpv6.OptionGeneric{OptionCode: 0, OptionData: []byte{}}}}
		}),
		// arguments in non-canonical form (host bits behind the prefix, unmasked networks, mixed-case names): printing
		// may show the canonical form; the value stays what the caller built
		v4(func() dhcpv4.Option {
			return dhcpv4.OptClasslessStaticRoute(&dhcpv4.Route{Dest: &net.IPNet{IP: net.IP{10, 1, 1, 129}, Mask: net.CIDRMask(25, 32)}, Router: net.IP(bs(0, 4))},
				&dhcpv4.Route{Dest: &net.IPNet{IP: net.IP{192, 168, 77, 255}, Mask: net.CIDRMask(9, 32)}, Router: net.IP(bs(1, 4))},
				&dhcpv4.Route{Dest: &net.IPNet{IP: net.IP{1, 2, 3, 4}, Mask: net.CIDRMask(0, 32)}, Router: net.IP(bs(2, 4))})
		}),
		v4(func() dhcpv4.Option { return dhcpv4.OptSubnetMask(net.IPMask{255, 0, 255, 1}) }),
		v6(func() dhcpv6.Option {
			return &dhcpv6.OptIAPrefix{PreferredLifetime: time.Hour, ValidLifetime: time.Hour, Prefix: &net.IPNet{IP: net.ParseIP("2001:db8:1:2:3:4:5:6"), Mask: net.CIDRMask(57, 128)}}
		}),
		v6(func() dhcpv6.Option {
			return &dhcpv6.Opt4RDMapRule{Prefix4: net.IPNet{IP: net.IP{10, 200, 3, 255}, Mask: net.CIDRMask(13, 32)}, Prefix6: net.IPNet{IP: net.ParseIP("2001:db8:ffff:ffff::1"), Mask: net.CIDRMask(41, 128)}, EABitsLength: 5}
		}),
		v4(func() dhcpv4.Option {
			return dhcpv4.OptDomainSearch(&rfc1035label.Labels{Labels: []string{"MiXed.Example.ORG", "trailing.dot.example."}})
		}),
		// list elements longer than their length field can announce, followed by ordinary ones (an encoder may skip, cut
		// or refuse such an element; the list the caller built stays the caller's)
		v6(func() dhcpv6.Option { return dhcpv6.OptBootFileParam("a", string(bs(0, 65536)), "b", "c") }),
		v6(func() dhcpv6.Option {
			return dhcpv6.OptBootFileParam(string(bs(1, 65535)), "b", string(bs(0, 70000)), "c")
		}),
		v6(func() dhcpv6.Option {
			return &dhcpv6.OptUserClass{UserClasses: [][]byte{bs(0, 2), bs(0, 65536), bs(1, 3)}}
		}),
		v6(func() dhcpv6.Option {
			return &dhcpv6.OptVendorClass{EnterpriseNumber: 9, Data: [][]byte{bs(0, 65536), bs(0, 2), bs(1, 3)}}
		}),
		v4(func() dhcpv4.Option { return dhcpv4.OptRFC3004UserClass([]string{"a", string(bs(0, 256)), "b", "c"}) }),
		v4(func() dhcpv4.Option {
			return dhcpv4.OptVIVC(dhcpv4.VIVCIdentifier{EntID: 1, Data: bs(0, 2)}, dhcpv4.VIVCIdentifier{EntID: 2, Data: bs(0, 256)}, dhcpv4.VIVCIdentifier{EntID: 3, Data: bs(1, 3)})
		}),
		v4(func() dhcpv4.Option {
			return dhcpv4.OptDomainSearch(&rfc1035label.Labels{Labels: []string{"a.example", string(bs(0, 64)) + ".example", "b.example"}})
		}),
	}
	return table
}

var c20 = newChk("C20", "read-only",
	"generated and decoded DHCPv4/DHCPv6 values and standalone option values built by the exported constructors; observation paths (every exported niladic method reachable by reflection from the value, its fields, its options and library-typed results, incl. String/Summary/LongString/ToBytes/accessors) are discovered on a scratch copy and each path's baseline is taken on its own pristine copy; a generated program of ≤6 calls interleaved with encodings, then a full snapshot, must reproduce the baselines and never change the encoding; non-trivial = the program has a String/Summary-like call followed by an encoding and the value has ≥2 paths with list results; distinct by case hash",
	func(rec *obs.Rec, c c20Case) *obs.Fail {
		mk, family := c20Make(c)
		if mk == nil {
			return nil
		}
		// discovery on a scratch copy
		scratch := mk()
		w := &walker{seen: map[string]bool{}, max: 300, harvest: harvestValues(scratch.root)}
		w.visitP("x", nil, scratch.root, 0)
		var paths []opath
		for _, p := range w.paths {
			if p != nil {
				paths = append(paths, p)
			}
		}
		if len(paths) == 0 {
			return nil
		}
		// pristine baselines
		// (values holding generic options where the library has a typed one are outside what C02 generates and the
		// decoders produce; some typed getters assert the typed form and panic on them — such a path is left out, not
		// reported: the property speaks of calls that return)
		generic := c.Kind == 3 && len(c.B)%3 == 0
		base := make([]string, 0, len(paths))
		kept := paths[:0]
		for _, p := range paths {
			out, panicked := execPath(mk().root, p)
			if panicked && generic {
				rec.Class("path left out: getter asserts the typed form of a generic option")
				continue
			}
			if panicked {
				return obs.Failf("C20/"+family+"/panic/"+methodKey(p.String()), "read-only call returns", "%s: %s", p, out)
			}
			base = append(base, out)
			kept = append(kept, p)
		}
		paths = kept
		if len(paths) == 0 {
			return nil
		}
		obj := mk()
		enc0 := obj.enc()
		printed := false
		nontriv := false
		for _, pi := range c.Prog {
			i := ((pi % len(paths)) + len(paths)) % len(paths)
			out, _ := execPath(obj.root, paths[i])
			if out != base[i] {
				return obs.Failf("C20/"+family+"/result-changed/"+methodKey(paths[i].String()), fmt.Sprintf("%s = %s", paths[i], clipS(base[i])), "%s", clipS(out))
			}
			name := paths[i][len(paths[i])-1].Name
			if name == "String" || name == "Summary" || name == "LongString" {
				printed = true
			}
			if e := obj.enc(); !bytes.Equal(e, enc0) {
				return obs.Failf("C20/"+family+"/encoding-changed/"+methodKey(paths[i].String()), fmt.Sprintf("encoding %x", clipb(enc0)), "%x after %s", clipb(e), paths[i])
			}
			if printed {
				nontriv = true
			}
		}
		// full snapshot on the used object
		for i, p := range paths {
			out, _ := execPath(obj.root, p)
			if out != base[i] {
				return obs.Failf("C20/"+family+"/snapshot-changed/"+methodKey(p.String()), fmt.Sprintf("%s = %s", p, clipS(base[i])), "%s", clipS(out))
			}
		}
		if e := obj.enc(); !bytes.Equal(e, enc0) {
			return obs.Failf("C20/"+family+"/encoding-changed/snapshot", fmt.Sprintf("encoding %x", clipb(enc0)), "%x after the full snapshot", clipb(e))
		}
		// a second full snapshot: repeated calls return equal results
		for i, p := range paths {
			if out, _ := execPath(obj.root, p); out != base[i] {
				return obs.Failf("C20/"+family+"/repeat-changed/"+methodKey(p.String()), clipS(base[i]), "%s", clipS(out))
			}
		}
		rec.Class(family)
		rec.ClassN("paths", int64(len(paths)))
		if nontriv && len(paths) >= 4 {
			rec.NonTrivial(obs.HashJSON(c), func() any {
				var prog []string
				for _, pi := range c.Prog {
					prog = append(prog, paths[((pi%len(paths))+len(paths))%len(paths)].String())
				}
				return map[string]any{"family": family, "paths": len(paths), "program": prog}
			})
		}
		return nil
	})

func genC20() *rapid.Generator[c20Case] {
	return rapid.Custom(func(t *rapid.T) c20Case {
		c := c20Case{Kind: rapid.IntRange(0, 4).Draw(t, "kind"), Opt: rapid.IntRange(0, 80).Draw(t, "opt")}
		switch c.Kind {
		case 0, 1:
			c.B = gen.V4Wire(6, 300, 0).Draw(t, "v4")
			if c.Kind == 1 {
				c.B = refv4Canonical(gen.V4Packet(6, 300).Draw(t, "pkt"))
			}
		case 2, 3:
			c.B = genV6Wire(v6Cfg(3, 8, c.Kind == 3)).Draw(t, "v6")
		default:
			c.B = gen.Fill(t, rapid.IntRange(1, 24).Draw(t, "n"), "seed")
		}
		c.Prog = rapid.SliceOfN(rapid.IntRange(0, 100000), 1, 6).Draw(t, "prog")
		return c
	})
}

func TestC20_Rapid(t *testing.T) { c20.rapidCheck(t, genC20()) }

// TestC20_Standalone runs every standalone constructor value with every single path as the whole program.
func TestC20_Standalone(t *testing.T) {
	for sel := range c20Table([]byte{1}) {
		for prog := 0; prog < 12; prog++ {
			c20.one(t, c20Case{Kind: 4, Opt: sel, B: []byte{9, 3, 7, 1, 250, 4, 66}, Prog: []int{prog, prog + 1}})
		}
	}
}
