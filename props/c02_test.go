package props

import (
	"bytes"
	"fmt"
	"net"
	"reflect"
	"testing"

	"github.com/insomniacslk/dhcp/dhcpv6"
	"github.com/insomniacslk/dhcp/rfc1035label"

	"verif/gen"
	"verif/obs"
	"verif/ref/reflabel"
	"verif/ref/refv6"
)

// C02 — DHCPv6 encode→decode preserves messages, relay chains and every option type.
//
// The case is the reference encoding of a generated tree t (representable
// domain). Legs: (a) toLib(t).ToBytes() == refv6.Encode(t); (b) the reference
// decoder reads the library's bytes back as t; (c) the library decodes its own
// bytes to a value whose extracted tree equals t.

var c02 = newChk("C02", "roundtrip",
	"generated DHCPv6 trees (relay depth 0..8, 0..20 options from every option type the tree parses plus unknown codes, recursive through IA/vendor/NTP/relay-msg/DHCPv4-in-DHCPv6; fields over their representable domain) built as library values through exported constructors: the encoding must equal the independent reference encoding, be read back by the independent decoder, and decode in the library to an equal value; non-trivial = ≥1 typed option and (nesting depth ≥2 or ≥3 options); distinct by hash of the encoding",
	func(rec *obs.Rec, c obs.Hex) *obs.Fail {
		cov := v6Cov()
		t, v := refv6.DecodeMsg(c, cov.skip, nil)
		if v != refv6.Accept {
			return nil // not a canonical case (only possible for hand-edited replay files)
		}
		// half of the cases build the value in another representation that means the same (see gen.ToLibMsgRepr):
		// nil for zero-length fields, spare capacity behind byte fields, generic options where typed ones exist, a
		// nil address in a ::/n prefix — the encoding is the same RFC layout
		repr := 0
		if h := obs.Hash64(c); h%2 == 1 {
			repr = int(h>>1) % 16
		}
		lib := gen.ToLibMsgRepr(t, repr)
		if repr != 0 {
			rec.Class(fmt.Sprintf("representation mode %d", repr))
		}
		if len(c)%2 == 1 {
			// the unhappy path first: every name value of the built message is asked to decode bytes it refuses; a
			// value that refused and still holds its names encodes them as before
			if kept, changed := pokeNames(lib); changed > 0 {
				lib = gen.ToLibMsgRepr(t, repr)
			} else if kept > 0 {
				rec.Class("name values that refused another input before encoding")
			}
		}
		enc := lib.ToBytes()
		want := refv6.EncodeMsg(t)
		// history: another message (a relay chain around this one with vendor, IA and name options of its own) is
		// encoded, decoded and re-encoded before the bytes are looked at — what ToBytes returned stays as returned
		if o, err := dhcpv6.EncapsulateRelay(lib, dhcpv6.MessageTypeRelayForward, net.ParseIP("2001:db8::d"), net.ParseIP("fe80::d")); err == nil {
			o.AddOption(dhcpv6.OptInterfaceID(bytes.Repeat([]byte{0xD0}, 40)))
			o.AddOption(&dhcpv6.OptVendorOpts{EnterpriseNumber: 40000, VendorOpts: dhcpv6.Options{&dhcpv6.OptionGeneric{OptionCode: 1, OptionData: bytes.Repeat([]byte{0xD1}, 300)}}})
			o.AddOption(dhcpv6.OptDomainSearchList(&rfc1035label.Labels{Labels: []string{"decoy.example.org", "other.decoy.example.org"}}))
			ob := o.ToBytes()
			if od, err := dhcpv6.FromBytes(ob); err == nil {
				_ = od.ToBytes()
			}
		}
		if again := lib.ToBytes(); !bytes.Equal(again, enc) {
			return obs.Failf("C02/encoding-changed-by-later-calls", "the same bytes on a later ToBytes, and the earlier result untouched", "differs at byte %d", firstDiff(again, enc))
		}
		if !bytes.Equal(enc, want) {
			// locate the first differing option for the signature
			sig := "C02/encode"
			if back, bv := refv6.DecodeMsg(enc, cov.skip, nil); bv != refv6.Reject {
				if p, _ := refv6.Diff(t, back, true); p != "" {
					sig += "/" + sigPath(p)
				}
			} else {
				sig += "/unreadable"
			}
			return obs.Failf(sig, fmt.Sprintf("RFC wire layout %x", clipb(want)), "%x (first difference at byte %d of %d/%d)", clipb(enc), firstDiff(enc, want), len(enc), len(want))
		}
		back, bv := refv6.DecodeMsg(enc, cov.skip, nil)
		if bv == refv6.Reject {
			return obs.Failf("C02/unreadable", "independent decoder accepts", "rejected")
		}
		if p, w := refv6.Diff(t, back, true); p != "" {
			return obs.Failf("C02/ref-readback/"+sigPath(p), "same tree", "%s: %s", p, w)
		}
		for _, bad := range v6Refused() {
			if _, err := dhcpv6.FromBytes(bad); err == nil {
				return obs.Failf("C02/harness/poison-accepted", "a malformed message is refused", "accepted %x", clipb(bad))
			}
		}
		dec, err := dhcpv6.FromBytes(append([]byte{}, enc...))
		if err != nil {
			return obs.Failf("C02/decode-error", "library decodes its own encoding", "error %v", err)
		}
		got, err := gen.FromLibMsg(dec)
		if err != nil {
			return obs.Failf("C02/extract", "extractable value", "%v", err)
		}
		if p, w := refv6.Diff(t, got, true); p != "" {
			return obs.Failf("C02/roundtrip/"+sigPath(p), "equal value after decode", "%s: %s", p, w)
		}
		// second generation: the decoded value re-encodes to the same bytes
		if enc2 := dec.ToBytes(); !bytes.Equal(enc2, enc) {
			return obs.Failf("C02/reencode", "same bytes", "differs at byte %d", firstDiff(enc2, enc))
		}
		// the decoded message's name values refuse another input, then it re-encodes to the same bytes
		if kept, changed := pokeNames(dec); changed == 0 && kept > 0 {
			if enc2 := dec.ToBytes(); !bytes.Equal(enc2, enc) {
				return obs.Failf("C02/reencode-after-refused-input", "same bytes", "differs at byte %d", firstDiff(enc2, enc))
			}
		} else if changed > 0 {
			dec, _ = dhcpv6.FromBytes(append([]byte{}, enc...))
		}
		// (d) a decoded message whose domain names are edited in place (letter case only) encodes the edited names
		nameEdit = int(obs.Hash64(enc) % 2) // letter case only, or one separator only
		defer func() { nameEdit = 0 }()
		if n := flipNames(dec); n > 0 {
			enc3 := dec.ToBytes()
			t3, v3 := refv6.DecodeMsg(enc3, cov.skip, nil)
			if v3 == refv6.Reject {
				return obs.Failf("C02/edited-names/unreadable", "independent decoder accepts", "rejected")
			}
			want3, _ := refv6.DecodeMsg(enc, cov.skip, nil)
			flipTreeNames(want3)
			if p, w := refv6.Diff(want3, t3, false); p != "" {
				return obs.Failf("C02/edited-names/"+sigPath(p), "the edited names on the wire", "%s: %s", p, w)
			}
			rec.Class("names edited after decoding")
		}
		s := statsOf(t)
		s.classify(rec, "")
		if t.Relay {
			rec.Class("relay chain")
		}
		if s.typed >= 1 && (s.depth >= 2 || s.nopts >= 3) {
			rec.NonTrivial(obs.Hash64(enc), func() any { return summarizeTree(t) })
		}
		return nil
	})

// sigPath reduces a diff path to its option-type tail, e.g. "iaprefix.n[2]".
func sigPath(p string) string {
	i := len(p) - 1
	for i >= 0 && p[i] != '/' && p[i] != ']' {
		i--
	}
	if i >= 0 && p[i] == '/' {
		return p[i+1:]
	}
	j := len(p) - 1
	for j >= 0 && p[j] != '.' {
		j--
	}
	return p[j+1:]
}

func firstDiff(a, b []byte) int {
	n := min(len(a), len(b))
	for i := 0; i < n; i++ {
		if a[i] != b[i] {
			return i
		}
	}
	return n
}

// TestC02_LongValues: single values near the ends of what a 16-bit length can announce (the generators draw short ones):
// boot file parameters, user and vendor class data, interface id, boot file URL and an unknown option of 255, 256,
// 32,767, 32,768 and 60,000 octets, alone and followed by a short one.
func TestC02_LongValues(t *testing.T) {
	for _, n := range []int{255, 256, 32767, 32768, 60000} {
		long := bytes.Repeat([]byte{'x'}, n)
		for i := range long {
			long[i] = byte('a' + i%23)
		}
		for _, o := range []refv6.Opt{
			{Code: 60, Typ: "bootfileparam", B: [][]byte{long}},
			{Code: 60, Typ: "bootfileparam", B: [][]byte{[]byte("a"), long[:min(n, 65000)], []byte("b")}},
			{Code: 15, Typ: "userclass", B: [][]byte{long, []byte("u")}},
			{Code: 16, Typ: "vendorclass", N: []uint64{9}, B: [][]byte{[]byte("v"), long}},
			{Code: 18, Typ: "ifaceid", B: [][]byte{long}},
			{Code: 59, Typ: "bootfileurl", B: [][]byte{long}},
			{Code: 65010, Typ: "opaque", B: [][]byte{long}},
		} {
			m := &refv6.Msg{Type: 7, Xid: [3]byte{1, 2, 3}, Opts: []refv6.Opt{o, {Code: 65011, Typ: "opaque", B: [][]byte{{1}}}}}
			if enc := refv6.EncodeMsg(m); len(enc) <= 65535 {
				c02.one(t, obs.Hex(enc))
			}
		}
	}
	c02.rec.Class("long single values")
}

func TestC02_Rapid(t *testing.T) {
	if err := v6Cov().err; err != nil {
		t.Fatalf("cannot extract the option list from the source tree: %v", err)
	}
	recordV6Coverage(c02.rec)
	c02.rapidCheck(t, genV6Wire(v6Cfg(100, 20, true))) // relay depth: mostly 0..8 as the property says, every depth up to 100 in one case of eight
	// every option type the tree parses (and the harness knows) must have been hit
	missing := []string{}
	cov := v6Cov()
	// (counted through the class counters; checked by the driver via the evidence)
	_ = cov
	_ = missing
}

// flipNames toggles the letter case of every domain name held by label-bearing options of a library value
// (search list, FQDN, NTP server FQDN), in place, recursively; it returns how many names changed.
func flipNames(d dhcpv6.DHCPv6) int {
	n := 0
	eachLabels(d, func(l *rfc1035label.Labels) {
		for i, s := range l.Labels {
			if f := editName(s); f != s {
				l.Labels[i] = f
				n++
			}
		}
	})
	return n
}

// pokeNames asks every domain-name value inside the message to decode bytes it must refuse (the unhappy path of a
// long-lived value); it returns how many refused and still hold the names they held before.
func pokeNames(d dhcpv6.DHCPv6) (kept, changed int) {
	eachLabels(d, func(l *rfc1035label.Labels) {
		before := append([]string{}, l.Labels...)
		err := l.FromBytes([]byte{3, 'b', 'a', 'd', 0xC0, 0xFF})
		if err != nil && namesEq(before, l.Labels) {
			kept++
		} else {
			changed++
		}
	})
	return
}

// eachLabels calls fn for every domain-name value of the message, at every nesting level.
func eachLabels(d dhcpv6.DHCPv6, fn func(l *rfc1035label.Labels)) {
	var opts func(o dhcpv6.Options)
	labels := func(l *rfc1035label.Labels) {
		if l != nil {
			fn(l)
		}
	}
	opts = func(o dhcpv6.Options) {
		for _, x := range o {
			switch v := x.(type) {
			case *dhcpv6.OptFQDN:
				labels(v.DomainName)
			case *dhcpv6.NTPSuboptionSrvFQDN:
				labels(&v.Labels)
			case *dhcpv6.OptNTPServer:
				opts(v.Suboptions)
			case *dhcpv6.OptIANA:
				opts(v.Options.Options)
			case *dhcpv6.OptIATA:
				opts(v.Options.Options)
			case *dhcpv6.OptIAPD:
				opts(v.Options.Options)
			case *dhcpv6.OptIAAddress:
				opts(v.Options.Options)
			case *dhcpv6.OptIAPrefix:
				opts(v.Options.Options)
			case *dhcpv6.Opt4RD:
				opts(v.Options)
			default:
				switch x.Code() {
				case dhcpv6.OptionDomainSearchList:
					if f := reflect.ValueOf(x).Elem().FieldByName("DomainSearchList"); f.IsValid() {
						if l, ok := f.Interface().(*rfc1035label.Labels); ok {
							labels(l)
						}
					}
				case dhcpv6.OptionRelayMsg:
					if f := reflect.ValueOf(x).Elem().FieldByName("Msg"); f.IsValid() {
						if inner, ok := f.Interface().(dhcpv6.DHCPv6); ok && inner != nil {
							eachLabels(inner, fn)
						}
					}
				}
			}
		}
	}
	switch m := d.(type) {
	case *dhcpv6.Message:
		opts(m.Options.Options)
	case *dhcpv6.RelayMessage:
		opts(m.Options.Options)
	}
}

// flipTreeNames applies the same edit to a reference tree.
func flipTreeNames(m *refv6.Msg) {
	var opts func(o []refv6.Opt)
	opts = func(o []refv6.Opt) {
		for i := range o {
			for k, s := range o[i].Names {
				o[i].Names[k] = editName(s)
			}
			if len(o[i].Names) > 0 && len(o[i].B) > 0 {
				o[i].B[len(o[i].B)-1] = reflabel.Encode(o[i].Names) // the wire form of the edited names
			}
			opts(o[i].Sub)
			if o[i].Msg != nil {
				flipTreeNames(o[i].Msg)
			}
		}
	}
	opts(m.Opts)
}
