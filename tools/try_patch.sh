#!/bin/bash
# usage: tools/try_patch.sh <patch.diff> <tier> <id> [<id>...]
# Applies a seeded change to /repo, runs the named checks, and ALWAYS reverts /repo afterwards.
patch=$1; tier=$2; shift 2
cd /repo || exit 3
if [ -n "$(git status --porcelain)" ]; then echo "/repo not clean"; exit 3; fi
git apply "$patch" || { echo "patch does not apply"; exit 3; }
trap 'git -C /repo checkout -- . ; git -C /repo status --porcelain' EXIT
cd /verif
for id in "$@"; do
  VERIF_KEEP= ./check $id $tier > /tmp/try_$$.log 2>&1; rc=$?
  echo "== $id $tier on $(basename $(dirname $(dirname $patch)))/$(basename $patch): exit $rc"
  grep -E "^(VIOLATION|KNOWN|INCONCLUSIVE|BUILD)" /tmp/try_$$.log | head -5
  grep -A6 "^--- " /tmp/try_$$.log | head -12
  rm -f /tmp/try_$$.log
done
