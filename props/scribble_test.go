package props

import (
	"reflect"
	"unsafe"
)

// scribbleValue overwrites, in place, every byte slice reachable from v (exported or not: option payloads, net.IP,
// net.IPMask, net.HardwareAddr, cached wire bytes, …) with pattern, and returns how many bytes it touched. It is
// applied to values obtained from a DECODER only (those own their memory by C08; built values may legitimately
// point at shared constants such as net.IPv4zero). After it, anything that still shares memory with v — another
// decoded value, a package-level table, a pool — shows a difference.
func scribbleValue(v any, pattern byte) int {
	seen := map[uintptr]bool{}
	n := 0
	var walk func(rv reflect.Value, depth int)
	walk = func(rv reflect.Value, depth int) {
		if depth > 64 || !rv.IsValid() {
			return
		}
		switch rv.Kind() {
		case reflect.Ptr:
			if rv.IsNil() || seen[rv.Pointer()] {
				return
			}
			seen[rv.Pointer()] = true
			walk(rv.Elem(), depth+1)
		case reflect.Interface:
			if !rv.IsNil() {
				walk(rv.Elem(), depth+1)
			}
		case reflect.Struct:
			for i := 0; i < rv.NumField(); i++ {
				walk(rv.Field(i), depth+1)
			}
		case reflect.Slice:
			if rv.IsNil() || rv.Len() == 0 {
				return
			}
			if rv.Type().Elem().Kind() == reflect.Uint8 {
				p := unsafe.Pointer(rv.Pointer())
				b := unsafe.Slice((*byte)(p), rv.Len())
				for i := range b {
					b[i] = pattern
				}
				n += len(b)
				return
			}
			for i := 0; i < rv.Len(); i++ {
				walk(rv.Index(i), depth+1)
			}
		case reflect.Array:
			for i := 0; i < rv.Len(); i++ {
				walk(rv.Index(i), depth+1)
			}
		case reflect.Map:
			it := rv.MapRange()
			for it.Next() {
				walk(it.Value(), depth+1)
			}
		}
	}
	walk(reflect.ValueOf(v), 0)
	return n
}
