package props

import (
	"bytes"
	"fmt"
	"os"
	"testing"

	"github.com/insomniacslk/dhcp/dhcpv6"
	"pgregory.net/rapid"

	"verif/gen"
	"verif/obs"
	"verif/ref/refv6"
)

// C05 — DHCPv6 decoding accepts exactly well-formed messages and reads the RFC values.

// diffV6 is the differential oracle on one byte string.
func diffV6(rec *obs.Rec, b []byte) *obs.Fail {
	cov := v6Cov()
	var why refv6.Reason
	want, verdict := refv6.DecodeMsg(b, cov.skip, &why)
	in := append([]byte{}, b...)
	if len(b)%8 == 0 {
		// refused inputs come first (one case in eight): the verdict and the values read depend on these bytes alone
		for _, bad := range v6Refused() {
			_, _ = dhcpv6.FromBytes(bad)
		}
	}
	got, err := dhcpv6.FromBytes(in)
	if !bytes.Equal(in, b) {
		return obs.Failf("C05/decoder-wrote-to-its-input", "FromBytes leaves its input unchanged", "input changed at byte %d", firstDiff(in, b))
	}
	libV := "accept"
	if err != nil {
		libV = "reject"
	}
	if rec != nil {
		rec.Class("ref:" + verdict.String() + "/lib:" + libV)
	}
	// the two typed entry points agree with the generic one: MessageFromBytes accepts exactly the accepted inputs
	// whose type is not a relay type, RelayMessageFromBytes exactly those whose type is 12 or 13, with the same value
	if len(b) > 0 {
		relayType := b[0] == 12 || b[0] == 13
		m, merr := dhcpv6.MessageFromBytes(append([]byte{}, b...))
		r, rerr := dhcpv6.RelayMessageFromBytes(append([]byte{}, b...))
		wantM, wantR := err == nil && !relayType, err == nil && relayType
		if (merr == nil) != wantM {
			return obs.Failf("C05/entry-points/message", fmt.Sprintf("MessageFromBytes accepts: %v (FromBytes error: %v, type %d)", wantM, err, b[0]), "error %v", merr)
		}
		if (rerr == nil) != wantR {
			return obs.Failf("C05/entry-points/relay", fmt.Sprintf("RelayMessageFromBytes accepts: %v (FromBytes error: %v, type %d)", wantR, err, b[0]), "error %v", rerr)
		}
		if merr == nil && !bytes.Equal(m.ToBytes(), got.ToBytes()) {
			return obs.Failf("C05/entry-points/message-value", "the same value as FromBytes", "encodings differ at byte %d", firstDiff(m.ToBytes(), got.ToBytes()))
		}
		if rerr == nil && !bytes.Equal(r.ToBytes(), got.ToBytes()) {
			return obs.Failf("C05/entry-points/relay-value", "the same value as FromBytes", "encodings differ at byte %d", firstDiff(r.ToBytes(), got.ToBytes()))
		}
	}
	switch verdict {
	case refv6.Reject:
		if err == nil {
			return obs.Failf("C05/verdict/accepts-malformed/"+reasonKey(why.Why), "error ("+why.Why+")", "accepted: %s", clipS(got.Summary()))
		}
		return nil
	case refv6.Grey:
		return nil // the RFCs do not decide: accept or reject
	}
	if err != nil {
		return obs.Failf("C05/verdict/rejects-wellformed", "accept (reference: well-formed)", "error %v", err)
	}
	tree, xerr := gen.FromLibMsg(got)
	if xerr != nil {
		return obs.Failf("C05/extract", "extractable value", "%v", xerr)
	}
	refv6.Normalize(want)
	refv6.Normalize(tree)
	if p, w := refv6.Diff(want, tree, false); p != "" {
		return obs.Failf("C05/value/"+sigPath(p), "the value an RFC decoder reads", "%s: reference vs library: %s", p, w)
	}
	// what a decode returns depends on the bytes alone: the first result is overwritten in place (every byte slice
	// it holds: addresses, masks, payloads, cached wire forms), then the same bytes must read the same again
	scribbleValue(got, 0xA5)
	again, err := dhcpv6.FromBytes(append([]byte{}, b...))
	if err != nil {
		return obs.Failf("C05/verdict/second-decode", "the same bytes are accepted again", "error %v", err)
	}
	tree2, xerr := gen.FromLibMsg(again)
	if xerr != nil {
		return obs.Failf("C05/extract", "extractable value", "%v", xerr)
	}
	refv6.Normalize(tree2)
	if p, w := refv6.Diff(want, tree2, false); p != "" {
		return obs.Failf("C05/value/"+sigPath(p)+"/after-an-earlier-result-was-overwritten", "the value an RFC decoder reads", "%s: reference vs library: %s", p, w)
	}
	return nil
}

func reasonKey(why string) string {
	// "option 26: prefix length 200 > 128" → "option26"; keep the option code only
	var code int
	if n, _ := fmt.Sscanf(why, "option %d", &code); n == 1 {
		return fmt.Sprintf("option%d", code)
	}
	switch {
	case len(why) >= 8 && why[:8] == "trailing":
		return "trailing-bytes"
	case len(why) >= 5 && why[:5] == "relay":
		return "relay-header"
	case len(why) >= 7 && why[:7] == "message":
		return "message-header"
	case len(why) >= 6 && why[:6] == "domain":
		return "domain-name"
	}
	return "other"
}

var c05 = newChk("C05", "differential",
	"byte strings (exhaustive TLV areas over a small alphabet behind a message and a relay header; every truncation and every length-field perturbation {0,−1,+1,max,remaining,remaining+1} at every nesting level of generated valid messages; generated and mutated messages ≤4096 bytes) decoded by the library and by the independent reference decoder: equal verdict (grey inputs excepted) and, on acceptance, equal value tree in wire order; non-trivial = header complete and ≥1 option header; distinct by input hash",
	func(rec *obs.Rec, c obs.Hex) *obs.Fail {
		f := diffV6(rec, c)
		if f == nil && len(c) > 0 {
			h := 4
			if c[0] == 12 || c[0] == 13 {
				h = 34
			}
			if len(c) >= h+4 {
				rec.NonTrivial(obs.Hash64(c), func() any { return map[string]any{"len": len(c), "bytes": hx(clipb(c))} })
			}
		}
		return f
	})

func TestC05_SmallScope(t *testing.T) {
	if err := v6Cov().err; err != nil {
		t.Fatalf("cannot extract the option list: %v", err)
	}
	recordV6Coverage(c05.rec)
	alpha := []byte{0, 1, 2, 3, 8, 13}
	maxLen := 6
	if os.Getenv("VERIF_TIER") == "thorough" {
		maxLen = 8
	}
	relayHdr := make([]byte, 34)
	relayHdr[0] = 12
	relayHdr[1] = 3
	for i := 2; i < 34; i++ {
		relayHdr[i] = byte(i)
	}
	for _, prefix := range [][]byte{{1, 0xaa, 0xbb, 0xcc}, relayHdr} {
		var rec func(area []byte)
		rec = func(area []byte) {
			c05.one(t, obs.Hex(append(append([]byte{}, prefix...), area...)))
			if len(area) == maxLen {
				return
			}
			for _, a := range alpha {
				rec(append(area, a))
			}
		}
		rec(nil)
	}
	c05.rec.Exhaustive()
	c05.rec.Extra("small_scope", fmt.Sprintf("message header and relay header followed by all TLV areas over alphabet %v of length 0..%d", alpha, maxLen))
}

// TestC05_Perturbations: every truncation and every length-field perturbation of generated valid messages.
func TestC05_Perturbations(t *testing.T) {
	var bases [][]byte
	n := 40
	if os.Getenv("VERIF_TIER") == "thorough" {
		n = 400
	}
	rapidSample(t, n, 5, func(rt *rapid.T) {
		bases = append(bases, genV6Wire(v6Cfg(3, 8, false)).Draw(rt, "base"))
	})
	for _, base := range bases {
		if len(base) > 1500 {
			continue
		}
		for cut := 0; cut < len(base); cut++ {
			c05.one(t, obs.Hex(append([]byte{}, base[:cut]...)))
		}
		for _, off := range refv6.LenOffsets(base) {
			if off+2 > len(base) {
				continue
			}
			cur := int(base[off])<<8 | int(base[off+1])
			remaining := len(base) - off - 2
			for _, v := range []int{0, cur - 1, cur + 1, 0xffff, remaining, remaining + 1, cur + 4} {
				if v < 0 || v > 0xffff || v == cur {
					continue
				}
				m := append([]byte{}, base...)
				m[off], m[off+1] = byte(v>>8), byte(v)
				c05.one(t, obs.Hex(m))
			}
		}
		// trailing bytes after the last option
		for _, tail := range [][]byte{{0}, {0, 1}, {0, 1, 0}, {0, 0, 0, 0}, {0, 1, 0, 1}} {
			c05.one(t, obs.Hex(append(append([]byte{}, base...), tail...)))
		}
	}
}

// TestC05_DeepRelay: well-formed relay chains of every depth 1..105 (and their truncation by one byte) must be accepted (rejected).
// TestC05_NumericFields: every value of the one-octet numeric fields (prefix lengths, flag octets, type octets):
// the verdict and the value read must agree with the reference for each of the 256 values, not only for the usual ones.
func TestC05_NumericFields(t *testing.T) {
	for _, b := range numericFieldInputsV6() {
		c05.one(t, obs.Hex(b))
	}
	// compression pointers to offsets around every power of two, in each option that carries names
	for _, lb := range pointerOffsetBuffers() {
		if len(lb) > 4000 {
			continue
		}
		c05.one(t, obs.Hex(append([]byte{7, 1, 2, 3}, v6opt(24, lb)...)))
		c05.one(t, obs.Hex(append([]byte{7, 1, 2, 3}, v6opt(39, append([]byte{1}, lb...))...)))
		c05.one(t, obs.Hex(append([]byte{7, 1, 2, 3}, v6opt(56, v6opt(3, lb))...)))
		c05opt.one(t, c05Opt{Code: 24, Payload: lb})
	}
	for _, lb := range labelCumulativeBuffers() {
		c05.one(t, obs.Hex(append([]byte{7, 1, 2, 3}, v6opt(24, lb)...)))
		c05.one(t, obs.Hex(append([]byte{7, 1, 2, 3}, v6opt(56, v6opt(3, lb))...)))
	}
	// every option code with a zero-octet payload (spelled nil and empty)
	for code := 0; code <= 160; code++ {
		c05opt.one(t, c05Opt{Code: uint16(code)})
	}
	c05opt.one(t, c05Opt{Code: 65535})
	// pointer targets at the edge of the value, and presentation-format text where wire format belongs, in every
	// option that carries names, plain and inside a relay
	for _, lb := range labelEdgeBuffers() {
		for _, o := range [][]byte{v6opt(24, lb), v6opt(39, append([]byte{1}, lb...)), v6opt(56, v6opt(3, lb)), v6opt(74, lb), v6opt(58, lb), v6opt(21, lb), v6opt(33, lb), v6opt(64, lb), v6opt(65, lb)} {
			m := append([]byte{7, 1, 2, 3}, o...)
			c05.one(t, obs.Hex(m))
			c05.one(t, obs.Hex(append(append(make([]byte, 34), 0, 9, byte(len(m)>>8), byte(len(m))), m...)))
		}
		c05opt.one(t, c05Opt{Code: 24, Payload: lb})
		c05opt.one(t, c05Opt{Code: 39, Payload: append([]byte{0}, lb...)})
	}
}

// TestC05_Resized: for generated valid messages containing every option type, every item at every nesting level is
// resized by −2..+16 octets with all enclosing lengths adjusted (the framing stays perfect).
func TestC05_Resized(t *testing.T) {
	n := 30
	if os.Getenv("VERIF_TIER") == "thorough" {
		n = 300
	}
	rapidSample(t, n, 77, func(rt *rapid.T) {
		b := []byte(genV6Wire(v6Cfg(2, 12, false)).Draw(rt, "msg"))
		if len(b) > 1500 {
			return
		}
		for _, pth := range refv6.LenPaths(b) {
			for _, delta := range []int{-2, -1, 1, 2, 3, 4, 8, 16} {
				if r := refv6.Resize(b, pth, delta, 0x41); r != nil {
					c05.one(t, obs.Hex(r))
				}
			}
		}
	})
	c05.rec.Class("items resized with consistent enclosing lengths")
}

func TestC05_DeepRelay(t *testing.T) {
	for _, inner := range deepInners() {
		for d := 1; d <= 105; d++ {
			b := deepRelay(d, inner, d%2 == 0)
			if len(b) > 4096 {
				continue
			}
			c05.one(t, obs.Hex(b))
			c05.one(t, obs.Hex(b[:len(b)-1]))
			// the hop-count field is a field like any other: its value decides nothing about acceptance
			c05.one(t, obs.Hex(deepRelayHops(d, inner, d%2 == 1, 1+d%4)))
		}
	}
	// relay-message options side by side (breadth) and mixed with depth: 1..120 siblings under one relay header,
	// alone and followed by a chain — how many there are in total decides nothing either
	inner := deepInners()[0]
	for n := 1; n <= 120; n++ {
		hdr := make([]byte, 34)
		hdr[0] = 12
		b := append([]byte{}, hdr...)
		for k := 0; k < n; k++ {
			b = append(append(b, 0, 9, 0, byte(len(inner))), inner...)
		}
		c05.one(t, obs.Hex(b))
		if n%5 == 0 {
			ch := deepRelay(n/3+1, inner, false)
			c05.one(t, obs.Hex(append(append(append([]byte{}, b...), 0, 9, byte(len(ch)>>8), byte(len(ch))), ch...)))
		}
	}
}

// mutateV6 applies structure-aware byte mutations.
func mutateV6(t *rapid.T, b []byte) []byte {
	b = append([]byte{}, b...)
	if len(b) == 0 {
		return b
	}
	if rapid.IntRange(0, 4).Draw(t, "resize") == 0 {
		// one item (an option, a sub-option, a list item — at any nesting level) gets another size while every enclosing
		// length is adjusted with it: the framing stays perfect, only that item is now too long or too short for its type
		if paths := refv6.LenPaths(b); len(paths) > 0 {
			pth := paths[rapid.IntRange(0, len(paths)-1).Draw(t, "item")]
			delta := rapid.SampledFrom([]int{1, 1, -1, 2, 4, 16, -2, 8, -4}).Draw(t, "delta")
			if r := refv6.Resize(b, pth, delta, byte(rapid.SampledFrom([]int{0, 0x41, 0xff}).Draw(t, "fill"))); r != nil {
				return r
			}
		}
	}
	switch rapid.IntRange(0, 8).Draw(t, "mut") {
	case 8: // append a label-bearing option (search list, FQDN, NTP server FQDN) with a generated, possibly hostile, label buffer
		if b[0] != 12 && b[0] != 13 {
			w := gen.LabelWire(rapid.Bool().Draw(t, "hostile")).Draw(t, "labelwire")
			if len(w) > 1200 {
				w = w[:1200]
			}
			switch rapid.IntRange(0, 2).Draw(t, "carrier") {
			case 0:
				b = append(append(b, 0, 24, byte(len(w)>>8), byte(len(w))), w...)
			case 1:
				b = append(append(b, 0, 39, byte((len(w)+1)>>8), byte(len(w)+1), 1), w...)
			default:
				b = append(append(b, 0, 56, byte((len(w)+4)>>8), byte(len(w)+4), 0, 3, byte(len(w)>>8), byte(len(w))), w...)
			}
		}
	case 0:
		return b[:rapid.IntRange(0, len(b)).Draw(t, "cut")]
	case 1, 2: // perturb a length field
		offs := refv6.LenOffsets(b)
		if len(offs) > 0 {
			off := rapid.SampledFrom(offs).Draw(t, "lenoff")
			if off+2 <= len(b) {
				cur := int(b[off])<<8 | int(b[off+1])
				v := rapid.SampledFrom([]int{0, cur - 1, cur + 1, cur + 2, cur - 2, 0xffff, len(b) - off - 2, cur + 16, cur - 16}).Draw(t, "newlen")
				if v >= 0 && v <= 0xffff {
					b[off], b[off+1] = byte(v>>8), byte(v)
				}
			}
		}
	case 3: // change an option code into another known code
		offs := refv6.LenOffsets(b)
		if len(offs) > 0 {
			off := rapid.SampledFrom(offs).Draw(t, "codeoff") - 2
			if off >= 0 {
				c := rapid.SampledFrom(gen.KnownCodes()).Draw(t, "code")
				b[off], b[off+1] = byte(c>>8), byte(c)
			}
		}
	case 4:
		i := rapid.IntRange(0, len(b)-1).Draw(t, "i")
		b[i] = rapid.Byte().Draw(t, "v")
	case 5:
		i := rapid.IntRange(0, len(b)-1).Draw(t, "i")
		b[i] = rapid.SampledFrom([]byte{0, 1, 0xff, 0x80, 0xc0, 129, 200, 33}).Draw(t, "v")
	case 6:
		b = append(b, gen.Fill(t, rapid.IntRange(1, 8).Draw(t, "napp"), "app")...)
	case 7: // delete a byte range
		i := rapid.IntRange(0, len(b)-1).Draw(t, "i")
		j := min(len(b), i+rapid.IntRange(1, 4).Draw(t, "n"))
		b = append(b[:i], b[j:]...)
	}
	return b
}

func genV6Mutated(maxMut int) *rapid.Generator[obs.Hex] {
	return rapid.Custom(func(t *rapid.T) obs.Hex {
		if rapid.IntRange(0, 19).Draw(t, "raw") == 0 {
			return gen.Fill(t, rapid.SampledFrom([]int{0, 1, 3, 4, 5, 33, 34, 38, 100}).Draw(t, "n"), "raw")
		}
		b := []byte(genV6Wire(v6Cfg(3, 10, false)).Draw(t, "wire"))
		for k := rapid.IntRange(0, maxMut).Draw(t, "nmut"); k > 0; k-- {
			b = mutateV6(t, b)
		}
		if len(b) > 4096 {
			b = b[:4096]
		}
		return b
	})
}

func TestC05_Rapid(t *testing.T) { c05.rapidCheck(t, genV6Mutated(3)) }

// --- ParseOption driven directly, per code -----------------------------------

type c05Opt struct {
	Code    uint16  `json:"code"`
	Payload obs.Hex `json:"payload"`
}

var c05opt = newChk("C05", "parse-option",
	"dhcpv6.ParseOption(code, payload) for every option code the tree parses, over generated valid payloads and their mutations, against the reference reading of the same payload; non-trivial = payload non-empty; distinct by hash of (code, payload)",
	func(rec *obs.Rec, c c05Opt) *obs.Fail {
		cov := v6Cov()
		var why refv6.Reason
		want, verdict := refv6.DecodeOpt(c.Code, c.Payload, refv6.Top, cov.skip, &why)
		if len(c.Payload) == 0 {
			// a zero-octet payload is the same byte string whether it is spelled nil or empty
			_, e1 := dhcpv6.ParseOption(dhcpv6.OptionCode(c.Code), nil)
			_, e2 := dhcpv6.ParseOption(dhcpv6.OptionCode(c.Code), []byte{})
			if (e1 == nil) != (e2 == nil) {
				return obs.Failf("C05/parse-option/nil-vs-empty", "the same verdict for a zero-octet payload spelled nil or empty", "nil: %v, empty: %v (code %d)", e1, e2, c.Code)
			}
		}
		got, err := dhcpv6.ParseOption(dhcpv6.OptionCode(c.Code), append([]byte{}, c.Payload...))
		rec.Class(fmt.Sprintf("code %d/ref:%s", c.Code, verdict))
		switch verdict {
		case refv6.Reject:
			if err == nil {
				return obs.Failf(fmt.Sprintf("C05/parse-option/accepts-malformed/option%d", c.Code), "error ("+why.Why+")", "accepted: %s", clipS(got.String()))
			}
			return nil
		case refv6.Grey:
			return nil
		}
		if err != nil {
			return obs.Failf(fmt.Sprintf("C05/parse-option/rejects-wellformed/option%d", c.Code), "accept", "error %v", err)
		}
		tree, xerr := gen.FromLibOpt(got, refv6.Top)
		if xerr != nil {
			return obs.Failf("C05/extract", "extractable value", "%v", xerr)
		}
		a, b := &refv6.Msg{Opts: []refv6.Opt{want}}, &refv6.Msg{Opts: []refv6.Opt{tree}}
		refv6.Normalize(a)
		refv6.Normalize(b)
		if p, w := refv6.Diff(a, b, false); p != "" {
			return obs.Failf("C05/parse-option/value/"+sigPath(p), "the value an RFC decoder reads", "%s: %s", p, w)
		}
		if len(c.Payload) > 0 {
			rec.NonTrivial(obs.Hash64([]byte{byte(c.Code >> 8), byte(c.Code)}, c.Payload), func() any {
				return map[string]any{"code": c.Code, "payload": hx(clipb(c.Payload)), "verdict": verdict.String()}
			})
		}
		return nil
	})

func TestC05_ParseOptionRapid(t *testing.T) {
	codes := gen.KnownCodes()
	c05opt.rapidCheck(t, rapid.Custom(func(rt *rapid.T) c05Opt {
		code := rapid.SampledFrom(codes).Draw(rt, "code")
		// a valid payload of that type: generate a one-option message and cut the option out
		cfg := v6Cfg(0, 0, false)
		m := &refv6.Msg{Type: 1}
		o := gen.V6Opt(cfg, code).Draw(rt, "opt")
		m.Opts = []refv6.Opt{o}
		p := refv6.EncodeOpt(&m.Opts[0])
		for k := rapid.IntRange(0, 2).Draw(rt, "nmut"); k > 0; k-- {
			// mutate behind a fake option header so that nested length fields are found
			w := append([]byte{1, 0, 0, 0, byte(code >> 8), byte(code), byte(len(p) >> 8), byte(len(p))}, p...)
			w = mutateV6(rt, w)
			if len(w) >= 8 {
				p = w[8:]
			} else {
				p = nil
			}
		}
		return c05Opt{Code: code, Payload: p}
	}))
}

func FuzzC05_V6Differential(f *testing.F) {
	f.Add([]byte{1, 0xaa, 0xbb, 0xcc, 0, 8, 0, 2, 0, 0})
	f.Fuzz(func(t *testing.T, b []byte) {
		if len(b) > 4096 {
			return
		}
		c05.one(t, obs.Hex(b))
	})
}
