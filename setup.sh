#!/bin/bash
# Offline setup: compile the harness once so that later checks start warm, and run the
# reference codecs' own unit tests against known-good vectors.
set -e
cd "$(dirname "$0")"
export GOFLAGS=-mod=mod GOPROXY=off GOSUMDB=off GOTOOLCHAIN=local VERIF_ROOT="$(pwd)"
GO=$(command -v go1.26.8 || echo /usr/local/bin/go1.26.8)
mkdir -p work/bin evidence
$GO vet ./obs ./gen ./ref/... >/dev/null 2>&1 || true
$GO test -count=1 -timeout 300s ./ref/... 
$GO test -c -tags verif -o work/bin/props.test ./props
echo setup ok
