// Command automut enumerates and applies small syntactic mutations to one Go source file.
//
//	automut -file f.go -list            prints one line per mutation site: index, line, operator, description
//	automut -file f.go -site N -out g   writes f.go with mutation N applied to g
//
// Operators: relational/arithmetic/logical operator replacement, integer literal +1/-1, condition negation,
// statement deletion (expression statements, assignments, inc/dec, defer), branch swap (break/continue),
// "return early" removal (emptying an if body that only returns/continues/breaks).
// The enumeration is deterministic. Used by tools/automut.py for the mutation-sensitivity campaign.
package main

import (
	"bytes"
	"flag"
	"fmt"
	"go/ast"
	"go/format"
	"go/parser"
	"go/token"
	"os"
	"strconv"
	"strings"
)

type site struct {
	line  int
	op    string
	desc  string
	apply func()
	fn    string
}

var binSwap = map[token.Token][]token.Token{
	token.LSS: {token.LEQ}, token.LEQ: {token.LSS}, token.GTR: {token.GEQ}, token.GEQ: {token.GTR},
	token.EQL: {token.NEQ}, token.NEQ: {token.EQL},
	token.ADD: {token.SUB}, token.SUB: {token.ADD}, token.MUL: {token.QUO},
	token.LAND: {token.LOR}, token.LOR: {token.LAND},
	token.SHL: {token.SHR}, token.SHR: {token.SHL}, token.AND: {token.OR}, token.OR: {token.AND},
}

func main() {
	file := flag.String("file", "", "go source file")
	list := flag.Bool("list", false, "list sites")
	n := flag.Int("site", -1, "site to apply")
	out := flag.String("out", "", "output file")
	flag.Parse()
	fset := token.NewFileSet()
	f, err := parser.ParseFile(fset, *file, nil, parser.ParseComments)
	if err != nil {
		fmt.Fprintln(os.Stderr, err)
		os.Exit(2)
	}
	var sites []site
	curFn := ""
	add := func(pos token.Pos, op, desc string, apply func()) {
		sites = append(sites, site{fset.Position(pos).Line, op, desc, apply, curFn})
	}
	isStringy := func(e ast.Expr) bool {
		bl, ok := e.(*ast.BasicLit)
		return ok && bl.Kind == token.STRING
	}
	var visitBlock func(list *[]ast.Stmt)
	visitBlock = func(list *[]ast.Stmt) {
		for i := range *list {
			i := i
			st := (*list)[i]
			del := func(kind string) {
				orig := st
				add(st.Pos(), "del-"+kind, "delete statement", func() { (*list)[i] = &ast.EmptyStmt{Semicolon: orig.Pos(), Implicit: false} })
			}
			switch s := st.(type) {
			case *ast.ExprStmt:
				if c, ok := s.X.(*ast.CallExpr); ok {
					name := exprName(c.Fun)
					if strings.Contains(name, "Printf") || strings.Contains(name, "Print") || strings.HasPrefix(name, "log.") || name == "panic" {
						continue
					}
				}
				del("call")
			case *ast.AssignStmt:
				if s.Tok != token.DEFINE {
					del("assign")
				}
			case *ast.IncDecStmt:
				del("incdec")
			case *ast.DeferStmt:
				del("defer")
			case *ast.BranchStmt:
				if s.Label == nil && (s.Tok == token.BREAK || s.Tok == token.CONTINUE) {
					s := s
					old := s.Tok
					nw := token.CONTINUE
					if old == token.CONTINUE {
						nw = token.BREAK
					}
					add(s.Pos(), "branch", old.String()+" -> "+nw.String(), func() { s.Tok = nw })
				}
			case *ast.IfStmt:
				// "if cond { return/continue/break ... }" with a short body: empty the body (guard removed)
				if s.Else == nil && len(s.Body.List) >= 1 && len(s.Body.List) <= 2 {
					last := s.Body.List[len(s.Body.List)-1]
					switch last.(type) {
					case *ast.ReturnStmt, *ast.BranchStmt:
						s := s
						add(s.Pos(), "guard", "remove guard body", func() { s.Body.List = nil })
					}
				}
			}
		}
	}
	ast.Inspect(f, func(nd ast.Node) bool {
		switch x := nd.(type) {
		case *ast.FuncDecl:
			curFn = x.Name.Name
			if x.Recv != nil && len(x.Recv.List) == 1 {
				curFn = exprName(x.Recv.List[0].Type) + "." + x.Name.Name
			}
		case *ast.GenDecl:
			if x.Tok == token.IMPORT || x.Tok == token.TYPE {
				return false
			}
			if x.Tok == token.CONST || x.Tok == token.VAR {
				if x.Lparen.IsValid() && len(x.Specs) > 6 {
					return false // enum-like tables (option codes, names): not behaviour
				}
			}
		case *ast.BlockStmt:
			visitBlock(&x.List)
		case *ast.CaseClause:
			visitBlock(&x.Body)
		case *ast.CommClause:
			visitBlock(&x.Body)
		case *ast.BinaryExpr:
			if isStringy(x.X) || isStringy(x.Y) {
				return true
			}
			for _, nw := range binSwap[x.Op] {
				x, old, nw := x, x.Op, nw
				add(x.OpPos, "binop", old.String()+" -> "+nw.String(), func() { x.Op = nw })
			}
		case *ast.UnaryExpr:
			if x.Op == token.NOT {
				x := x
				add(x.OpPos, "not", "drop !", func() { x.X = &ast.UnaryExpr{Op: token.NOT, X: &ast.ParenExpr{X: x.X}} })
			}
		case *ast.IfStmt:
			add(x.Cond.Pos(), "negate-if", "negate condition", func() { x.Cond = &ast.UnaryExpr{Op: token.NOT, X: &ast.ParenExpr{X: x.Cond}} })
		case *ast.ForStmt:
			if x.Cond != nil {
				_ = x
			}
		case *ast.BasicLit:
			if x.Kind == token.INT {
				v, err := strconv.ParseInt(x.Value, 0, 64)
				if err == nil && v >= 0 && v < 70000 {
					x, v := x, v
					add(x.Pos(), "int+1", fmt.Sprintf("%d -> %d", v, v+1), func() { x.Value = strconv.FormatInt(v+1, 10) })
					if v > 0 {
						add(x.Pos(), "int-1", fmt.Sprintf("%d -> %d", v, v-1), func() { x.Value = strconv.FormatInt(v-1, 10) })
					}
				}
			}
		case *ast.CallExpr:
			// do not descend into logging / formatting calls: their arguments are text, not behaviour
			name := exprName(x.Fun)
			if strings.HasPrefix(name, "fmt.") || strings.HasPrefix(name, "log.") || strings.Contains(name, "Printf") || strings.Contains(name, "Errorf") {
				return false
			}
		}
		return true
	})
	if *list {
		for i, s := range sites {
			fmt.Printf("%d\t%d\t%s\t%s\t%s\n", i, s.line, s.op, s.fn, s.desc)
		}
		return
	}
	if *n < 0 || *n >= len(sites) {
		fmt.Fprintln(os.Stderr, "no such site")
		os.Exit(2)
	}
	sites[*n].apply()
	var buf bytes.Buffer
	if err := format.Node(&buf, fset, f); err != nil {
		fmt.Fprintln(os.Stderr, err)
		os.Exit(2)
	}
	if err := os.WriteFile(*out, buf.Bytes(), 0o644); err != nil {
		fmt.Fprintln(os.Stderr, err)
		os.Exit(2)
	}
}

func exprName(e ast.Expr) string {
	switch x := e.(type) {
	case *ast.Ident:
		return x.Name
	case *ast.SelectorExpr:
		return exprName(x.X) + "." + x.Sel.Name
	case *ast.StarExpr:
		return exprName(x.X)
	case *ast.CallExpr:
		return exprName(x.Fun)
	case *ast.IndexExpr:
		return exprName(x.X)
	}
	return "?"
}
