package props

import (
	"encoding/json"
	"flag"
	"fmt"
	"os"
	"path/filepath"
	"sort"
	"strings"
	"testing"

	"pgregory.net/rapid"

	"verif/obs"
)

func TestMain(m *testing.M) {
	flag.Parse()
	code := m.Run()
	obs.Flush()
	os.Exit(code)
}

// fataler is satisfied by *testing.T and *rapid.T.
type fataler interface {
	Fatalf(format string, args ...any)
}

// replayFns maps a check name to a function that re-runs one saved case.
var replayFns = map[string]func(raw json.RawMessage) *obs.Fail{}

// chk is one executable check: an oracle over a serialisable case.
type chk[C any] struct {
	rec *obs.Rec
	run func(c C) *obs.Fail
}

// newChk registers the oracle for replay and returns the check.
func newChk[C any](prop, name, rule string, run func(rec *obs.Rec, c C) *obs.Fail) *chk[C] {
	rec := obs.New(prop, name, rule)
	ck := &chk[C]{rec: rec}
	ck.run = func(c C) *obs.Fail {
		return obs.Guard(prop+"/"+name, func() *obs.Fail { return run(rec, c) })
	}
	replayFns[prop+"/"+name] = func(raw json.RawMessage) *obs.Fail {
		var c C
		if err := json.Unmarshal(raw, &c); err != nil {
			return &obs.Fail{Sig: "replay/unmarshal", Expected: "a case of " + name, Got: err.Error()}
		}
		return ck.run(c)
	}
	return ck
}

// one evaluates a case; a failure that is not a known finding is written as
// the pending replay file and fails the (rapid) test so that it is shrunk.
func (ck *chk[C]) one(t fataler, c C) {
	ck.rec.Eval()
	f := ck.run(c)
	if f == nil {
		return
	}
	if ck.rec.Known(f) {
		return
	}
	path := ck.rec.Violation(f, c)
	t.Fatalf("VIOLATION-CASE property=%s check=%s file=%s\n%s", ck.rec.Prop, ck.rec.Check, path, f)
}

// rapidCheck runs the check over a generator.
func (ck *chk[C]) rapidCheck(t *testing.T, g *rapid.Generator[C]) {
	rapid.Check(t, func(rt *rapid.T) {
		c := g.Draw(rt, "case")
		ck.one(rt, c)
	})
}

// TestReplay re-executes saved cases: VERIF_REPLAY is a file or a directory;
// VERIF_PROP optionally filters by property.
func TestReplay(t *testing.T) {
	target := os.Getenv("VERIF_REPLAY")
	if target == "" {
		t.Skip("VERIF_REPLAY not set")
	}
	curT = t // the virtual-time checks host their bubbles on the running test
	var files []string
	if st, err := os.Stat(target); err == nil && st.IsDir() {
		filepath.Walk(target, func(p string, info os.FileInfo, err error) error {
			if err == nil && !info.IsDir() && strings.HasSuffix(p, ".json") {
				files = append(files, p)
			}
			return nil
		})
	} else {
		files = []string{target}
	}
	sort.Strings(files)
	want := os.Getenv("VERIF_PROP")
	rec := map[string]*obs.Rec{}
	for _, f := range files {
		b, err := os.ReadFile(f)
		if err != nil {
			t.Fatalf("replay %s: %v", f, err)
		}
		var rf obs.ReplayFile
		if err := json.Unmarshal(b, &rf); err != nil {
			t.Fatalf("replay %s: %v", f, err)
		}
		if want != "" && rf.Property != want {
			continue
		}
		fn := replayFns[rf.Property+"/"+rf.Check]
		if fn == nil {
			t.Fatalf("replay %s: unknown check %s/%s", f, rf.Property, rf.Check)
		}
		r := rec[rf.Property]
		if r == nil {
			r = obs.New(rf.Property, "replay", "saved cases (earlier failures and hand-written regression cases) re-executed without the generator")
			rec[rf.Property] = r
		}
		r.Eval()
		r.Class(rf.Check)
		r.NonTrivial(obs.Hash64(rf.Case), func() any { return map[string]any{"file": filepath.Base(f), "check": rf.Check} })
		if fail := fn(rf.Case); fail != nil {
			if r.Known(fail) {
				continue
			}
			var c any
			json.Unmarshal(rf.Case, &c)
			rr := obs.New(rf.Property, rf.Check, "")
			rr.Violation(fail, c)
			t.Errorf("VIOLATION-CASE property=%s check=%s replayed=%s\n%s", rf.Property, rf.Check, f, fail)
		}
	}
}

func hx(b []byte) string { return fmt.Sprintf("%x", b) }
