package props

import (
	"fmt"
	"runtime/debug"
	"sync/atomic"
	"testing"
	"testing/synctest"
	"time"
)

// stuckSeen is set once a bubble failed to finish in real time: the goroutines of
// that bubble are wedged for good (typically a goroutine waiting for a mutex whose
// holder is blocked forever — a state synctest can neither time-advance nor report),
// so later scenarios in this process are not started (they report the same problem
// at once, which also keeps rapid's shrinking from hanging again and again).
var stuckSeen atomic.Bool

const stuckAfter = 45 * time.Second // real time; scenarios normally take about a millisecond

// inBubble runs f inside a testing/synctest bubble (virtual time; every
// goroutine started in f must have exited when f returns, otherwise the
// bubble reports a deadlock). It returns a description of a panic, deadlock or
// real-time hang, or "". The outer *testing.T is only used to host the bubble.
func inBubble(t *testing.T, f func()) (problem string) {
	if stuckSeen.Load() {
		return "stuck: an earlier scenario in this process never finished (goroutines wedged)"
	}
	done := make(chan string, 1)
	go func() {
		var p string
		defer func() {
			if r := recover(); r != nil {
				p = fmt.Sprintf("%v", r)
			}
			done <- p
		}()
		synctest.Test(t, func(_ *testing.T) {
			defer func() {
				if r := recover(); r != nil {
					p = fmt.Sprintf("panic in bubble: %v\n%s", r, clipS(string(debug.Stack())))
				}
			}()
			f()
		})
	}()
	timer := time.NewTimer(stuckAfter)
	defer timer.Stop()
	select {
	case p := <-done:
		return p
	case <-timer.C:
		stuckSeen.Store(true)
		return fmt.Sprintf("stuck: the scenario did not finish within %v of real time (a goroutine is wedged, e.g. waiting for a lock whose holder is blocked forever)", stuckAfter)
	}
}
