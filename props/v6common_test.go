package props

import (
	"bytes"
	"fmt"
	"go/ast"
	"go/parser"
	"go/token"
	"os"
	"sort"
	"strconv"
	"sync"

	"pgregory.net/rapid"

	"verif/gen"
	"verif/obs"
	"verif/ref/refv4"
	"verif/ref/refv6"
)

// ---- option list extraction at check time ------------------------------------
//
// The set of option types the tree under test parses is read from the switch in
// dhcpv6.ParseOption (go/ast over /repo/dhcpv6/options.go, constants resolved
// through types.go). Codes the harness knows but the tree does not parse are
// treated as opaque by the reference and not generated as typed; codes the tree
// parses but the harness does not know are never generated and are reported in
// the evidence as uncovered.

type v6Coverage struct {
	parsed    map[uint16]bool // codes with a case in ParseOption
	skip      map[uint16]bool // known to the harness, not parsed by the tree
	uncovered []int           // parsed by the tree, unknown to the harness
	err       error
}

var (
	v6covOnce sync.Once
	v6cov     v6Coverage
)

func repoDir() string {
	if d := os.Getenv("VERIF_REPO"); d != "" {
		return d
	}
	return "/repo"
}

func v6Cov() *v6Coverage {
	v6covOnce.Do(func() {
		v6cov.parsed, v6cov.skip = map[uint16]bool{}, map[uint16]bool{}
		fset := token.NewFileSet()
		consts := map[string]uint16{}
		tf, err := parser.ParseFile(fset, repoDir()+"/dhcpv6/types.go", nil, 0)
		if err != nil {
			v6cov.err = err
			return
		}
		ast.Inspect(tf, func(n ast.Node) bool {
			vs, ok := n.(*ast.ValueSpec)
			if !ok || len(vs.Names) != 1 || len(vs.Values) != 1 {
				return true
			}
			if id, ok := vs.Type.(*ast.Ident); !ok || id.Name != "OptionCode" {
				return true
			}
			if lit, ok := vs.Values[0].(*ast.BasicLit); ok {
				if v, err := strconv.Atoi(lit.Value); err == nil {
					consts[vs.Names[0].Name] = uint16(v)
				}
			}
			return true
		})
		of, err := parser.ParseFile(fset, repoDir()+"/dhcpv6/options.go", nil, 0)
		if err != nil {
			v6cov.err = err
			return
		}
		ast.Inspect(of, func(n ast.Node) bool {
			fd, ok := n.(*ast.FuncDecl)
			if !ok || fd.Name.Name != "ParseOption" {
				return true
			}
			ast.Inspect(fd, func(m ast.Node) bool {
				cc, ok := m.(*ast.CaseClause)
				if !ok {
					return true
				}
				for _, e := range cc.List {
					if id, ok := e.(*ast.Ident); ok {
						if v, ok := consts[id.Name]; ok {
							v6cov.parsed[v] = true
						}
					}
				}
				return true
			})
			return false
		})
		if len(v6cov.parsed) == 0 {
			v6cov.err = fmt.Errorf("no option cases found in ParseOption")
			return
		}
		for c := range refv6.Known {
			if !v6cov.parsed[c] {
				v6cov.skip[c] = true
			}
		}
		for c := range v6cov.parsed {
			if _, ok := refv6.Known[c]; !ok {
				v6cov.uncovered = append(v6cov.uncovered, int(c))
			}
		}
		sort.Ints(v6cov.uncovered)
	})
	return &v6cov
}

func recordV6Coverage(rec *obs.Rec) {
	c := v6Cov()
	var parsed []int
	for k := range c.parsed {
		parsed = append(parsed, int(k))
	}
	sort.Ints(parsed)
	rec.Extra("option_types_parsed_by_tree", parsed)
	rec.Extra("uncovered_option_types", c.uncovered)
	var sk []int
	for k := range c.skip {
		sk = append(sk, int(k))
	}
	sort.Ints(sk)
	rec.Extra("harness_types_not_parsed_by_tree", sk)
}

// v6Cfg returns the generator configuration for the tree under test.
func v6Cfg(relayDepth, maxOpts int, canonical bool) gen.V6Cfg {
	c := v6Cov()
	skip := map[uint16]bool{}
	for k := range c.skip {
		skip[k] = true
	}
	return gen.V6Cfg{MaxRelayDepth: relayDepth, MaxOpts: maxOpts, Canonical: canonical, Skip: skip}
}

// genV6Wire generates the reference encoding of a tree; the tree is recovered
// from the bytes by the reference decoder (checked to be self-consistent).
func genV6Wire(cfg gen.V6Cfg) *rapid.Generator[obs.Hex] {
	c := v6Cov()
	return rapid.Custom(func(t *rapid.T) obs.Hex {
		m := gen.V6Msg(cfg).Draw(t, "tree")
		for _, u := range c.uncovered {
			stripCode(m, uint16(u))
		}
		enc := refv6.EncodeMsg(m)
		back, v := refv6.DecodeMsg(enc, c.skip, nil)
		if v == refv6.Reject {
			var why refv6.Reason
			refv6.DecodeMsg(enc, c.skip, &why)
			panic(fmt.Sprintf("reference rejects its own encoding: %s (%x)", why.Why, enc))
		}
		if p, w := refv6.Diff(m, back, true); p != "" {
			panic(fmt.Sprintf("reference codec not self-consistent at %s: %s", p, w))
		}
		return enc
	})
}

// stripCode removes options with a code the harness must not generate.
func stripCode(m *refv6.Msg, code uint16) {
	var f func(opts []refv6.Opt) []refv6.Opt
	f = func(opts []refv6.Opt) []refv6.Opt {
		out := opts[:0]
		for _, o := range opts {
			if o.Code == code && o.Typ == "opaque" {
				continue
			}
			o.Sub = f(o.Sub)
			if o.Msg != nil {
				o.Msg.Opts = f(o.Msg.Opts)
			}
			out = append(out, o)
		}
		return out
	}
	m.Opts = f(m.Opts)
}

// treeStats walks a tree: option type counts, nesting depth, number of options.
type treeStats struct {
	types map[string]int
	depth int
	nopts int
	typed int
}

func statsOf(m *refv6.Msg) treeStats {
	s := treeStats{types: map[string]int{}}
	var walkM func(m *refv6.Msg, d int)
	var walkO func(o []refv6.Opt, d int)
	walkO = func(opts []refv6.Opt, d int) {
		if d > s.depth {
			s.depth = d
		}
		for i := range opts {
			o := &opts[i]
			s.nopts++
			s.types[o.Typ]++
			if o.Typ != "opaque" {
				s.typed++
			}
			if len(o.Sub) > 0 {
				walkO(o.Sub, d+1)
			}
			if o.Msg != nil {
				walkM(o.Msg, d+1)
			}
		}
	}
	walkM = func(m *refv6.Msg, d int) {
		if m.Relay {
			s.types["relay-header"]++
		}
		walkO(m.Opts, d)
	}
	walkM(m, 1)
	return s
}

func (s treeStats) classify(rec *obs.Rec, suffix string) {
	for k, n := range s.types {
		rec.ClassN("type:"+k+suffix, int64(n))
	}
}

func summarizeTree(m *refv6.Msg) any {
	s := statsOf(m)
	return map[string]any{"msg_type": m.Type, "relay": m.Relay, "options": s.nopts, "depth": s.depth, "types": s.types}
}

func encodeOptPayload(o *refv6.Opt) []byte { return refv6.EncodeOpt(o) }

type refv4Packet = refv4.Packet

func refv4Decode(b []byte) (*refv4.Packet, bool) {
	p, why := refv4.Decode(b)
	return p, why == refv4.OK
}
func refv4Canonical(c gen.V4Case) []byte { return refv4.Canonical(c.Ref()) }

// deepRelay wraps inner in depth relay levels (hop counts 0..depth-1 from the inside out); with
// opts every level also carries an interface-id option.
func deepRelay(depth int, inner []byte, opts bool) []byte {
	return deepRelayHops(depth, inner, opts, 0)
}

// deepRelayHops: as deepRelay, with the hop-count FIELD of every level chosen independently of the real nesting
// depth (a field is just a field: 0 honest, 1 all zero, 2 all 31, 3 all 255, 4 counting the other way).
func deepRelayHops(depth int, inner []byte, opts bool, hopMode int) []byte {
	cur := append([]byte{}, inner...)
	for d := 0; d < depth; d++ {
		hdr := make([]byte, 34)
		hdr[0] = 12
		switch hopMode {
		case 0:
			hdr[1] = byte(d)
		case 1:
			hdr[1] = 0
		case 2:
			hdr[1] = 31
		case 3:
			hdr[1] = 255
		default:
			hdr[1] = byte(depth - 1 - d)
		}
		hdr[17] = byte(d + 1)
		hdr[33] = byte(d + 2)
		lvl := append(hdr, 0, 9, byte(len(cur)>>8), byte(len(cur)))
		lvl = append(lvl, cur...)
		if opts {
			lvl = append(lvl, 0, 18, 0, 2, 'i', byte(d))
		}
		cur = lvl
	}
	return cur
}

// deepInners are small inner messages that put one "interesting" option each behind a relay chain.
func deepInners() [][]byte {
	v4 := append(v4Prefix(), 53, 1, 1, 255)
	dv4 := append([]byte{20, 0, 0, 0, 0, 87, byte(len(v4) >> 8), byte(len(v4))}, v4...)
	return [][]byte{
		{1, 1, 2, 3},
		{1, 1, 2, 3, 0, 1, 0, 10, 0, 2, 0, 0, 4, 0xf7, 'S', 'N', '1', '2', 0, 16, 0, 23, 0, 0, 4, 0xf7, 0, 17, '1', '2', '7', '1', '-', '2', '3', '4', '2', '2', 'Z', '1', '1', '-', '1', '2', '3'},
		dv4,
		{7, 9, 9, 9, 0, 3, 0, 40, 0, 0, 0, 1, 0, 0, 0, 10, 0, 0, 0, 20, 0, 5, 0, 24, 0x20, 1, 0xd, 0xb8, 0, 0, 0, 0, 0, 0, 0, 0, 0, 0, 0, 1, 0, 0, 0, 30, 0, 0, 0, 40, 0, 24, 0, 9, 3, 'f', 'o', 'o', 0, 1, 'x', 0xc0, 0},
		{3, 5, 5, 5, 0, 17, 0, 12, 0, 0, 0, 9, 0, 1, 0, 4, 'a', 'b', 'c', 'd', 0, 79, 0, 10, 0, 27, 0, 0x11, 0x22, 0xff, 0xfe, 0x33, 0x44, 0x55},
	}
}

// deepDepths: every relay depth up to 40, then a sparser tail up to 100.
func deepDepths() []int {
	var d []int
	for i := 1; i <= 40; i++ {
		d = append(d, i)
	}
	return append(d, 44, 48, 56, 63, 64, 65, 80, 100)
}

// pointerOffsetBuffers: label buffers in which a compression pointer refers to a name that starts at offset X, for X
// around every power of two up to the 14 bits a pointer can hold (and a few in between): filler names up to X, the
// target name at X, then a name that ends in a pointer to X and a bare pointer to X. STRICT by construction.
func pointerOffsetBuffers() [][]byte {
	var out [][]byte
	for _, x := range []int{5, 62, 63, 64, 127, 128, 129, 255, 256, 257, 300, 511, 512, 513, 1000, 1023, 1024, 1025, 2047, 2048, 2049, 3000, 4095, 4096, 8191, 8192, 0x3ffe, 0x3fff} {
		var b []byte
		k := 0
		for len(b) < x { // filler names: label lengths chosen so that the target lands exactly on offset X
			rest := x - len(b)
			l := min(rest-2, 20+k%11)
			if rest-2-l == 1 || rest-2-l == 2 {
				l -= 2
			}
			if l <= 0 {
				break
			}
			b = append(append(append(b, byte(l)), bytes.Repeat([]byte{byte('a' + k%26)}, l)...), 0)
			k++
		}
		if len(b) != x {
			continue
		}
		b = append(b, 6, 't', 'a', 'r', 'g', 'e', 't', 3, 'o', 'r', 'g', 0)
		b = append(b, 3, 'w', 'w', 'w', 0xC0|byte(x>>8), byte(x))
		b = append(b, 0xC0|byte(x>>8), byte(x))
		out = append(out, b)
	}
	return out
}

// v6Refused: malformed DHCPv6 messages whose rejection happens deep inside (fresh copies each time): a relay chain
// whose innermost option overruns, an IA_NA whose address option is cut, an NTP sub-option and a name cut short, a
// vendor option with half a sub-option — decoded (and refused) between other decodes.
func v6Refused() [][]byte {
	inner := append([]byte{1, 9, 9, 9}, v6opt(3, append(make([]byte, 12), 0, 5, 0, 24, 1, 2, 3))...)
	relay := append(append(append([]byte{12, 0}, make([]byte, 32)...), v6opt(18, []byte("iface"))...), v6opt(9, inner)...)
	relay2 := append(append([]byte{12, 1}, make([]byte, 32)...), v6opt(9, relay)...)
	return [][]byte{
		inner, relay, relay2,
		append([]byte{7, 1, 2, 3}, v6opt(56, append(v6opt(1, make([]byte, 16)), 0, 3, 0, 9, 3, 'a', 'b'))...),
		append([]byte{7, 1, 2, 3}, v6opt(24, []byte{3, 'a', 'b', 'c', 0, 5, 'x'})...),
		append([]byte{7, 1, 2, 3}, v6opt(17, []byte{0, 0, 0, 9, 0, 1, 0})...),
		append(append([]byte{7, 1, 2, 3}, v6opt(1, []byte{0, 3, 0, 1, 1, 2, 3, 4, 5, 6})...), 0, 2, 0, 9, 0),
		{12, 0, 1, 2, 3},
	}
}

// labelEdgeBuffers: pointers whose target sits at the very end of the buffer — the last octet, the first octet past
// the end (offset == length), one further — and at the pointer itself and its neighbours, after 0..3 complete names
// and followed or not by another name; and names in presentation format (dotted ASCII text) where wire format belongs.
func labelEdgeBuffers() [][]byte {
	var out [][]byte
	names := [][]byte{{3, 'a', 'b', 'c', 0}, {1, 'x', 2, 'y', 'z', 0}, {5, 'h', 'e', 'l', 'l', 'o', 3, 'o', 'r', 'g', 0}}
	for n := 0; n <= 3; n++ {
		var pre []byte
		for i := 0; i < n; i++ {
			pre = append(pre, names[i%len(names)]...)
		}
		for _, open := range [][]byte{nil, {3, 'a', 'b', 'c'}, {1, 'w'}} { // labels of the name that ends in the pointer
			for _, tail := range [][]byte{nil, {2, 'z', 'z', 0}, {0}} {
				pos := len(pre) + len(open)
				total := pos + 2 + len(tail)
				for _, off := range []int{0, pos - 1, pos, pos + 1, pos + 2, total - 1, total, total + 1} {
					if off < 0 || off > 0x3fff {
						continue
					}
					b := append(append(append([]byte{}, pre...), open...), 0xC0|byte(off>>8), byte(off))
					out = append(out, append(b, tail...))
				}
			}
		}
	}
	for _, txt := range []string{"host.example.com", "a.b", "example.com.", "xn--bcher-kva.example", "A-1.b-2.C3", "localhost", "a.b.c.d.e.f.g.h", "h.example"} {
		out = append(out, []byte(txt))
		out = append(out, append([]byte{3, 'w', 'w', 'w', 0}, txt...))
	}
	return out
}

// labelCumulativeBuffers: many names that are each well within the 255-octet limit but add up far beyond it — ended by
// a root octet, by a pointer to one shared suffix, or alternating — so that a length counter that survives from one
// name to the next (in any of the ways a name can end) rejects a valid list. STRICT by construction.
func labelCumulativeBuffers() [][]byte {
	var out [][]byte
	suffix := []byte{7, 'e', 'x', 'a', 'm', 'p', 'l', 'e', 3, 'o', 'r', 'g', 0}
	for _, per := range []int{20, 50, 63} {
		for _, count := range []int{2, 4, 6, 12} {
			for mode := 0; mode < 3; mode++ {
				b := append([]byte{}, suffix...) // offset 0: the shared suffix as a name of its own
				for i := 0; i < count; i++ {
					b = append(append(b, byte(per)), bytes.Repeat([]byte{byte('a' + i%26)}, per)...)
					if mode == 0 || (mode == 2 && i%2 == 0) {
						b = append(b, 0xC0, 0)
					} else {
						b = append(b, 0)
					}
				}
				out = append(out, b)
			}
		}
	}
	return out
}
