// Package refip is an independent reading of RFC 791 (IPv4 header), RFC 768
// (UDP) and RFC 1071 (Internet checksum). Standard library only.
package refip

import "fmt"

// Sum16 is the RFC 1071 one's-complement sum of b (odd tail padded with zero), folded to 16 bits.
func Sum16(parts ...[]byte) uint16 {
	var s uint32
	for _, b := range parts {
		if len(b)%2 != 0 {
			// callers only pass an odd-length slice as the last part
		}
		for i := 0; i+1 < len(b); i += 2 {
			s += uint32(b[i])<<8 | uint32(b[i+1])
		}
		if len(b)%2 == 1 {
			s += uint32(b[len(b)-1]) << 8
		}
	}
	for s>>16 != 0 {
		s = s&0xffff + s>>16
	}
	return uint16(s)
}

// Frame is the reference reading of an IPv4/UDP frame.
type Frame struct {
	Version, IHL     int
	TOS              uint8
	TotalLen         int
	ID               uint16
	FlagsFrag        uint16
	TTL, Proto       uint8
	HdrChecksum      uint16
	Src, Dst         [4]byte
	SrcPort, DstPort int
	UDPLen           int
	UDPChecksum      uint16
	Payload          []byte // bounded by the IP total length
}

// Parse reads a frame; it returns an error text when the frame is not a
// well-formed IPv4/UDP datagram (by the structural rules of RFC 791/768).
func Parse(f []byte) (*Frame, string) {
	if len(f) < 20 {
		return nil, "shorter than an IPv4 header"
	}
	fr := &Frame{Version: int(f[0] >> 4), IHL: int(f[0] & 0xf), TOS: f[1], TotalLen: int(f[2])<<8 | int(f[3]),
		ID: uint16(f[4])<<8 | uint16(f[5]), FlagsFrag: uint16(f[6])<<8 | uint16(f[7]), TTL: f[8], Proto: f[9],
		HdrChecksum: uint16(f[10])<<8 | uint16(f[11])}
	copy(fr.Src[:], f[12:16])
	copy(fr.Dst[:], f[16:20])
	if fr.Version != 4 {
		return nil, fmt.Sprintf("version %d", fr.Version)
	}
	h := fr.IHL * 4
	if h < 20 {
		return nil, "IHL < 5"
	}
	if fr.TotalLen < h {
		return nil, "total length shorter than the header"
	}
	if fr.TotalLen > len(f) {
		return nil, "total length longer than the frame"
	}
	if fr.Proto != 17 {
		return nil, "not UDP"
	}
	if fr.TotalLen < h+8 {
		return nil, "total length leaves no room for a UDP header"
	}
	u := f[h:]
	fr.SrcPort = int(u[0])<<8 | int(u[1])
	fr.DstPort = int(u[2])<<8 | int(u[3])
	fr.UDPLen = int(u[4])<<8 | int(u[5])
	fr.UDPChecksum = uint16(u[6])<<8 | uint16(u[7])
	fr.Payload = f[h+8 : fr.TotalLen]
	return fr, ""
}

// HeaderChecksumOK verifies the IPv4 header checksum (RFC 1071: the sum over the header is 0xFFFF).
func HeaderChecksumOK(f []byte) bool {
	h := int(f[0]&0xf) * 4
	return Sum16(f[:h]) == 0xffff
}

// UDPChecksum computes the RFC 768 checksum field value for the UDP datagram in
// frame f (pseudo header + UDP header with zero checksum + data); a computed
// zero is transmitted as 0xFFFF.
func UDPChecksum(f []byte) uint16 {
	h := int(f[0]&0xf) * 4
	tl := int(f[2])<<8 | int(f[3])
	seg := append([]byte{}, f[h:tl]...)
	seg[6], seg[7] = 0, 0
	pseudo := []byte{f[12], f[13], f[14], f[15], f[16], f[17], f[18], f[19], 0, 17, byte(len(seg) >> 8), byte(len(seg))}
	// the pseudo header has even length, so concatenation is safe
	c := ^Sum16(append(pseudo, seg...))
	if c == 0 {
		return 0xffff
	}
	return c
}

// Build writes a frame (used to generate read-side inputs).
func Build(ihl int, opts []byte, totalLen int, proto uint8, src, dst [4]byte, sport, dport int, payload, padding []byte) []byte {
	h := make([]byte, ihl*4)
	h[0] = 4<<4 | byte(ihl&0xf)
	h[8] = 64
	h[9] = proto
	copy(h[12:], src[:])
	copy(h[16:], dst[:])
	copy(h[20:], opts)
	u := []byte{byte(sport >> 8), byte(sport), byte(dport >> 8), byte(dport), byte((8 + len(payload)) >> 8), byte(8 + len(payload)), 0, 0}
	f := append(append(h, u...), payload...)
	if totalLen < 0 {
		totalLen = len(f)
	}
	f[2], f[3] = byte(totalLen>>8), byte(totalLen)
	return append(f, padding...)
}
