// Package gen holds the rapid generators, mutators and corpus builders shared
// by the checks. Every random choice is a rapid draw.
package gen

import (
	"net"

	"github.com/insomniacslk/dhcp/dhcpv4"
	"github.com/insomniacslk/dhcp/iana"
	"pgregory.net/rapid"

	"verif/obs"
	"verif/ref/refv4"
)

// Addr is one IPv4 header address in one of the forms the encoder documents:
// nil (== 0.0.0.0), 4-byte, or 16-byte IPv4-mapped.
type Addr struct {
	Form int     `json:"form"` // 0 nil, 1 four-byte, 2 sixteen-byte mapped
	IP   obs.Hex `json:"ip"`   // 4 bytes (all zero for form 0)
}

func (a Addr) Lib() net.IP {
	switch a.Form {
	case 0:
		return nil
	case 1:
		return net.IP(append([]byte{}, a.IP...))
	default:
		return net.IPv4(a.IP[0], a.IP[1], a.IP[2], a.IP[3])
	}
}

func (a Addr) Four() [4]byte {
	var r [4]byte
	if a.Form != 0 {
		copy(r[:], a.IP)
	}
	return r
}

type V4Opt struct {
	Code uint8   `json:"code"`
	Val  obs.Hex `json:"val"`
}

// V4Case is a DHCPv4 packet value in the encodable domain of C01.
type V4Case struct {
	Op     uint8   `json:"op"`
	HType  uint8   `json:"htype"`
	Hops   uint8   `json:"hops"`
	Xid    obs.Hex `json:"xid"`
	Secs   uint16  `json:"secs"`
	Flags  uint16  `json:"flags"`
	CI     Addr    `json:"ci"`
	YI     Addr    `json:"yi"`
	SI     Addr    `json:"si"`
	GI     Addr    `json:"gi"`
	CHAddr obs.Hex `json:"chaddr"`
	SName  obs.Hex `json:"sname"`
	File   obs.Hex `json:"file"`
	Opts   []V4Opt `json:"opts"`
}

// Lib builds the library value through exported fields only.
func (c V4Case) Lib() *dhcpv4.DHCPv4 {
	p := &dhcpv4.DHCPv4{
		OpCode:         dhcpv4.OpcodeType(c.Op),
		HWType:         iana.HWType(c.HType),
		HopCount:       c.Hops,
		NumSeconds:     c.Secs,
		Flags:          c.Flags,
		ClientIPAddr:   c.CI.Lib(),
		YourIPAddr:     c.YI.Lib(),
		ServerIPAddr:   c.SI.Lib(),
		GatewayIPAddr:  c.GI.Lib(),
		ClientHWAddr:   net.HardwareAddr(append([]byte{}, c.CHAddr...)),
		ServerHostName: string(c.SName),
		BootFileName:   string(c.File),
		Options:        dhcpv4.Options{},
	}
	copy(p.TransactionID[:], c.Xid)
	for _, o := range c.Opts {
		p.Options[o.Code] = append([]byte{}, o.Val...)
	}
	return p
}

// Ref builds the reference value of the same packet.
func (c V4Case) Ref() *refv4.Packet {
	p := &refv4.Packet{Op: c.Op, HType: c.HType, HLen: uint8(len(c.CHAddr)), Hops: c.Hops, Secs: c.Secs, Flags: c.Flags,
		CI: c.CI.Four(), YI: c.YI.Four(), SI: c.SI.Four(), GI: c.GI.Four(),
		CHAddr: append([]byte{}, c.CHAddr...), SName: string(c.SName), File: string(c.File), Opts: map[uint8][]byte{}}
	copy(p.Xid[:], c.Xid)
	for _, o := range c.Opts {
		p.Opts[o.Code] = append([]byte{}, o.Val...)
		p.Order = append(p.Order, o.Code)
	}
	return p
}

func genAddr() *rapid.Generator[Addr] {
	return rapid.Custom(func(t *rapid.T) Addr {
		f := rapid.IntRange(0, 2).Draw(t, "form")
		a := Addr{Form: f, IP: make([]byte, 4)}
		if f != 0 {
			switch rapid.IntRange(0, 3).Draw(t, "ipkind") {
			case 0:
				// all zero
			case 1:
				copy(a.IP, []byte{255, 255, 255, 255})
			default:
				copy(a.IP, rapid.SliceOfN(rapid.Byte(), 4, 4).Draw(t, "ip"))
			}
		}
		return a
	})
}

// BoundaryLen draws an option value length biased to the RFC 3396 split boundaries.
func BoundaryLen(max int) *rapid.Generator[int] {
	return rapid.Custom(func(t *rapid.T) int {
		var n int
		switch rapid.IntRange(0, 9).Draw(t, "lenclass") {
		case 0:
			n = rapid.IntRange(0, 2).Draw(t, "n")
		case 1:
			n = rapid.IntRange(253, 258).Draw(t, "n")
		case 2:
			n = rapid.IntRange(508, 513).Draw(t, "n")
		case 3:
			n = rapid.IntRange(763, 768).Draw(t, "n")
		case 4:
			n = rapid.IntRange(1018, 1022).Draw(t, "n")
		case 5:
			if rapid.IntRange(0, 3).Draw(t, "big") == 0 {
				n = 4096
			} else {
				n = rapid.IntRange(0, 4096).Draw(t, "n")
			}
		default:
			n = rapid.IntRange(0, 40).Draw(t, "n")
		}
		if n > max {
			n = max
		}
		return n
	})
}

// Fill produces n bytes from a small number of draws (so that long values are cheap and shrink well).
func Fill(t *rapid.T, n int, label string) []byte {
	b := make([]byte, n)
	if n == 0 {
		return b
	}
	switch rapid.IntRange(0, 4).Draw(t, label+"fill") {
	case 0: // constant
		c := rapid.SampledFrom([]byte{0x00, 0xFF, 0x01, 0x3F, 0x52, 0x35}).Draw(t, label+"c")
		for i := range b {
			b[i] = c
		}
	case 1: // counting
		s := rapid.Byte().Draw(t, label+"s")
		for i := range b {
			b[i] = s + byte(i)
		}
	case 2: // short seed repeated
		seed := rapid.SliceOfN(rapid.Byte(), 1, 7).Draw(t, label+"seed")
		for i := range b {
			b[i] = seed[i%len(seed)]
		}
	default: // fully random when short, seeded when long
		if n <= 64 {
			copy(b, rapid.SliceOfN(rapid.Byte(), n, n).Draw(t, label+"raw"))
		} else {
			seed := rapid.SliceOfN(rapid.Byte(), 8, 24).Draw(t, label+"seed")
			x := uint32(2166136261)
			for i := range b {
				x = (x ^ uint32(seed[i%len(seed)])) * 16777619
				b[i] = byte(x >> 13)
			}
		}
	}
	return b
}

func noNUL(b []byte) []byte {
	for i := range b {
		if b[i] == 0 {
			b[i] = 'x'
		}
	}
	return b
}

// V4Packet generates the C01 domain. maxOpts bounds the number of options,
// maxVal the value length.
func V4Packet(maxOpts, maxVal int) *rapid.Generator[V4Case] {
	return rapid.Custom(func(t *rapid.T) V4Case {
		c := V4Case{
			Op:    rapid.SampledFrom([]uint8{1, 2, 1, 2, 0, 3, 255}).Draw(t, "op"),
			HType: rapid.SampledFrom([]uint8{1, 1, 6, 0, 255, 32}).Draw(t, "htype"),
			Hops:  rapid.Byte().Draw(t, "hops"),
			Xid:   rapid.SliceOfN(rapid.Byte(), 4, 4).Draw(t, "xid"),
			Secs:  rapid.Uint16().Draw(t, "secs"),
			Flags: rapid.SampledFrom([]uint16{0, 0x8000, 0xFFFF, 1, 0x7FFF}).Draw(t, "flags"),
			CI:    genAddr().Draw(t, "ci"),
			YI:    genAddr().Draw(t, "yi"),
			SI:    genAddr().Draw(t, "si"),
			GI:    genAddr().Draw(t, "gi"),
		}
		hl := rapid.SampledFrom([]int{6, 6, 6, 0, 1, 8, 15, 16, 3, 12}).Draw(t, "hlen")
		c.CHAddr = Fill(t, hl, "chaddr")
		sl := rapid.SampledFrom([]int{0, 0, 1, 5, 62, 63}).Draw(t, "snamelen")
		c.SName = noNUL(Fill(t, sl, "sname"))
		fl := rapid.SampledFrom([]int{0, 0, 1, 9, 126, 127}).Draw(t, "filelen")
		c.File = noNUL(Fill(t, fl, "file"))
		n := rapid.IntRange(0, maxOpts).Draw(t, "nopts")
		used := map[uint8]bool{}
		// RFC-shaped values of well-known options (hostile constants: code paths that key on a code AND a shape)
		if rapid.IntRange(0, 3).Draw(t, "special") == 0 {
			type sp struct {
				code uint8
				val  []byte
			}
			mac := Fill(t, 6, "spmac")
			pick := rapid.SampledFrom([]sp{
				{52, []byte{1}}, {52, []byte{2}}, {52, []byte{3}}, {52, []byte{4}}, // option overload
				{61, append([]byte{c.HType}, mac...)}, {61, append([]byte{1}, mac...)}, // client identifier: htype + address
				{97, append([]byte{0}, Fill(t, 16, "guid")...)}, // PXE client machine identifier (type 0 + GUID)
				{93, []byte{0, 7}}, {94, []byte{1, 3, 16}}, // PXE architecture / NII
				{55, []byte{1, 3, 6, 15, 3}}, {53, []byte{byte(rapid.IntRange(0, 9).Draw(t, "mt"))}},
				{82, []byte{1, 2, 0xaa, 0xbb, 2, 1, 0xcc}}, {121, []byte{24, 10, 1, 2, 10, 0, 0, 1}}, {119, []byte{3, 'f', 'o', 'o', 0, 0xc0, 0}},
				{124, []byte{0, 0, 0, 9, 3, 'a', 'b', 'c'}}, {77, []byte{2, 'x', 'y'}}, {116, []byte{1}}, {57, []byte{5, 220}},
			}).Draw(t, "sp")
			if !used[pick.code] {
				used[pick.code] = true
				c.Opts = append(c.Opts, V4Opt{Code: pick.code, Val: pick.val})
			}
			switch rapid.IntRange(0, 4).Draw(t, "spname") {
			case 0: // names that happen to be well-formed option lists (option overload, RFC 2131 section 4.1)
				c.SName = []byte("\xff")
				c.File = []byte("B\x0410.0\xff")
			case 1:
				c.File = []byte("\xff")
			case 2:
				c.CHAddr = []byte{} // no hardware address, identity only in option 61
			}
		}
		for i := 0; i < n; i++ {
			var code uint8
			if rapid.IntRange(0, 2).Draw(t, "codeclass") == 0 {
				code = rapid.SampledFrom([]uint8{1, 82, 254, 53, 61, 55, 54, 50, 12, 119, 121, 43, 77, 124}).Draw(t, "code")
			} else {
				code = uint8(rapid.IntRange(1, 254).Draw(t, "code"))
			}
			if used[code] {
				continue
			}
			used[code] = true
			l := BoundaryLen(maxVal).Draw(t, "vlen")
			c.Opts = append(c.Opts, V4Opt{Code: code, Val: Fill(t, l, "val")})
		}
		return c
	})
}
