package props

import (
	"encoding/json"
	"flag"
	"fmt"
	"os"
	"path/filepath"
	"runtime"
	"sort"
	"strings"
	"sync"
	"testing"
	"time"

	"pgregory.net/rapid"

	"verif/obs"
)

func TestMain(m *testing.M) {
	flag.Parse()
	go memoryMonitor()
	code := m.Run()
	obs.Flush()
	os.Exit(code)
}

// caseLimit is the real-time watchdog per case: two orders of magnitude above the normal cost of the slowest
// cases (seconds) and eight above the common ones; a case that is still running then is reported as
// non-termination and the process exits at once (the stuck goroutine cannot be stopped, so nothing is shrunk).
const caseLimit = 300 * time.Second

// current case, for the runaway-allocation monitor
var (
	curMu   sync.Mutex
	curFail func(sig, got string)
)

// memoryMonitor turns unbounded allocation (e.g. an encoder stuck in a loop that keeps appending) into a recorded
// violation of the running case instead of an out-of-memory crash of the test process.
func memoryMonitor() {
	const limit = 10 << 30
	var ms runtime.MemStats
	for {
		time.Sleep(200 * time.Millisecond)
		runtime.ReadMemStats(&ms)
		if ms.HeapAlloc > limit {
			curMu.Lock()
			f := curFail
			curMu.Unlock()
			if f != nil {
				f("runaway-allocation", fmt.Sprintf("heap grew beyond %d GiB while this case was running", limit>>30))
			}
			obs.Flush()
			fmt.Println("VIOLATION-CASE runaway allocation: heap beyond limit, aborting the process")
			os.Exit(1)
		}
	}
}

// fataler is satisfied by *testing.T and *rapid.T.
type fataler interface {
	Fatalf(format string, args ...any)
}

// replayFns maps a check name to a function that re-runs one saved case.
var replayFns = map[string]func(raw json.RawMessage) *obs.Fail{}

// chk is one executable check: an oracle over a serialisable case.
type chk[C any] struct {
	rec *obs.Rec
	run func(c C) *obs.Fail
}

// newChk registers the oracle for replay and returns the check.
func newChk[C any](prop, name, rule string, run func(rec *obs.Rec, c C) *obs.Fail) *chk[C] {
	rec := obs.New(prop, name, rule)
	ck := &chk[C]{rec: rec}
	ck.run = func(c C) *obs.Fail {
		return obs.Guard(prop+"/"+name, func() *obs.Fail { return run(rec, c) })
	}
	replayFns[prop+"/"+name] = func(raw json.RawMessage) *obs.Fail {
		var c C
		if err := json.Unmarshal(raw, &c); err != nil {
			return &obs.Fail{Sig: "replay/unmarshal", Expected: "a case of " + name, Got: err.Error()}
		}
		return ck.run(c)
	}
	return ck
}

// one evaluates a case; a failure that is not a known finding is written as
// the pending replay file and fails the (rapid) test so that it is shrunk.
func (ck *chk[C]) one(t fataler, c C) {
	ck.rec.Eval()
	curMu.Lock()
	curFail = func(sig, got string) {
		ck.rec.Violation(&obs.Fail{Sig: ck.rec.Prop + "/" + ck.rec.Check + "/" + sig, Expected: "bounded work", Got: got}, c)
	}
	curMu.Unlock()
	done := make(chan *obs.Fail, 1)
	go func() { done <- ck.run(c) }()
	var f *obs.Fail
	timer := time.NewTimer(caseLimit)
	select {
	case f = <-done:
		timer.Stop()
	case <-timer.C:
		f = &obs.Fail{Sig: ck.rec.Prop + "/" + ck.rec.Check + "/nontermination", Expected: "the case finishes", Got: fmt.Sprintf("still running after %v of real time", caseLimit)}
		if !ck.rec.Known(f) {
			path := ck.rec.Violation(f, c)
			fmt.Printf("VIOLATION-CASE property=%s check=%s file=%s\n%s\n", ck.rec.Prop, ck.rec.Check, path, f)
			obs.Flush()
			os.Exit(1)
		}
	}
	if f == nil {
		return
	}
	if ck.rec.Known(f) {
		return
	}
	path := ck.rec.Violation(f, c)
	t.Fatalf("VIOLATION-CASE property=%s check=%s file=%s\n%s", ck.rec.Prop, ck.rec.Check, path, f)
}

// rapidCheck runs the check over a generator.
func (ck *chk[C]) rapidCheck(t *testing.T, g *rapid.Generator[C]) {
	rapid.Check(t, func(rt *rapid.T) {
		c := g.Draw(rt, "case")
		ck.one(rt, c)
	})
}

// TestReplay re-executes saved cases: VERIF_REPLAY is a file or a directory;
// VERIF_PROP optionally filters by property.
func TestReplay(t *testing.T) {
	target := os.Getenv("VERIF_REPLAY")
	if target == "" {
		t.Skip("VERIF_REPLAY not set")
	}
	curT = t // the virtual-time checks host their bubbles on the running test
	var files []string
	if st, err := os.Stat(target); err == nil && st.IsDir() {
		filepath.Walk(target, func(p string, info os.FileInfo, err error) error {
			if err == nil && !info.IsDir() && strings.HasSuffix(p, ".json") {
				files = append(files, p)
			}
			return nil
		})
	} else {
		files = []string{target}
	}
	sort.Strings(files)
	want := os.Getenv("VERIF_PROP")
	rec := map[string]*obs.Rec{}
	for _, f := range files {
		b, err := os.ReadFile(f)
		if err != nil {
			t.Fatalf("replay %s: %v", f, err)
		}
		var rf obs.ReplayFile
		if err := json.Unmarshal(b, &rf); err != nil {
			t.Fatalf("replay %s: %v", f, err)
		}
		if want != "" && rf.Property != want {
			continue
		}
		fn := replayFns[rf.Property+"/"+rf.Check]
		if fn == nil {
			t.Fatalf("replay %s: unknown check %s/%s", f, rf.Property, rf.Check)
		}
		r := rec[rf.Property]
		if r == nil {
			r = obs.New(rf.Property, "replay", "saved cases (earlier failures and hand-written regression cases) re-executed without the generator")
			rec[rf.Property] = r
		}
		r.Eval()
		r.Class(rf.Check)
		r.NonTrivial(obs.Hash64(rf.Case), func() any { return map[string]any{"file": filepath.Base(f), "check": rf.Check} })
		if fail := fn(rf.Case); fail != nil {
			if r.Known(fail) {
				continue
			}
			var c any
			json.Unmarshal(rf.Case, &c)
			rr := obs.New(rf.Property, rf.Check, "")
			rr.Violation(fail, c)
			t.Errorf("VIOLATION-CASE property=%s check=%s replayed=%s\n%s", rf.Property, rf.Check, f, fail)
		}
	}
}

func hx(b []byte) string { return fmt.Sprintf("%x", b) }
