package props

import (
	"bytes"
	"fmt"
	"net"
	"testing"

	"github.com/insomniacslk/dhcp/dhcpv4"
	"github.com/insomniacslk/dhcp/dhcpv6"
	"pgregory.net/rapid"

	"verif/gen"
	"verif/obs"
	"verif/ref/refv6"
)

// C08 — decoded messages own their memory; encoded output is a fresh buffer.

type c08Case struct {
	V6      bool    `json:"v6"`
	B       obs.Hex `json:"bytes"`
	Pattern int     `json:"pattern"` // 0 zero 1 0xFF 2 0x3F ("small length") 3 0x01 4 counting 5 next packet 6 invert
	Next    obs.Hex `json:"next"`
	Route   int     `json:"route,omitempty"` // DHCPv6: 0 FromBytes, 1 the typed entry point for the datagram's message type (MessageFromBytes / RelayMessageFromBytes)
}

func scribble(buf []byte, pattern int, next []byte) {
	for i := range buf {
		switch pattern {
		case 0:
			buf[i] = 0
		case 1:
			buf[i] = 0xff
		case 2:
			buf[i] = 0x3f
		case 3:
			buf[i] = 0x01
		case 4:
			buf[i] = byte(i*37 + 11)
		case 5:
			if len(next) > 0 {
				buf[i] = next[i%len(next)]
			} else {
				buf[i] = 0x55
			}
		default:
			buf[i] = ^buf[i]
		}
	}
}

type c08Msg struct {
	enc  func() []byte
	walk func() []obsEntry
	v6   dhcpv6.DHCPv6
}

// c08Reparse re-uses the option objects of a decoded DHCPv6 message as decoders: every top-level option whose type
// has a FromBytes method (and every NTP server-FQDN sub-option) parses a small well-formed payload from a buffer of
// its own. Returns those buffers. An object that was decoded from one buffer and then decodes from another must
// end up owning its memory just the same, and must not write to either.
func c08Reparse(d dhcpv6.DHCPv6) [][]byte {
	var bufs [][]byte
	var opts dhcpv6.Options
	switch m := d.(type) {
	case *dhcpv6.Message:
		opts = m.Options.Options
	case *dhcpv6.RelayMessage:
		opts = m.Options.Options
	}
	for _, o := range opts {
		if ntp, ok := o.(*dhcpv6.OptNTPServer); ok {
			for _, so := range ntp.Suboptions {
				if f, ok := so.(*dhcpv6.NTPSuboptionSrvFQDN); ok {
					b := []byte{3, 'n', 't', 'p', 0}
					if f.FromBytes(b) == nil {
						bufs = append(bufs, b)
					}
				}
			}
			continue
		}
		fb, ok := o.(interface{ FromBytes([]byte) error })
		if !ok {
			continue
		}
		for _, mo := range c09MinimalOpts {
			if mo.code == uint16(o.Code()) && mo.code != 9 {
				b := append(append([]byte{}, mo.payload...), make([]byte, 0, 64)...) // spare capacity behind the payload, like a slice of a larger receive buffer
				if fb.FromBytes(b) == nil {
					bufs = append(bufs, b)
				}
			}
		}
	}
	return bufs
}

var c08Route int

func c08Decode(v6 bool, buf []byte) (*c08Msg, bool) {
	if v6 {
		var d dhcpv6.DHCPv6
		var err error
		switch {
		case c08Route == 1 && len(buf) > 0 && (buf[0] == 12 || buf[0] == 13):
			var r *dhcpv6.RelayMessage
			if r, err = dhcpv6.RelayMessageFromBytes(buf); err == nil {
				d = r
			}
		case c08Route == 1 && len(buf) > 0:
			var m *dhcpv6.Message
			if m, err = dhcpv6.MessageFromBytes(buf); err == nil {
				d = m
			}
		default:
			d, err = dhcpv6.FromBytes(buf)
		}
		if err != nil {
			return nil, false
		}
		return &c08Msg{d.ToBytes, func() []obsEntry { return observeV6(d, false) }, d}, true
	}
	p, err := dhcpv4.FromBytes(buf)
	if err != nil {
		return nil, false
	}
	return &c08Msg{p.ToBytes, func() []obsEntry { return observeV4(p, false) }, nil}, true
}

var c08 = newChk("C08", "ownership",
	"accepted DHCPv4/DHCPv6 inputs covering every option type (nested in IA, vendor, NTP and relay options too) decoded from a private buffer; the buffer is then overwritten (all-zero, all-0xFF, 0x3F 'small length', 0x01, counting, next-packet, inverted) and the message's encoding and its whole observer walk (fields, printed form, accessors) must not change; then the returned encoding is overwritten and a later encoding and walk must not change; non-trivial = message has ≥1 option with a variable-length payload; distinct by hash of (input, pattern)",
	func(rec *obs.Rec, c c08Case) *obs.Fail {
		c08Route = c.Route
		defer func() { c08Route = 0 }()
		buf := append([]byte{}, c.B...)
		m, ok := c08Decode(c.V6, buf)
		if !ok {
			rec.Class("rejected")
			return nil
		}
		fam := "v4"
		if c.V6 {
			fam = "v6"
		}
		enc1 := append([]byte{}, m.enc()...)
		w1 := m.walk()
		scribble(buf, c.Pattern, c.Next)
		enc2 := m.enc()
		if !bytes.Equal(enc1, enc2) {
			sig := "C08/" + fam + "/input-aliased/encoding"
			if c.V6 {
				if t1, v1 := refv6.DecodeMsg(enc1, v6Cov().skip, nil); v1 != refv6.Reject {
					if t2, v2 := refv6.DecodeMsg(enc2, v6Cov().skip, nil); v2 != refv6.Reject {
						if p, _ := refv6.Diff(t1, t2, true); p != "" {
							sig += "/" + sigPath(p)
						}
					} else {
						sig += "/" + firstTypeAt(t1, enc1, enc2)
					}
				}
			}
			return obs.Failf(sig, fmt.Sprintf("encoding unchanged after the source buffer was overwritten (pattern %d)", c.Pattern), "differs at byte %d: %x vs %x", firstDiff(enc1, enc2), clipb(enc1[firstDiff(enc1, enc2):]), clipb(enc2[firstDiff(enc1, enc2):]))
		}
		w2 := m.walk()
		if name, a, b := diffEntries(w1, w2); name != "" {
			return obs.Failf("C08/"+fam+"/input-aliased/"+methodKey(name), fmt.Sprintf("%s unchanged: %s", name, a), "%s", b)
		}
		// the caller may modify the returned encoding
		out := m.enc()
		keep := append([]byte{}, out...)
		scribble(out, c.Pattern, c.Next)
		if again := m.enc(); !bytes.Equal(again, keep) {
			return obs.Failf("C08/"+fam+"/output-aliased/encoding", "a fresh buffer on every encoding", "later encoding differs at byte %d after the returned bytes were modified", firstDiff(again, keep))
		}
		w3 := m.walk()
		if name, a, b := diffEntries(w1, w3); name != "" {
			return obs.Failf("C08/"+fam+"/output-aliased/"+methodKey(name), fmt.Sprintf("%s unchanged: %s", name, a), "%s", b)
		}
		// option objects of the decoded message reused as decoders (from buffers of their own)
		if c.V6 && len(c.B) <= 1024 {
			buf2 := append([]byte{}, c.B...)
			if m2, ok := c08Decode(true, buf2); ok {
				bufs := c08Reparse(m2.v6)
				if !bytes.Equal(buf2, c.B) {
					return obs.Failf("C08/v6/reparse-wrote-to-the-first-buffer", "decoding into an option object leaves every input buffer unchanged", "the message's source buffer changed at byte %d", firstDiff(buf2, c.B))
				}
				if len(bufs) > 0 {
					encA := append([]byte{}, m2.enc()...)
					scribble(buf2, c.Pattern, c.Next)
					for _, b := range bufs {
						scribble(b[:cap(b)], c.Pattern, c.Next)
					}
					if encB := m2.enc(); !bytes.Equal(encA, encB) {
						return obs.Failf("C08/v6/input-aliased/after-reparse", "encoding unchanged after every source buffer was overwritten", "differs at byte %d", firstDiff(encA, encB))
					}
					rec.Class("option objects re-used as decoders")
				}
			}
		}
		// DHCPv4: the same options decoded through the exported decoders of an options area (a message assembled field
		// by field whose options come from Options.FromBytes; relay agent information through its typed decoder)
		if !c.V6 && len(c.B) > 240 {
			end := 240
			for end < len(c.B) && c.B[end] != 255 {
				if c.B[end] == 0 {
					end++
					continue
				}
				if end+1 >= len(c.B) || end+2+int(c.B[end+1]) > len(c.B) {
					end = -1
					break
				}
				end += 2 + int(c.B[end+1])
			}
			if end > 240 {
				area := append([]byte{}, c.B[240:end]...)
				opts := dhcpv4.Options{}
				if err := opts.FromBytes(area); err == nil {
					asm := &dhcpv4.DHCPv4{OpCode: dhcpv4.OpcodeBootReply, HWType: 1, ClientHWAddr: net.HardwareAddr{1, 2, 3, 4, 5, 6}, Options: opts}
					e1, s1 := append([]byte{}, asm.ToBytes()...), asm.Summary()
					var rai *dhcpv4.RelayOptions
					var r1 []byte
					var rbuf []byte
					if v := opts.Get(dhcpv4.OptionRelayAgentInformation); len(v) > 0 {
						rbuf = append([]byte{}, v...)
						ro := &dhcpv4.RelayOptions{}
						if ro.FromBytes(rbuf) == nil {
							rai, r1 = ro, append([]byte{}, ro.ToBytes()...)
						}
					}
					scribble(area, c.Pattern, c.Next)
					scribble(rbuf, c.Pattern, c.Next)
					if e2 := asm.ToBytes(); !bytes.Equal(e1, e2) {
						return obs.Failf("C08/v4/input-aliased/options-area/encoding", "a message assembled from Options.FromBytes keeps its encoding after the area was overwritten", "differs at byte %d", firstDiff(e1, e2))
					}
					if s2 := asm.Summary(); s2 != s1 {
						return obs.Failf("C08/v4/input-aliased/options-area/Summary", clipS(s1), "%s", clipS(s2))
					}
					if rai != nil && !bytes.Equal(rai.ToBytes(), r1) {
						return obs.Failf("C08/v4/input-aliased/relay-options", "RelayOptions decoded from a buffer keep their encoding after it was overwritten", "%x vs %x", clipb(r1), clipb(rai.ToBytes()))
					}
					rec.Class("v4 options area through the exported decoders")
				}
			}
		}
		rec.Class(fmt.Sprintf("%s pattern %d", fam, c.Pattern))
		if c.V6 {
			if t, v := refv6.DecodeMsg(c.B, v6Cov().skip, nil); v != refv6.Reject {
				statsOf(t).classify(rec, "")
			}
		}
		if len(c.B) > 8 {
			rec.NonTrivial(obs.Hash64(c.B, []byte{byte(c.Pattern)}), func() any {
				return map[string]any{"family": fam, "len": len(c.B), "pattern": c.Pattern, "bytes": hx(clipb(c.B))}
			})
		}
		return nil
	})

// TestC08_DeepRelay: ownership at every relay depth 1..100 (the 0x3F and next-packet patterns).
func TestC08_DeepRelay(t *testing.T) {
	ins := deepInners()
	for _, inner := range ins {
		for _, d := range deepDepths() {
			b := deepRelay(d, inner, d%3 == 0)
			if len(b) > 4096 {
				continue
			}
			c08.one(t, c08Case{V6: true, B: b, Pattern: 2})
			c08.one(t, c08Case{V6: true, B: b, Pattern: 5, Next: deepRelay(3, ins[3], true)})
		}
	}
}

func firstTypeAt(t *refv6.Msg, a, b []byte) string { return "unreadable-after-overwrite" }

func genC08() *rapid.Generator[c08Case] {
	return rapid.Custom(func(t *rapid.T) c08Case {
		c := c08Case{V6: rapid.IntRange(0, 3).Draw(t, "fam") != 0, Pattern: rapid.IntRange(0, 6).Draw(t, "pattern")}
		if c.V6 {
			c.Route = rapid.IntRange(0, 1).Draw(t, "route")
			c.B = genV6Mutated(rapid.SampledFrom([]int{0, 0, 1}).Draw(t, "mut")).Draw(t, "v6")
			if c.Pattern == 5 {
				c.Next = genV6Wire(v6Cfg(2, 8, false)).Draw(t, "next")
			}
		} else {
			c.B = gen.V4Wire(8, 400, 0).Draw(t, "v4")
			if c.Pattern == 5 {
				c.Next = gen.V4Wire(8, 400, 0).Draw(t, "next")
			}
		}
		return c
	})
}

func TestC08_Rapid(t *testing.T) {
	recordV6Coverage(c08.rec)
	c08.rapidCheck(t, genC08())
}

// TestC08_EveryType: one message per option type (also nested in a relay message and in an IA / vendor / NTP
// container where the type allows), every pattern.
func TestC08_EveryType(t *testing.T) {
	cfg := v6Cfg(0, 3, false)
	for _, code := range gen.KnownCodes() {
		for seed := 0; seed < 6; seed++ {
			o := gen.V6Opt(cfg, code).Example(seed)
			msg := &refv6.Msg{Type: 1, Xid: [3]byte{1, 2, 3}, Opts: []refv6.Opt{o}}
			inIA := &refv6.Msg{Type: 7, Xid: [3]byte{4, 5, 6}, Opts: []refv6.Opt{{Code: 3, Typ: "iana", B: [][]byte{{0, 0, 0, 1}}, N: []uint64{1, 2}, Sub: []refv6.Opt{o}}}}
			relay := &refv6.Msg{Relay: true, Type: 12, Opts: []refv6.Opt{{Code: 9, Typ: "relaymsg", Msg: msg}, o}}
			for _, m := range []*refv6.Msg{msg, inIA, relay} {
				enc := refv6.EncodeMsg(m)
				for pat := 0; pat <= 6; pat++ {
					c08.one(t, c08Case{V6: true, B: enc, Pattern: pat, Next: refv6.EncodeMsg(relay), Route: (pat + seed) % 2})
				}
			}
		}
	}
	// relayed messages that do not re-encode to their received bytes (a DHCPv4 message that is not padded to 300 octets,
	// compressed names, an unterminated partial name, unknown sub-options), through both entry points
	v4 := append(v4Prefix(), 53, 1, 1, 255) // 245 octets: the library pads its own encoding to 300
	for _, inner := range [][]byte{
		append([]byte{20, 1, 2, 3}, v6opt(87, v4)...),
		append([]byte{1, 1, 2, 3}, v6opt(24, []byte{3, 'a', 'b', 'c', 0, 1, 'x', 0xC0, 0})...),
		append([]byte{1, 1, 2, 3}, v6opt(39, []byte{0, 4, 'h', 'o', 's', 't'})...),
		append([]byte{7, 1, 2, 3}, v6opt(56, v6opt(9, []byte{1, 2, 3}))...),
	} {
		for depth := 1; depth <= 3; depth++ {
			b := inner
			for k := 0; k < depth; k++ {
				b = append(append(append([]byte{12, byte(k)}, make([]byte, 32)...), v6opt(9, b)...), v6opt(18, []byte{1, 2})...)
			}
			for pat := 0; pat <= 6; pat++ {
				for route := 0; route <= 1; route++ {
					c08.one(t, c08Case{V6: true, B: b, Pattern: pat, Next: inner, Route: route})
				}
			}
		}
	}
	c08.rec.Class("every-type enumeration")
}
