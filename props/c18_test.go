package props

import (
	"bytes"
	"errors"
	"fmt"
	"io"
	"net"
	"strings"
	"testing"
	"time"

	"github.com/insomniacslk/dhcp/dhcpv4/client4"
	"github.com/insomniacslk/dhcp/dhcpv4/nclient4"
	"pgregory.net/rapid"

	"verif/gen"
	"verif/obs"
	"verif/ref/refip"
)

// C18 — raw UDP connection emits valid IPv4/UDP frames and reads only its own.

// scriptRaw is an in-memory link-layer PacketConn: it records writes and
// replays a scripted sequence of frames, then reports EOF.
type scriptRaw struct {
	frames [][]byte
	next   int
	writes []rawWrite
}
type rawWrite struct {
	b    []byte
	addr net.Addr
}

func (s *scriptRaw) ReadFrom(p []byte) (int, net.Addr, error) {
	if s.next >= len(s.frames) {
		return 0, nil, io.EOF
	}
	f := s.frames[s.next]
	s.next++
	return copy(p, f), &net.UDPAddr{}, nil
}
func (s *scriptRaw) WriteTo(p []byte, a net.Addr) (int, error) {
	s.writes = append(s.writes, rawWrite{append([]byte{}, p...), a})
	return len(p), nil
}
func (s *scriptRaw) Close() error                     { return nil }
func (s *scriptRaw) LocalAddr() net.Addr              { return &net.UDPAddr{} }
func (s *scriptRaw) SetDeadline(time.Time) error      { return nil }
func (s *scriptRaw) SetReadDeadline(time.Time) error  { return nil }
func (s *scriptRaw) SetWriteDeadline(time.Time) error { return nil }

type c18Write struct {
	Payload  obs.Hex `json:"payload"`
	BoundIP  obs.Hex `json:"bound_ip"` // empty = no bound address
	BoundPt  int     `json:"bound_port"`
	DstIP    obs.Hex `json:"dst_ip"`
	DstPort  int     `json:"dst_port"`
	Dst16    bool    `json:"dst_16byte"`
	UseMaker bool    `json:"client4_maker"`   // check client4.MakeRawUDPPacket instead (fields only)
	Steer    int     `json:"steer,omitempty"` // >0: two payload octets are set so that the UDP checksum computes to c18Targets[Steer-1]
	// SteerAddr >0: the low half of the destination address is chosen so that the sum of the pseudo-header words
	// (addresses + protocol, with or without the UDP length) lands on c18SumTargets[SteerAddr-1]: just below a multiple of
	// 65,536, where a partial sum folded too early or too seldom loses a carry
	SteerAddr int `json:"steer_addr,omitempty"`
}

var c18SumTargets = []uint32{0xffff, 0x10000, 0x1fffe, 0x1ffff, 0x20000, 0x2fffd, 0x2fffe, 0x2ffff, 0x30000, 0x3fffc}

// checksum values worth hitting on purpose: a computed zero (transmitted as 0xFFFF), and values whose neighbours
// differ by a carry in either octet
var c18Targets = []uint16{0x0000, 0x0001, 0x00ff, 0xff00, 0x8000, 0xfffe, 0x0100}

// c18Steer sets one aligned 16-bit word of the payload so that the RFC 768 checksum of the datagram is target.
func c18Steer(payload []byte, src, dst [4]byte, sport, dport int, target uint16) []byte {
	p := append([]byte{}, payload...)
	if len(p) < 2 {
		return p
	}
	i := (len(p) - 2) &^ 1
	p[i], p[i+1] = 0, 0
	l := 8 + len(p)
	pseudo := []byte{src[0], src[1], src[2], src[3], dst[0], dst[1], dst[2], dst[3], 0, 17, byte(l >> 8), byte(l)}
	udp := []byte{byte(sport >> 8), byte(sport), byte(dport >> 8), byte(dport), byte(l >> 8), byte(l), 0, 0}
	rest := refip.Sum16(pseudo, udp, p)
	// one's-complement: rest + x = ^target  ⇒  x = ^target + ^rest
	x := uint32(^target) + uint32(^rest)
	x = x&0xffff + x>>16
	p[i], p[i+1] = byte(x>>8), byte(x)
	return p
}

// c18FrameCheck judges one emitted frame: parsed by the independent RFC 791/768 reader, every field as requested,
// both checksums recomputed. It returns the UDP checksum the frame should carry.
func c18FrameCheck(frame []byte, src [4]byte, sport int, dst4 [4]byte, dport int, payload []byte, maker bool) (uint16, *obs.Fail) {
	var want uint16
	fr, why := refip.Parse(frame)
	if why != "" {
		return 0, obs.Failf("C18/frame-malformed", "a well-formed IPv4/UDP frame", "%s: %x", why, clipb(frame))
	}
	bad := func(field string, w, g any) *obs.Fail {
		return obs.Failf("C18/frame/"+field, fmt.Sprintf("%s = %v", field, w), "%v", g)
	}
	switch {
	case fr.IHL != 5:
		return 0, bad("ihl", 5, fr.IHL)
	case fr.TotalLen != 28+len(payload):
		return 0, bad("total-length", 28+len(payload), fr.TotalLen)
	case len(frame) != fr.TotalLen:
		return 0, bad("frame-length", fr.TotalLen, len(frame))
	case fr.TTL == 0:
		return 0, bad("ttl", "non-zero", fr.TTL)
	case fr.FlagsFrag&0x3fff != 0:
		return 0, bad("fragment", "unfragmented", fr.FlagsFrag)
	case fr.Src != src:
		return 0, bad("src", src, fr.Src)
	case fr.Dst != dst4:
		return 0, bad("dst", dst4, fr.Dst)
	case fr.SrcPort != sport:
		return 0, bad("sport", sport, fr.SrcPort)
	case fr.DstPort != dport:
		return 0, bad("dport", dport, fr.DstPort)
	case fr.UDPLen != 8+len(payload):
		return 0, bad("udp-length", 8+len(payload), fr.UDPLen)
	case !bytes.Equal(fr.Payload, payload):
		return 0, bad("payload", hx(clipb(payload)), hx(clipb(fr.Payload)))
	}
	// the deprecated maker leaves both checksum fields zero for the kernel / the hardware to fill in (RFC 768: a zero
	// UDP checksum field means "none"); a UDP checksum it does write goes out as it is and must verify
	if !maker || fr.UDPChecksum != 0 {
		if !maker && !refip.HeaderChecksumOK(frame) {
			return 0, obs.Failf("C18/ip-checksum", "header checksum verifies (RFC 1071)", "field %04x over %x", fr.HdrChecksum, frame[:20])
		}
		want = refip.UDPChecksum(frame)
		// 0xFFFF is the transmitted form of a computed zero; a zero field ("no checksum") is tolerated only there
		if fr.UDPChecksum != want && !(want == 0xffff && fr.UDPChecksum == 0) {
			return 0, obs.Failf("C18/udp-checksum", fmt.Sprintf("%04x (RFC 768)", want), "%04x (payload %d bytes)", fr.UDPChecksum, len(payload))
		}
	}
	return want, nil
}

var c18w = newChk("C18", "write-frame",
	"payloads of every length 0..64 and boundary-biased lengths up to 1500 (patterns all-0xFF, all-0x00, carry stressors, random) × source/destination addresses and ports written through the raw broadcast connection; the frame is parsed by the independent RFC 791/768 reader and both checksums are recomputed per RFC 1071/768; non-trivial = payload non-empty; distinct by hash of the frame",
	func(rec *obs.Rec, c c18Write) *obs.Fail {
		dst := net.IP(append([]byte{}, c.DstIP...))
		if c.Dst16 {
			dst = net.IPv4(c.DstIP[0], c.DstIP[1], c.DstIP[2], c.DstIP[3])
		}
		var src [4]byte
		copy(src[:], c.BoundIP)
		var dst4 [4]byte
		copy(dst4[:], c.DstIP)
		if c.SteerAddr > 0 {
			target := c18SumTargets[(c.SteerAddr-1)%len(c18SumTargets)]
			l := uint32(0)
			if (c.SteerAddr-1)/len(c18SumTargets)%2 == 1 {
				l = uint32(8 + len(c.Payload))
			}
			part := uint32(src[0])<<8 + uint32(src[1]) + uint32(src[2])<<8 + uint32(src[3]) + uint32(dst4[0])<<8 + uint32(dst4[1]) + 17 + l
			if target >= part && target-part <= 0xffff {
				low := target - part
				dst4[2], dst4[3] = byte(low>>8), byte(low)
				c.DstIP = append([]byte{}, dst4[:]...)
				dst = net.IP(append([]byte{}, dst4[:]...))
				if c.Dst16 {
					dst = net.IPv4(dst4[0], dst4[1], dst4[2], dst4[3])
				}
			}
		}
		if c.Steer > 0 {
			c.Payload = c18Steer(c.Payload, src, dst4, c.BoundPt, c.DstPort, c18Targets[(c.Steer-1)%len(c18Targets)])
		}
		var frame []byte
		if c.UseMaker {
			srcIP := net.IP(src[:])
			f, err := client4.MakeRawUDPPacket(c.Payload, net.UDPAddr{IP: dst, Port: c.DstPort}, net.UDPAddr{IP: srcIP, Port: c.BoundPt})
			if err != nil {
				return obs.Failf("C18/maker-error", "a frame", "%v", err)
			}
			frame = f
		} else {
			raw := &scriptRaw{}
			bound := &net.UDPAddr{Port: c.BoundPt}
			if len(c.BoundIP) == 4 {
				bound.IP = net.IP(append([]byte{}, c.BoundIP...))
			}
			conn := nclient4.NewBroadcastUDPConn(raw, bound)
			n, err := conn.WriteTo(c.Payload, &net.UDPAddr{IP: dst, Port: c.DstPort})
			if err != nil {
				return obs.Failf("C18/write-error", "write succeeds", "%v", err)
			}
			_ = n
			if len(raw.writes) != 1 {
				return obs.Failf("C18/write-count", "exactly one frame per WriteTo", "%d frames", len(raw.writes))
			}
			if a := raw.writes[0].addr; a == nil || a.String() != "ff:ff:ff:ff:ff:ff" {
				return obs.Failf("C18/link-dest", "broadcast MAC ff:ff:ff:ff:ff:ff", "%v", a)
			}
			frame = raw.writes[0].b
		}
		want, fl := c18FrameCheck(frame, src, c.BoundPt, dst4, c.DstPort, c.Payload, c.UseMaker)
		if fl != nil {
			return fl
		}
		if want == 0xffff {
			rec.Class("udp checksum computes to zero")
		}
		if c.Steer > 0 && len(c.Payload) >= 2 && want != 0 {
			rec.Class("checksum steered to a chosen value")
			if t := c18Targets[(c.Steer-1)%len(c18Targets)]; want != t && !(t == 0 && want == 0xffff) {
				return obs.Failf("C18/harness", fmt.Sprintf("steered checksum %04x", t), "%04x", want)
			}
		}
		if len(c.Payload)%2 == 1 {
			rec.Class("odd payload length")
		}
		if c.UseMaker {
			rec.Class("client4.MakeRawUDPPacket")
		}
		if len(c.Payload) > 0 {
			rec.NonTrivial(obs.Hash64(frame), func() any {
				return map[string]any{"payload_len": len(c.Payload), "src": fmt.Sprintf("%v:%d", src, c.BoundPt), "dst": fmt.Sprintf("%v:%d", dst4, c.DstPort), "frame_head": hx(frame[:28])}
			})
		}
		return nil
	})

func c18Patterns(n int) [][]byte {
	ff := bytes.Repeat([]byte{0xff}, n)
	zz := make([]byte, n)
	alt := make([]byte, n)
	cnt := make([]byte, n)
	for i := range alt {
		if i%2 == 0 {
			alt[i] = 0xff
		}
		cnt[i] = byte(i*131 + 7)
	}
	return [][]byte{ff, zz, alt, cnt}
}

func TestC18_WriteLengths(t *testing.T) {
	lens := seq(65)
	lens = append(lens, 127, 128, 255, 256, 299, 300, 301, 576, 1023, 1024, 1471, 1472, 1499, 1500)
	for _, n := range lens {
		for _, p := range c18Patterns(n) {
			for _, b := range []c18Write{
				{BoundPt: 68, DstIP: []byte{255, 255, 255, 255}, DstPort: 67},
				{BoundIP: []byte{192, 168, 1, 7}, BoundPt: 68, DstIP: []byte{10, 0, 0, 1}, DstPort: 67, Dst16: true},
				{BoundIP: []byte{255, 255, 255, 255}, BoundPt: 65535, DstIP: []byte{255, 255, 255, 255}, DstPort: 65535},
				{BoundIP: []byte{10, 1, 2, 3}, BoundPt: 1068, DstIP: []byte{10, 0, 0, 1}, DstPort: 1067, UseMaker: true},
				{BoundIP: []byte{250, 10, 250, 20}, BoundPt: 65000, DstIP: []byte{255, 255, 255, 255}, DstPort: 65535, UseMaker: true},
			} {
				b.Payload = p
				c18w.one(t, b)
				if n < 8 || n%64 == 0 {
					for sa := 1; sa <= 2*len(c18SumTargets); sa++ {
						for _, hi := range [][]byte{{250, 10, 250, 20}, {10, 0, 0, 1}, {255, 255, 255, 255}} {
							x := b
							x.BoundIP, x.DstIP, x.SteerAddr = hi, []byte{250, 246, 0, 0}, sa
							c18w.one(t, x)
						}
					}
				}
				if n >= 2 {
					for st := 1; st <= len(c18Targets); st++ {
						b.Steer = st
						c18w.one(t, b)
					}
					b.Steer = 0
				}
			}
		}
	}
	c18w.rec.Class("length-enumeration")
}

func genC18Write() *rapid.Generator[c18Write] {
	return rapid.Custom(func(t *rapid.T) c18Write {
		n := rapid.SampledFrom([]int{0, 1, 2, 3, 35, 36, 37, 240, 299, 300, 301, 548, 1499, 1500}).Draw(t, "n")
		if rapid.Bool().Draw(t, "anylen") {
			n = rapid.IntRange(0, 1500).Draw(t, "len")
		}
		c := c18Write{Payload: gen.Fill(t, n, "payload"), BoundPt: rapid.IntRange(0, 65535).Draw(t, "sport"), DstPort: rapid.IntRange(0, 65535).Draw(t, "dport"),
			DstIP: rapid.SliceOfN(rapid.Byte(), 4, 4).Draw(t, "dst"), Dst16: rapid.Bool().Draw(t, "dst16"), UseMaker: rapid.IntRange(0, 5).Draw(t, "maker") == 0}
		if rapid.Bool().Draw(t, "bound") || c.UseMaker {
			c.BoundIP = rapid.SliceOfN(rapid.Byte(), 4, 4).Draw(t, "src")
		}
		if rapid.IntRange(0, 3).Draw(t, "ffaddr") == 0 {
			c.DstIP = []byte{255, 255, 255, 255}
		}
		if rapid.IntRange(0, 3).Draw(t, "steer") == 0 {
			c.Steer = rapid.IntRange(1, len(c18Targets)).Draw(t, "target")
		}
		if rapid.IntRange(0, 3).Draw(t, "steeraddr") == 0 {
			c.SteerAddr = rapid.IntRange(1, 2*len(c18SumTargets)).Draw(t, "sumtarget")
			// high address halves large enough for the bigger targets to be reachable
			if rapid.Bool().Draw(t, "highwords") {
				c.BoundIP = []byte{byte(rapid.IntRange(200, 255).Draw(t, "s0")), rapid.Byte().Draw(t, "s1"), byte(rapid.IntRange(200, 255).Draw(t, "s2")), rapid.Byte().Draw(t, "s3")}
				c.DstIP = []byte{byte(rapid.IntRange(200, 255).Draw(t, "d0")), rapid.Byte().Draw(t, "d1"), 0, 0}
			}
		}
		return c
	})
}

func TestC18_WriteRapid(t *testing.T) { c18w.rapidCheck(t, genC18Write()) }

// --- read side -------------------------------------------------------------------

type c18Frame struct {
	Kind    int     `json:"kind"`
	IHL     int     `json:"ihl"`
	Payload obs.Hex `json:"payload"`
	Pad     int     `json:"pad"`
	Delta   int     `json:"delta"` // total length = real length + delta (kind-specific)
	Cut     int     `json:"cut"`
	SrcIP   obs.Hex `json:"src"`
	SrcPort int     `json:"sport"`
	Other   bool    `json:"other"`        // other port / other address
	DF      bool    `json:"df,omitempty"` // the Don't-Fragment bit is set (a complete datagram all the same)
}

type c18Read struct {
	BoundIP obs.Hex    `json:"bound_ip"`
	BoundPt int        `json:"bound_port"`
	Frames  []c18Frame `json:"frames"`
	NoBound bool       `json:"no_bound,omitempty"` // the connection is created without a bound address (nil): nothing to filter on
	// ExactBuf: the caller's read buffer is exactly as long as the longest payload to be delivered (instead of 2048): a
	// datagram that fits the buffer is returned whole, whatever the size of its IP header
	ExactBuf bool `json:"exact_buf,omitempty"`
	// ShortBy > 0: the caller's buffer is that many octets SHORTER than the longest payload (a caller with a small
	// buffer): like any datagram socket, the read hands over what fits — never more than the buffer holds, always a
	// leading part of the payload, and it does not fail or crash. SpareCap: the buffer is the front of a larger array.
	ShortBy  int  `json:"short_by,omitempty"`
	SpareCap bool `json:"spare_cap,omitempty"`
}

type c18Deliver struct {
	payload []byte
	src     [4]byte
	sport   int
}

// build returns the frame bytes and, when the frame must be delivered, what.
func (f c18Frame) build(bound [4]byte, hasBound bool, port int) ([]byte, *c18Deliver) {
	b, d := f.build0(bound, hasBound, port)
	if f.DF && len(b) >= 8 {
		b[6] |= 0x40
	}
	return b, d
}

func (f c18Frame) build0(bound [4]byte, hasBound bool, port int) ([]byte, *c18Deliver) {
	var src [4]byte
	copy(src[:], f.SrcIP)
	dst := bound
	if !hasBound {
		dst = [4]byte{255, 255, 255, 255}
	}
	dport := port
	ihl := 5
	opts := []byte(nil)
	if f.IHL >= 6 && f.IHL <= 15 {
		ihl = f.IHL
		opts = bytes.Repeat([]byte{1}, (ihl-5)*4) // NOP options
	}
	pad := bytes.Repeat([]byte{0xEE}, f.Pad)
	good := &c18Deliver{payload: f.Payload, src: src, sport: f.SrcPort}
	switch f.Kind {
	case 0: // valid, optional IP options and link-layer padding
		return refip.Build(ihl, opts, -1, 17, src, dst, f.SrcPort, dport, f.Payload, pad), good
	case 1: // total length shorter than the frame but still covering the UDP header: payload is bounded by it
		cut := f.Delta % (len(f.Payload) + 1)
		fr := refip.Build(ihl, opts, ihl*4+8+len(f.Payload)-cut, 17, src, dst, f.SrcPort, dport, f.Payload, pad)
		// the UDP length field would disagree with the IP length: keep them consistent (grey otherwise)
		ul := 8 + len(f.Payload) - cut
		fr[ihl*4+4], fr[ihl*4+5] = byte(ul>>8), byte(ul)
		good.payload = f.Payload[:len(f.Payload)-cut]
		return fr, good
	case 2: // total length longer than the frame
		return refip.Build(ihl, opts, ihl*4+8+len(f.Payload)+1+f.Delta%50, 17, src, dst, f.SrcPort, dport, f.Payload, nil), nil
	case 3: // total length leaves no room for the UDP header (but the frame has the bytes)
		tl := ihl*4 + f.Delta%8
		return refip.Build(ihl, opts, tl, 17, src, dst, f.SrcPort, dport, f.Payload, pad), nil
	case 4: // not IPv4
		fr := refip.Build(ihl, opts, -1, 17, src, dst, f.SrcPort, dport, f.Payload, pad)
		fr[0] = byte(6<<4) | fr[0]&0xf
		return fr, nil
	case 5: // not UDP
		return refip.Build(ihl, opts, -1, []uint8{6, 1, 0, 255}[f.Delta%4], src, dst, f.SrcPort, dport, f.Payload, pad), nil
	case 6: // truncated at an offset (frame shorter than its total length, or shorter than a header)
		fr := refip.Build(ihl, opts, -1, 17, src, dst, f.SrcPort, dport, f.Payload, nil)
		return fr[:f.Cut%len(fr)], nil
	case 7: // other port
		return refip.Build(ihl, opts, -1, 17, src, dst, f.SrcPort, (dport+1+f.Delta%100)%65536, f.Payload, pad), nil
	case 8: // other address (only a mismatch when an address is bound)
		other := dst
		other[3] ^= 0x55
		fr := refip.Build(ihl, opts, -1, 17, src, other, f.SrcPort, dport, f.Payload, pad)
		if hasBound {
			return fr, nil
		}
		return fr, good
	case 9: // IHL below 5
		fr := refip.Build(5, nil, -1, 17, src, dst, f.SrcPort, dport, f.Payload, pad)
		fr[0] = 4<<4 | byte(f.Delta%5)
		return fr, nil
	case 11: // a consistent IP packet that is too short to hold a UDP header: total length = header + 0..7 octets = frame length
		fr := refip.Build(ihl, opts, -1, 17, src, dst, f.SrcPort, dport, f.Payload, nil)
		tl := ihl*4 + f.Delta%8
		fr = fr[:tl]
		fr[2], fr[3] = byte(tl>>8), byte(tl)
		return fr, nil
	default: // empty payload, exactly header + UDP header
		return refip.Build(ihl, opts, -1, 17, src, dst, f.SrcPort, dport, nil, pad), &c18Deliver{payload: []byte{}, src: src, sport: f.SrcPort}
	}
}

var c18r = newChk("C18", "read-sequence",
	"sequences of 1..30 received frames (valid; IHL 6..15 with options; trailing link-layer padding; total length shorter than the frame, longer than the frame, or leaving no room for a UDP header; non-IPv4; non-UDP; truncated at an offset; other port; other address; IHL<5) followed by EOF, read through the raw connection and compared with a model: exactly the payload (bounded by the IP total length) and source of each well-formed frame for the bound port/address, in order, everything else skipped, no panic; non-trivial = a frame to skip followed by one to deliver; distinct by case hash",
	func(rec *obs.Rec, c c18Read) *obs.Fail {
		var bound [4]byte
		hasBound := len(c.BoundIP) == 4
		copy(bound[:], c.BoundIP)
		raw := &scriptRaw{}
		var want []*c18Deliver
		skipThenDeliver, sawSkip := false, false
		for _, f := range c.Frames {
			b, d := f.build(bound, hasBound, c.BoundPt)
			if c.NoBound && (f.Kind == 7 || f.Kind == 8) {
				// no bound address at all: a frame for another port or address is as good as any
				var src [4]byte
				copy(src[:], f.SrcIP)
				d = &c18Deliver{payload: f.Payload, src: src, sport: f.SrcPort}
			}
			if len(b) == 0 {
				continue // an empty read means EOF to the connection; not part of the sequence
			}
			raw.frames = append(raw.frames, b)
			rec.Class(fmt.Sprintf("frame kind %d", f.Kind))
			if d != nil {
				want = append(want, d)
				if sawSkip {
					skipThenDeliver = true
				}
			} else {
				sawSkip = true
			}
		}
		ba := &net.UDPAddr{Port: c.BoundPt}
		if hasBound {
			ba.IP = net.IP(bound[:])
		}
		if c.NoBound {
			ba = nil
		}
		conn := nclient4.NewBroadcastUDPConn(raw, ba)
		var kept []*net.UDPAddr
		bufLen := 2048
		if c.ExactBuf {
			bufLen = 0
			for _, w := range want {
				bufLen = max(bufLen, len(w.payload))
			}
		}
		if c.ShortBy > 0 {
			bufLen = 0
			for _, w := range want {
				bufLen = max(bufLen, len(w.payload))
			}
			bufLen = max(0, bufLen-c.ShortBy)
		}
		next := 0 // ShortBy: index of the first expected datagram not yet accounted for
		for i := 0; ; i++ {
			buf := make([]byte, bufLen)
			if c.SpareCap {
				buf = make([]byte, bufLen+64)[:bufLen]
			}
			n, addr, err := conn.ReadFrom(buf)
			if n > len(buf) {
				return obs.Failf("C18/read/count-beyond-buffer", fmt.Sprintf("at most %d octets", len(buf)), "n=%d", n)
			}
			if err != nil && n != 0 {
				return obs.Failf("C18/read/error-with-data", "no data together with an error", "n=%d err=%v", n, err)
			}
			if err != nil {
				if !errors.Is(err, io.EOF) {
					return obs.Failf("C18/read/error", "io.EOF after the last frame", "%v", err)
				}
				if i != len(want) && c.ShortBy == 0 {
					return obs.Failf("C18/read/missing", fmt.Sprintf("%d datagrams delivered", len(want)), "%d (EOF early)", i)
				}
				break
			}
			if c.ShortBy > 0 {
				// a datagram that does not fit the caller's buffer is handed over cut to the buffer's size or not at all
				// (the frame itself may not have fitted the connection's own read): what IS delivered is, in arrival
				// order, an expected datagram — whole if it fits, else exactly its leading len(buf) octets
				k := next
				for ; k < len(want); k++ {
					p := want[k].payload
					if (len(p) <= len(buf) && bytes.Equal(buf[:n], p)) || (len(p) > len(buf) && n == len(buf) && bytes.HasPrefix(p, buf[:n])) {
						break
					}
				}
				if k == len(want) {
					return obs.Failf("C18/read/short-buffer", fmt.Sprintf("a datagram of the sequence, whole or cut to the %d-octet buffer", len(buf)), "%x (len %d)", clipb(buf[:n]), n)
				}
				next = k + 1
				continue
			}
			if i >= len(want) {
				return obs.Failf("C18/read/extra", fmt.Sprintf("only %d datagrams", len(want)), "extra datagram %x from %v", clipb(buf[:n]), addr)
			}
			w := want[i]
			if !bytes.Equal(buf[:n], w.payload) {
				return obs.Failf("C18/read/payload", fmt.Sprintf("datagram %d payload %x (len %d)", i, clipb(w.payload), len(w.payload)), "%x (len %d)", clipb(buf[:n]), n)
			}
			ua, ok := addr.(*net.UDPAddr)
			if !ok || !bytes.Equal(ua.IP.To4(), w.src[:]) || ua.Port != w.sport {
				return obs.Failf("C18/read/source", fmt.Sprintf("%v:%d", w.src, w.sport), "%v", addr)
			}
			kept = append(kept, ua)
		}
		// the source addresses handed out earlier are still those of their datagrams after all later reads
		for i, ua := range kept {
			if w := want[i]; !bytes.Equal(ua.IP.To4(), w.src[:]) || ua.Port != w.sport {
				return obs.Failf("C18/read/source-after-later-reads", fmt.Sprintf("datagram %d from %v:%d", i, w.src, w.sport), "%v after %d more reads", ua, len(kept)-1-i)
			}
		}
		if skipThenDeliver {
			rec.NonTrivial(obs.HashJSON(c), func() any {
				var kinds []int
				for _, f := range c.Frames {
					kinds = append(kinds, f.Kind)
				}
				return map[string]any{"bound": fmt.Sprintf("%v:%d", c.BoundIP, c.BoundPt), "frame_kinds": kinds, "delivered": len(want)}
			})
		}
		return nil
	})

func genC18Read() *rapid.Generator[c18Read] {
	return rapid.Custom(func(t *rapid.T) c18Read {
		c := c18Read{BoundPt: rapid.SampledFrom([]int{68, 68, 1068, 0, 65535}).Draw(t, "port")}
		if rapid.Bool().Draw(t, "bound") {
			c.BoundIP = rapid.SliceOfN(rapid.Byte(), 4, 4).Draw(t, "bip")
		} else if rapid.IntRange(0, 3).Draw(t, "nobound") == 0 {
			c.NoBound = true
		}
		c.ExactBuf = rapid.IntRange(0, 3).Draw(t, "exactbuf") == 0
		if !c.ExactBuf && rapid.IntRange(0, 3).Draw(t, "shortbuf") == 0 {
			c.ShortBy = rapid.SampledFrom([]int{1, 2, 8, 19, 20, 21, 39, 40, 41, 48, 300}).Draw(t, "shortby")
		}
		c.SpareCap = rapid.Bool().Draw(t, "sparecap")
		n := rapid.IntRange(1, 30).Draw(t, "nframes")
		for i := 0; i < n; i++ {
			f := c18Frame{Kind: rapid.IntRange(0, 11).Draw(t, "kind"), IHL: rapid.SampledFrom([]int{5, 5, 5, 6, 7, 15}).Draw(t, "ihl"),
				Payload: gen.Fill(t, rapid.SampledFrom([]int{0, 1, 2, 7, 8, 9, 240, 300, 548}).Draw(t, "plen"), "pl"),
				Pad:     rapid.SampledFrom([]int{0, 0, 1, 4, 18}).Draw(t, "pad"), Delta: rapid.IntRange(0, 1000).Draw(t, "delta"),
				Cut: rapid.IntRange(0, 2000).Draw(t, "cut"), SrcIP: rapid.SliceOfN(rapid.Byte(), 4, 4).Draw(t, "sip"), SrcPort: rapid.IntRange(0, 65535).Draw(t, "sp")}
			// coincidences between fields: the sender uses the receiver's own port and/or an address that also appears
			// elsewhere in the exchange (unconfigured 0.0.0.0, the bound address, limited broadcast)
			f.DF = rapid.IntRange(0, 2).Draw(t, "df") == 0
			switch rapid.IntRange(0, 7).Draw(t, "coincide") {
			case 0:
				f.SrcPort = c.BoundPt
			case 1:
				f.SrcPort = c.BoundPt
				f.SrcIP = []byte{0, 0, 0, 0}
			case 2:
				f.SrcPort = c.BoundPt
				if len(c.BoundIP) == 4 {
					f.SrcIP = append([]byte{}, c.BoundIP...)
				} else {
					f.SrcIP = []byte{255, 255, 255, 255}
				}
			case 3:
				f.SrcIP = []byte{0, 0, 0, 0}
			}
			c.Frames = append(c.Frames, f)
		}
		return c
	})
}

func TestC18_ReadRapid(t *testing.T) { c18r.rapidCheck(t, genC18Read()) }

// TestC18_ReadTruncations: a valid frame cut at every offset, between two valid frames.
func TestC18_ReadTruncations(t *testing.T) {
	for _, ihl := range []int{5, 6, 15} {
		for _, plen := range []int{0, 1, 20, 300, 1500} {
			f := c18Frame{Kind: 0, IHL: ihl, Payload: bytes.Repeat([]byte{0xcd}, plen), SrcIP: []byte{10, 0, 0, 2}, SrcPort: 67, Pad: plen % 3}
			c18r.one(t, c18Read{BoundPt: 68, Frames: []c18Frame{f, f}, ExactBuf: true})
			g := f
			g.DF = true
			c18r.one(t, c18Read{BoundPt: 68, Frames: []c18Frame{f, g, f}})
			// the caller's buffer shorter than the payload by every amount up to the largest IP header and a little more
			for short := 1; short <= 64 && short <= plen; short++ {
				c18r.one(t, c18Read{BoundPt: 68, Frames: []c18Frame{f, f}, ShortBy: short, SpareCap: short%2 == 0})
			}
		}
		base := c18Frame{Kind: 0, IHL: ihl, Payload: bytes.Repeat([]byte{0xab}, 20), SrcIP: []byte{10, 0, 0, 1}, SrcPort: 67}
		full, _ := base.build([4]byte{}, false, 68)
		for cut := 1; cut < len(full); cut++ {
			tr := base
			tr.Kind, tr.Cut = 6, cut
			c18r.one(t, c18Read{BoundPt: 68, Frames: []c18Frame{base, tr, base}})
		}
		for d := 0; d < 8; d++ {
			nr := base
			nr.Kind, nr.Delta, nr.Pad = 3, d, 18
			c18r.one(t, c18Read{BoundPt: 68, Frames: []c18Frame{nr, base}})
			sh := base
			sh.Kind, sh.Delta = 11, d
			c18r.one(t, c18Read{BoundPt: 68, Frames: []c18Frame{sh, base}})
		}
	}
}

// --- several datagrams through ONE connection -----------------------------------

type c18Dest struct {
	IP    obs.Hex `json:"ip"`
	Port  int     `json:"port"`
	Dst16 bool    `json:"dst_16byte,omitempty"`
}

type c18Seq struct {
	BoundIP obs.Hex   `json:"bound_ip"`
	BoundPt int       `json:"bound_port"`
	Dests   []c18Dest `json:"dests"`            // destination of each write, in order
	Lens    []int     `json:"lens"`             // payload length of each write
	Reuse   bool      `json:"reuse"`            // the caller reuses one payload buffer for all writes
	Fill    byte      `json:"fill"`             // payload octets are Fill + position + index of the write
	Repeat  int       `json:"repeat,omitempty"` // the whole list of destinations is written this many times over (0: once): a long-lived connection
}

// c18seq: a connection is written to many times in its life, to the same and to other destinations. Every frame is
// judged on its own, exactly like a single write: what was sent before (another port on the same host, another host
// on the same port, a longer or shorter payload) changes nothing.
var c18seq = newChk("C18", "write-sequence",
	"sequences of 2..8 WriteTo calls on ONE raw broadcast connection with destinations drawn from a small pool that coincides in address or in port (same host other port, other host same port, 4- and 16-byte forms, broadcast), payloads of changing length in a fresh or a reused buffer; every emitted frame is parsed by the independent reader and both checksums are recomputed; all ordered pairs and triples over the pool are enumerated; non-trivial = two consecutive writes differ in destination; distinct by case hash",
	func(rec *obs.Rec, c c18Seq) *obs.Fail {
		raw := &scriptRaw{}
		bound := &net.UDPAddr{Port: c.BoundPt}
		var src [4]byte
		if len(c.BoundIP) == 4 {
			bound.IP = net.IP(append([]byte{}, c.BoundIP...))
			copy(src[:], c.BoundIP)
		}
		conn := nclient4.NewBroadcastUDPConn(raw, bound)
		buf := make([]byte, 1500)
		var sent [][]byte
		dests := c.Dests
		for r := 1; r < c.Repeat; r++ {
			dests = append(dests, c.Dests...)
		}
		for i, d := range dests {
			n := c.Lens[i%len(c.Lens)]
			p := make([]byte, n)
			if c.Reuse {
				p = buf[:n]
			}
			for k := range p {
				p[k] = c.Fill + byte(k*7) + byte(i)
			}
			sent = append(sent, append([]byte{}, p...))
			var ip net.IP // no address at all (the zero UDPAddr with a port): the unspecified address 0.0.0.0
			if len(d.IP) == 4 {
				ip = net.IP(append([]byte{}, d.IP...))
				if d.Dst16 {
					ip = net.IPv4(d.IP[0], d.IP[1], d.IP[2], d.IP[3])
				}
			}
			if _, err := conn.WriteTo(p, &net.UDPAddr{IP: ip, Port: d.Port}); err != nil {
				return obs.Failf("C18/sequence/write-error", "write succeeds", "write %d: %v", i, err)
			}
		}
		if len(raw.writes) != len(dests) {
			return obs.Failf("C18/sequence/write-count", fmt.Sprintf("%d frames", len(dests)), "%d", len(raw.writes))
		}
		changes := false
		for i, d := range dests {
			var dst4 [4]byte
			copy(dst4[:], d.IP)
			if _, fl := c18FrameCheck(raw.writes[i].b, src, c.BoundPt, dst4, d.Port, sent[i], false); fl != nil {
				fl.Sig = strings.Replace(fl.Sig, "C18/", "C18/sequence/", 1)
				fl.Got = fmt.Sprintf("write %d of %d: %s", i, len(dests), fl.Got)
				return fl
			}
			if i > 0 && (d.Port != dests[i-1].Port || !bytes.Equal(d.IP, dests[i-1].IP)) {
				changes = true
			}
		}
		if changes {
			rec.NonTrivial(obs.HashJSON(c), func() any { return c })
		}
		return nil
	})

var c18Pool = []c18Dest{
	{IP: []byte{10, 0, 0, 1}, Port: 67},
	{IP: []byte{10, 0, 0, 1}, Port: 6767},
	{IP: []byte{10, 0, 0, 1}, Port: 67, Dst16: true},
	{IP: []byte{10, 0, 0, 2}, Port: 67},
	{IP: []byte{255, 255, 255, 255}, Port: 67},
	{IP: []byte{255, 255, 255, 255}, Port: 68},
	{IP: []byte{10, 0, 1, 0}, Port: 6767},
	{IP: nil, Port: 67},
	{IP: []byte{0, 0, 0, 0}, Port: 67},
}

func TestC18_WriteSequences(t *testing.T) {
	for _, bound := range []c18Seq{{BoundPt: 68}, {BoundIP: []byte{192, 168, 1, 7}, BoundPt: 68}, {BoundIP: []byte{255, 255, 255, 255}, BoundPt: 65535}} {
		for _, lens := range [][]int{{300}, {0, 1, 2}, {548, 3, 301}} {
			for a := range c18Pool {
				for b := range c18Pool {
					c := bound
					c.Lens, c.Dests, c.Reuse, c.Fill = lens, []c18Dest{c18Pool[a], c18Pool[b]}, (a+b)%2 == 0, byte(a*16+b)
					c18seq.one(t, c)
					for x := range c18Pool {
						c.Dests = []c18Dest{c18Pool[a], c18Pool[b], c18Pool[x]}
						c18seq.one(t, c)
					}
				}
			}
		}
	}
	// a long-lived connection: 70,000 datagrams through one connection (every frame judged like the first)
	for _, bound := range []c18Seq{{BoundPt: 68}, {BoundIP: []byte{192, 168, 1, 7}, BoundPt: 68}} {
		c := bound
		c.Lens, c.Dests, c.Fill, c.Repeat = []int{0, 1, 2, 37}, c18Pool[:7], 0x5a, 10000
		c18seq.one(t, c)
	}
	c18seq.rec.Class("all ordered pairs and triples over the destination pool")
}

func genC18Seq() *rapid.Generator[c18Seq] {
	return rapid.Custom(func(t *rapid.T) c18Seq {
		c := c18Seq{BoundPt: rapid.SampledFrom([]int{68, 68, 0, 65535, 1068}).Draw(t, "sport"), Reuse: rapid.Bool().Draw(t, "reuse"), Fill: rapid.Byte().Draw(t, "fill")}
		if rapid.Bool().Draw(t, "bound") {
			c.BoundIP = rapid.SliceOfN(rapid.Byte(), 4, 4).Draw(t, "src")
		}
		// a pool of 2..4 destinations derived from one another: same host other port, other host same port
		base := c18Dest{IP: rapid.SliceOfN(rapid.Byte(), 4, 4).Draw(t, "ip"), Port: rapid.IntRange(0, 65535).Draw(t, "port")}
		pool := []c18Dest{base}
		for k := rapid.IntRange(1, 3).Draw(t, "npool"); k > 0; k-- {
			d := c18Dest{IP: append([]byte{}, base.IP...), Port: base.Port}
			switch rapid.IntRange(0, 4).Draw(t, "derive") {
			case 0:
				d.Port = rapid.IntRange(0, 65535).Draw(t, "port2")
			case 1:
				d.IP[rapid.IntRange(0, 3).Draw(t, "octet")] ^= byte(rapid.IntRange(1, 255).Draw(t, "flip"))
			case 2:
				d.Dst16 = true
			case 3:
				d.IP = rapid.SampledFrom([][]byte{{255, 255, 255, 255}, nil, {0, 0, 0, 0}}).Draw(t, "special")
			default:
				d.Port ^= 1 << uint(rapid.IntRange(0, 15).Draw(t, "bit"))
			}
			pool = append(pool, d)
		}
		n := rapid.IntRange(2, 8).Draw(t, "n")
		for i := 0; i < n; i++ {
			c.Dests = append(c.Dests, rapid.SampledFrom(pool).Draw(t, "dest"))
		}
		c.Lens = rapid.SliceOfN(rapid.SampledFrom([]int{0, 1, 2, 3, 35, 240, 300, 301, 548, 1500}), 1, 4).Draw(t, "lens")
		return c
	})
}

func TestC18_WriteSequencesRapid(t *testing.T) { c18seq.rapidCheck(t, genC18Seq()) }
