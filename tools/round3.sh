#!/bin/bash
# usage: tools/round3.sh <ID>...   — confirms the round-3 sub-agent deliveries under /tmp/seed3/<ID>/out as seeded/<ID>-5 and -6
for ID in "$@"; do
  for N in 1 2; do
    demo=$(ls /tmp/seed3/$ID/out/demo${N}* 2>/dev/null | head -1)
    [ -z "$demo" ] && { echo "$ID-$N: no demo"; continue; }
    pkg=$(head -5 "$demo" | grep -oE 'package-dir: *[^ ]+' | head -1 | sed 's/package-dir: *//')
    [ -z "$pkg" ] && { echo "$ID-$N: no package-dir"; continue; }
    SEEDDIR=/tmp/seed3 OUTN=$((N+4)) /verif/tools/verify_seed.sh $ID $N $pkg
  done
done
