package reflabel

import (
	"reflect"
	"testing"
)

// Vectors: RFC 1035 4.1.4 example shape and the literals used by the repository's own tests.
func TestVectors(t *testing.T) {
	cases := []struct {
		in    []byte
		names []string
		class Class
	}{
		{[]byte("\x09slackware\x02it\x00"), []string{"slackware.it"}, Strict},
		{[]byte("\x09slackware\x02it\x00\x05insom\x3fnia\x00"), nil, Malformed}, // 0x3f label overruns
		{[]byte("\x03foo\x07example\x03com\x00\x03bar\xC0\x04"), []string{"foo.example.com", "bar.example.com"}, Strict},
		{[]byte("\x01F\x03ISI\x04ARPA\x00\x03FOO\xC0\x00\xC0\x06\x00"), []string{"F.ISI.ARPA", "FOO.F.ISI.ARPA", "ARPA", ""}, Strict},
		{[]byte("\x03foo"), []string{"foo"}, Strict},
		{[]byte{}, nil, Strict},
		{[]byte{0}, []string{""}, Strict},
		{[]byte("\x03foo\x00\xC0"), nil, Malformed},
		{[]byte("\x03foo\x00\xC0\x7f"), nil, Malformed},
		{[]byte("\x03foo\x00\xC0\x02"), nil, Malformed}, // 'o' (0x6f) is a reserved label type
		{[]byte("\x40"), nil, Malformed},
		{[]byte("\xC0\x02\x01b\x00"), []string{"b", "b"}, Grey},
	}
	for i, c := range cases {
		n, cl, why := Decode(c.in)
		if cl != c.class || (cl != Malformed && !reflect.DeepEqual(n, c.names)) {
			t.Errorf("case %d %q: got %q %v (%s), want %q %v", i, c.in, n, cl, why, c.names, c.class)
		}
	}
	for _, names := range [][]string{{"a.b", "c"}, {""}, {}, {"example.com", "x"}} {
		n, cl, _ := Decode(Encode(names))
		if cl != Strict || len(n) != len(names) {
			t.Errorf("roundtrip %q: %q %v", names, n, cl)
		}
	}
}
