#!/usr/bin/env python3
"""Regenerates MANIFEST.json from claims.json (one entry per claimed property) and properties.jsonl."""
import json
import os

ROOT = os.path.dirname(os.path.abspath(__file__))
claims = json.load(open(os.path.join(ROOT, "claims.json")))
props = [json.loads(l) for l in open(os.path.join(ROOT, "properties.jsonl")) if l.strip()]

checks = []
na = []
for p in props:
    pid = p["id"]
    c = claims.get(pid)
    if not c or c.get("not_applicable"):
        na.append({"property_id": pid, "reason": (c or {}).get("not_applicable", "check not built yet in this session (planned, see DESIGN.md section 4)")})
        continue
    checks.append({
        "property_id": pid,
        "quick_cmd": "./check %s quick" % pid,
        "thorough_cmd": "./check %s thorough" % pid,
        "evidence_file": "/verif/evidence/%s.json" % pid,
        "replay_cmd_template": "./check %s --replay {path}" % pid,
        "engine": "props",
        "level_claimed": {"category": "exploration", "text": c["text"], "design_ref": "DESIGN.md section 4, " + pid},
        "level_note": c["note"],
        "technique": c["technique"],
    })

m = {
    "version": 1,
    "setup_cmd": "./setup.sh",
    "hooks": {
        "guard": "verif",
        "enable": "go test -tags verif (no hook code exists: the harness is an external module that uses exported API only)",
        "baseline_off_cmd": "cd /repo && GOFLAGS=-mod=mod go test -vet=off -count=1 -timeout 25m ./...",
        "source_commits": [],
        "add_only": True,
    },
    "engines": [{
        "name": "props", "path": "/verif/props",
        "serves_properties": [c["property_id"] for c in checks],
        "kind_free_text": "Go test package (go1.26.8) with pgregory.net/rapid v1.3.0 generators/shrinking, exhaustive small-scope enumerations, native go fuzz targets, independent reference codecs under /verif/ref, scripted PacketConn + testing/synctest virtual time under /verif/netsim; driver /verif/check",
    }],
    "checks": checks,
    "notes": "Property-based testing and fuzzing only. ./check <id> quick|thorough rebuilds the harness against /repo's working tree on every call. Exit 2 = inconclusive (infrastructure), never a violation.",
    "not_applicable": na,
}
json.dump(m, open(os.path.join(ROOT, "MANIFEST.json"), "w"), indent=1)
print("claimed:", [c["property_id"] for c in checks])
