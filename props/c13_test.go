package props

import (
	"bytes"
	"context"
	"encoding/binary"
	"errors"
	"fmt"
	"net"
	"sync"
	"testing"
	"testing/synctest"
	"time"

	"github.com/insomniacslk/dhcp/dhcpv4"
	"github.com/insomniacslk/dhcp/dhcpv4/nclient4"
	"github.com/insomniacslk/dhcp/dhcpv6"
	"github.com/insomniacslk/dhcp/dhcpv6/nclient6"
	"pgregory.net/rapid"

	"verif/netsim"
	"verif/obs"
)

// C13 — lease acquisition follows the DHCP exchange rules for every server behaviour.
//
// Scripted servers answer each client transmission with generated replies after
// generated delays (virtual time). The oracle is an RFC 2131 / RFC 8415 model
// evaluated over the recorded history (transmissions, deliveries, result).

type c13Reply struct {
	On     int     `json:"on"`      // client message type this reply answers (v4: 1 DISCOVER, 3 REQUEST; v6: 1 SOLICIT, 3 REQUEST)
	Type   int     `json:"type"`    // v4: 2 OFFER 5 ACK 6 NAK 1/8 wrong; v6: 2 ADVERTISE 7 REPLY 4 wrong
	Xid    int     `json:"xid"`     // 0 echo, 1 wrong
	SID    int     `json:"sid"`     // 0 own id, 1 missing, 2 another server's id
	HW     int     `json:"hw"`      // 0 echo chaddr, 1 wrong (v4)
	Op     int     `json:"op"`      // 0 BOOTREPLY, 1 BOOTREQUEST (v4)
	Yi     obs.Hex `json:"yiaddr"`  // offered / acknowledged address
	Bad    bool    `json:"garbage"` // undecodable bytes instead
	Dup    bool    `json:"dup"`     // delivered twice (second copy 4 ticks later)
	Delay  int     `json:"delay"`   // ticks after the transmission (≡ 1 mod 4, residues mod T distinct)
	OnlyTx int     `json:"only_tx"` // answer only the k-th transmission of that type (−1: every one)
	PadTo  int     `json:"pad_to"`  // exact size of the reply datagram (0: natural); 1500 is the client's read buffer size
	// header fields a server is free to fill (a hostile or sloppy one with anything): none of them identifies the
	// server or the lease (v4)
	Ci    obs.Hex `json:"ciaddr,omitempty"` // client address field of the reply
	Si    int     `json:"siaddr,omitempty"` // 0 the server's own address, 1 zero, 2 another server's address
	Gi    obs.Hex `json:"giaddr,omitempty"`
	Bcast bool    `json:"bcast,omitempty"`
	Sname string  `json:"sname,omitempty"`
	// v6: T1, T2 of the IA_NA and preferred / valid lifetime of its address, as 32-bit wire values (0: one hour)
	Life [4]uint32 `json:"lifetimes,omitempty"`
	// how the reply's options are laid out on the wire (0: as the library's encoder writes them). Every layout is
	// well formed and says the same: another order, pad octets between options, values split into fragments that
	// are adjacent or have other options between them (RFC 3396), a long option around the others; v6: another order
	Layout int `json:"layout,omitempty"`
}

// c13Relayout4 rewrites the options area of an encoded DHCPv4 packet (octets 240..End) in another well-formed layout.
func c13Relayout4(b []byte, mode int) []byte {
	if len(b) < 240 || mode == 0 {
		return b
	}
	type item struct {
		code byte
		val  []byte
	}
	var items []item
	for i := 240; i < len(b) && b[i] != 255; {
		if b[i] == 0 {
			i++
			continue
		}
		if i+1 >= len(b) || i+2+int(b[i+1]) > len(b) {
			return b
		}
		items = append(items, item{b[i], b[i+2 : i+2+int(b[i+1])]})
		i += 2 + int(b[i+1])
	}
	out := append([]byte{}, b[:240]...)
	put := func(c byte, v []byte) { out = append(append(out, c, byte(len(v))), v...) }
	switch mode {
	case 1:
		for i := len(items) - 1; i >= 0; i-- {
			put(items[i].code, items[i].val)
		}
	case 2:
		for _, it := range items {
			out = append(out, 0)
			put(it.code, it.val)
			out = append(out, 0, 0)
		}
	case 3, 4:
		var second []item
		for _, it := range items {
			if len(it.val) < 2 {
				put(it.code, it.val)
				continue
			}
			h := len(it.val) / 2
			put(it.code, it.val[:h])
			if mode == 3 {
				put(it.code, it.val[h:])
			} else {
				second = append(second, item{it.code, it.val[h:]})
			}
		}
		for _, it := range second {
			put(it.code, it.val)
		}
	default:
		long := make([]byte, 300)
		for i := range long {
			long[i] = byte(i)
		}
		put(43, long[:255])
		for _, it := range items {
			put(it.code, it.val)
		}
		put(43, long[255:])
	}
	out = append(out, 255)
	if mode == 2 {
		out = append(out, 0, 0, 0)
	}
	return out
}

// c13Relayout6 rewrites the top-level options of an encoded DHCPv6 message in another order.
func c13Relayout6(b []byte, mode int) []byte {
	if len(b) < 4 || mode == 0 {
		return b
	}
	var opts [][]byte
	for i := 4; i < len(b); {
		if i+4 > len(b) || i+4+int(b[i+2])<<8+int(b[i+3]) > len(b) {
			return b
		}
		n := 4 + int(b[i+2])<<8 + int(b[i+3])
		opts = append(opts, b[i:i+n])
		i += n
	}
	out := append([]byte{}, b[:4]...)
	switch mode % 3 {
	case 1:
		for i := len(opts) - 1; i >= 0; i-- {
			out = append(out, opts[i]...)
		}
	case 2:
		for i := range opts {
			out = append(out, opts[(i+1)%len(opts)]...)
		}
	default:
		for i := range opts {
			out = append(out, opts[(i+len(opts)-1)%len(opts)]...)
		}
	}
	return out
}

type c13Case struct {
	V6      bool         `json:"v6"`
	Op      int          `json:"op"` // v4: 0 Request (DORA), 1 DORA + Renew + Release; v6: 0 Solicit+Request, 1 RapidSolicit
	T       int          `json:"timeout_ticks"`
	Tries   int          `json:"tries"`
	Servers [][]c13Reply `json:"servers"` // per server: its replies
	// Cfg: other documented configurations of the client, none of which changes the exchange rules: 1..3 the address
	// the client sends its broadcasts to is configured (v4 WithServerAddr / v6 WithBroadcastAddr): server 0's, server
	// 1's, an address no server has; 4 (v4) hardware address through WithHWAddr over another constructor address;
	// 5 debug logging
	Cfg int `json:"cfg,omitempty"`
}

type c13Delivery struct {
	IANA   []byte // v6: the IA_NA option as it went out on the wire (code and length included)
	At     int
	Serial int
	Server int
	R      c13Reply
	Xid    []byte // transaction id carried
	Good   bool   // decodable, BOOTREPLY, chaddr == client's (v4)
	SID    []byte // server identifier carried (nil: none)
	Yi     []byte
}

type c13Write struct {
	Raw  []byte
	At   int
	To   string
	V4   *dhcpv4.DHCPv4
	V6   *dhcpv6.Message
	Type int
}

type c13History struct {
	Writes []c13Write
	Dels   []c13Delivery
	// results
	LeaseOffer, LeaseAck int // serials, −1 none
	NakOffer, NakNak     int
	Err                  error
	RetAt                int
	// renew / release
	RenewStart, RenewRet int
	RenewAck             int
	RenewNak             int // serial of the NAK that ended the renewal (−1: none)
	RenewErr             error
	ReleaseErr           error
	V6Adv, V6Reply       int
	V6Err                error
	Problem              string
}

// the configured destinations of Cfg 1..3 (each call returns a fresh value: the client may keep what it is given)
func c13Dest4(cfg int) *net.UDPAddr {
	if cfg == 3 {
		return &net.UDPAddr{IP: net.IP{10, 77, 200, 1}, Port: 6767}
	}
	return &net.UDPAddr{IP: serverIP(cfg - 1), Port: 67}
}

func c13Dest6(cfg int) *net.UDPAddr {
	switch cfg {
	case 1:
		return &net.UDPAddr{IP: net.ParseIP("2001:db8::547"), Port: 548}
	case 2:
		return &net.UDPAddr{IP: net.ParseIP("ff02::1:2"), Port: 547, Zone: "eth7"} // a scoped address: the zone is part of it
	}
	return &net.UDPAddr{IP: net.ParseIP("fe80::1"), Port: 1547, Zone: "3"}
}

func serverIP(i int) net.IP { return net.IP{10, 77, byte(i), 1} }

func c13Run(t *testing.T, c c13Case) *c13History {
	h := &c13History{LeaseOffer: -1, LeaseAck: -1, NakOffer: -1, NakNak: -1, RenewAck: -1, RenewNak: -1, V6Adv: -1, V6Reply: -1}
	tk := time.Millisecond
	ticks := func(d time.Duration) int { return int(d / tk) }
	h.Problem = inBubble(t, func() {
		conn := netsim.New(8192)
		serial := 0
		txCount := map[int]int{}
		var delMu sync.Mutex
		conn.OnWrite = func(w netsim.Write) {
			cw := c13Write{At: ticks(w.At), To: w.To.String(), Raw: append([]byte{}, w.B...)}
			var xid []byte
			var chaddr net.HardwareAddr
			if c.V6 {
				m, err := dhcpv6.MessageFromBytes(w.B)
				if err != nil {
					return
				}
				cw.V6, cw.Type = m, int(m.MessageType)
				xid = append([]byte{}, m.TransactionID[:]...)
			} else {
				p, err := dhcpv4.FromBytes(w.B)
				if err != nil {
					return
				}
				cw.V4, cw.Type = p, int(p.MessageType())
				xid = append([]byte{}, p.TransactionID[:]...)
				chaddr = p.ClientHWAddr
			}
			h.Writes = append(h.Writes, cw)
			k := txCount[cw.Type]
			txCount[cw.Type]++
			for si, replies := range c.Servers {
				for _, r := range replies {
					if r.On != cw.Type || (r.OnlyTx >= 0 && r.OnlyTx != k) {
						continue
					}
					copies := 1
					if r.Dup {
						copies = 2
					}
					serial++
					for cp := 0; cp < copies; cp++ {
						d := c13Delivery{Serial: serial, Server: si, R: r}
						var b []byte
						if c.V6 {
							b = c13Reply6(r, si, cw.V6, serial, &d)
						} else {
							b = c13Reply4(r, si, xid, chaddr, serial, &d)
						}
						delay := time.Duration(r.Delay+4*cp) * tk
						go func() {
							time.Sleep(delay)
							d.At = ticks(conn.Since())
							delMu.Lock()
							h.Dels = append(h.Dels, d)
							delMu.Unlock()
							conn.Deliver(b, &net.UDPAddr{IP: serverIP(si), Port: 67})
						}()
					}
				}
			}
		}
		if c.V6 {
			o6 := []nclient6.ClientOpt{nclient6.WithTimeout(time.Duration(c.T) * tk), nclient6.WithRetry(c.Tries)}
			switch c.Cfg {
			case 1, 2, 3:
				o6 = append(o6, nclient6.WithBroadcastAddr(c13Dest6(c.Cfg)))
			case 5:
				defer quietStderr()()
				o6 = append(o6, nclient6.WithDebugLogger(), nclient6.WithLogDroppedPackets())
			}
			cl, err := nclient6.NewWithConn(conn, cliHW, o6...)
			if err != nil {
				panic(err)
			}
			if c.Op == 0 {
				adv, err := cl.Solicit(context.Background())
				h.V6Err = err
				if err == nil {
					h.V6Adv = v6Serial(adv)
					rep, err := cl.Request(context.Background(), adv)
					h.V6Err = err
					if err == nil {
						h.V6Reply = v6Serial(rep)
					}
				}
			} else {
				rep, err := cl.RapidSolicit(context.Background())
				h.V6Err = err
				if err == nil {
					h.V6Reply = v6Serial(rep)
				}
			}
			h.RetAt = ticks(conn.Since())
			time.Sleep(time.Duration(4*c.T) * tk)
			synctest.Wait()
			cl.Close()
			synctest.Wait()
			return
		}
		opts := []nclient4.ClientOpt{nclient4.WithTimeout(time.Duration(c.T) * tk), nclient4.WithRetry(c.Tries)}
		hw := cliHW
		switch c.Cfg {
		case 1, 2, 3:
			opts = append(opts, nclient4.WithServerAddr(c13Dest4(c.Cfg)))
		case 4:
			hw = net.HardwareAddr{2, 0xfe, 0xfe, 0xfe, 0xfe, 1}
			opts = append(opts, nclient4.WithHWAddr(cliHW))
		case 5:
			opts = append(opts, nclient4.WithLogger(nclient4.DebugLogger{Printfer: cliSink{}}))
		}
		cl, err := nclient4.NewWithConn(conn, hw, opts...)
		if err != nil {
			panic(err)
		}
		lease, err := cl.Request(context.Background())
		h.Err, h.RetAt = err, ticks(conn.Since())
		var nak *nclient4.ErrNak
		if errors.As(err, &nak) {
			h.NakOffer, h.NakNak = v4Serial(nak.Offer), v4Serial(nak.Nak)
		}
		if err == nil && lease != nil {
			h.LeaseOffer, h.LeaseAck = v4Serial(lease.Offer), v4Serial(lease.ACK)
			if c.Op == 1 {
				// let stragglers of the first exchange pass, then renew and release
				time.Sleep(time.Duration(4*c.T+2) * tk)
				synctest.Wait()
				h.RenewStart = ticks(conn.Since())
				l2, err := cl.Renew(context.Background(), lease)
				h.RenewErr, h.RenewRet = err, ticks(conn.Since())
				if err == nil {
					h.RenewAck = v4Serial(l2.ACK)
					lease = l2
				}
				var rnak *nclient4.ErrNak
				if errors.As(err, &rnak) {
					h.RenewNak = v4Serial(rnak.Nak)
				}
				time.Sleep(time.Duration(4*c.T+2) * tk)
				synctest.Wait()
				h.ReleaseErr = cl.Release(lease)
			}
		}
		time.Sleep(time.Duration(4*c.T) * tk)
		synctest.Wait()
		cl.Close()
		synctest.Wait()
	})
	return h
}

func c13Reply4(r c13Reply, si int, xid []byte, chaddr net.HardwareAddr, serial int, d *c13Delivery) []byte {
	if r.Bad {
		return []byte{2, 1, 6, 0, byte(serial)}
	}
	p, _ := dhcpv4.New()
	p.OpCode = dhcpv4.OpcodeType(2) // BOOTREPLY by its RFC 951 value, not by the library's constant
	if r.Op == 1 {
		p.OpCode = dhcpv4.OpcodeType(1)
	}
	copy(p.TransactionID[:], xid)
	if r.Xid == 1 {
		p.TransactionID[0] ^= 0x5a
	}
	p.ClientHWAddr = append(net.HardwareAddr{}, chaddr...)
	switch r.HW {
	case 1:
		p.ClientHWAddr = net.HardwareAddr{2, 0, 0, 0, 0, 9}
	case 2: // addresses related to the client's own, none of them the client's: a leading part of it, …
		p.ClientHWAddr = append(net.HardwareAddr{}, chaddr[:min(len(chaddr), 5)]...)
	case 3:
		p.ClientHWAddr = append(net.HardwareAddr{}, chaddr[:min(len(chaddr), 1)]...)
	case 4: // … the address followed by zero octets, …
		p.ClientHWAddr = append(append(net.HardwareAddr{}, chaddr...), 0, 0)
	case 5: // … padded to the whole 16-octet field, …
		p.ClientHWAddr = append(append(net.HardwareAddr{}, chaddr...), make([]byte, 16-min(16, len(chaddr)))...)
	case 6: // … and no address at all
		p.ClientHWAddr = nil
	}
	p.YourIPAddr = net.IP(append([]byte{}, r.Yi...))
	p.ServerIPAddr = serverIP(si)
	switch r.Si {
	case 1:
		p.ServerIPAddr = net.IPv4zero
	case 2:
		p.ServerIPAddr = serverIP(si + 1)
	}
	if len(r.Ci) == 4 {
		p.ClientIPAddr = net.IP(append([]byte{}, r.Ci...))
	}
	if len(r.Gi) == 4 {
		p.GatewayIPAddr = net.IP(append([]byte{}, r.Gi...))
	}
	if r.Bcast {
		p.SetBroadcast()
	}
	p.ServerHostName = r.Sname
	p.UpdateOption(dhcpv4.OptMessageType(dhcpv4.MessageType(r.Type)))
	switch r.SID {
	case 0:
		p.UpdateOption(dhcpv4.OptServerIdentifier(serverIP(si)))
		d.SID = serverIP(si)
	case 2:
		p.UpdateOption(dhcpv4.OptServerIdentifier(serverIP(si + 100)))
		d.SID = serverIP(si + 100)
	case 3: // a server that identifies itself as 0.0.0.0 (present, not absent)
		p.UpdateOption(dhcpv4.OptServerIdentifier(net.IP{0, 0, 0, 0}))
		d.SID = net.IP{0, 0, 0, 0}
	}
	p.UpdateOption(dhcpv4.OptIPAddressLeaseTime(time.Hour))
	s := make([]byte, 4)
	binary.BigEndian.PutUint32(s, uint32(serial))
	p.UpdateOption(dhcpv4.OptGeneric(dhcpv4.GenericOptionCode(224), s))
	for code := 230; r.PadTo > 0 && code < 250; code++ {
		rest := r.PadTo - len(p.ToBytes())
		if rest < 2 {
			break
		}
		n := min(255, rest-2)
		if rest-2-n == 1 {
			n--
		}
		p.UpdateOption(dhcpv4.OptGeneric(dhcpv4.GenericOptionCode(uint8(code)), make([]byte, n)))
	}
	d.Xid = append([]byte{}, p.TransactionID[:]...)
	d.Good = r.Op == 0 && r.HW == 0
	d.Yi = append([]byte{}, r.Yi...)
	if r.PadTo == 0 {
		return c13Relayout4(p.ToBytes(), r.Layout)
	}
	return p.ToBytes()
}

func c13Reply6(r c13Reply, si int, req *dhcpv6.Message, serial int, d *c13Delivery) []byte {
	if r.Bad {
		return []byte{7, 1, 2, 3, 0, 1, 0, 9}
	}
	m := &dhcpv6.Message{MessageType: dhcpv6.MessageType(r.Type), TransactionID: req.TransactionID}
	if r.Xid == 1 {
		m.TransactionID[0] ^= 0x5a
	}
	if cid := req.GetOneOption(dhcpv6.OptionClientID); cid != nil {
		m.AddOption(cid)
	}
	if r.SID != 1 {
		m.AddOption(dhcpv6.OptServerID(&dhcpv6.DUIDLL{HWType: 1, LinkLayerAddr: net.HardwareAddr{0xaa, 0, 0, 0, 0, byte(si + 100*r.SID)}}))
	}
	if r.HW == 0 { // reused as "carries an IA_NA"
		// written octet by octet (not through the library's encoder): IAID, T1, T2, one address with its lifetimes
		life := r.Life
		for i, d := range []uint32{3600, 7200, 3600, 3600} {
			if life[i] == 0 {
				life[i] = d
			}
		}
		be := func(v uint32) []byte { return []byte{byte(v >> 24), byte(v >> 16), byte(v >> 8), byte(v)} }
		body := append([]byte{9, 9, 9, byte(serial)}, append(be(life[0]), be(life[1])...)...)
		addr := append(append(net.ParseIP("2001:db8::1").To16(), be(life[2])...), be(life[3])...)
		body = append(append(body, 0, 5, 0, 24), addr...)
		d.IANA = append([]byte{0, 3, byte(len(body) >> 8), byte(len(body))}, body...)
		m.AddOption(&dhcpv6.OptionGeneric{OptionCode: dhcpv6.OptionIANA, OptionData: body})
		if r.Op == 1 { // reused as "also carries an IA_PD"
			m.AddOption(&dhcpv6.OptIAPD{IaId: [4]byte{7, 7, 7, byte(serial)}})
		}
	}
	s := make([]byte, 4)
	binary.BigEndian.PutUint32(s, uint32(serial))
	m.AddOption(&dhcpv6.OptionGeneric{OptionCode: 65001, OptionData: s})
	if rest := r.PadTo - len(m.ToBytes()) - 4; r.PadTo > 0 && rest >= 0 {
		m.AddOption(&dhcpv6.OptionGeneric{OptionCode: 65002, OptionData: make([]byte, rest)})
	}
	d.Xid = append([]byte{}, m.TransactionID[:]...)
	d.Good = true
	if r.PadTo == 0 {
		return c13Relayout6(m.ToBytes(), r.Layout)
	}
	return m.ToBytes()
}

// c13TopOption returns the first top-level option with the given code of a DHCPv6 message on the wire (header
// included), read with plain index arithmetic.
func c13TopOption(b []byte, code int) []byte {
	for i := 4; i+4 <= len(b); {
		c, l := int(b[i])<<8|int(b[i+1]), int(b[i+2])<<8|int(b[i+3])
		if i+4+l > len(b) {
			return nil
		}
		if c == code {
			return b[i : i+4+l]
		}
		i += 4 + l
	}
	return nil
}

// ambiguous reports whether a delivery coincides with a transmission instant or the
// return instant (a timer boundary): then the order is not decided and nothing is asserted.
func (h *c13History) ambiguous() bool {
	boundary := map[int]bool{}
	firstReq := true
	for _, w := range h.Writes {
		if w.Type == 7 {
			continue // a RELEASE starts no timer
		}
		if w.Type == 3 && firstReq {
			firstReq = false
			continue // the REQUEST goes out at the instant the selected OFFER / ADVERTISE arrives
		}
		boundary[w.At] = true
	}
	boundary[h.RetAt] = true
	if h.RenewRet > 0 {
		boundary[h.RenewRet] = true
	}
	ends := map[int]bool{h.LeaseAck: true, h.NakNak: true, h.V6Reply: true, h.V6Adv: true, h.RenewAck: true, h.RenewNak: true}
	delete(ends, -1)
	seen := map[int]bool{}
	for _, d := range h.Dels {
		if seen[d.At] {
			return true // two deliveries at one instant: arrival order undecided
		}
		seen[d.At] = true
		// (a duplicate shares its original's serial: only the copy that arrived at the return instant is the one that ended the call)
		if boundary[d.At] && !(ends[d.Serial] && (d.At == h.RetAt || d.At == h.RenewRet)) {
			return true
		}
	}
	return false
}

// c13Schedule checks that the transmissions of one phase sit at start, start+T, start+3T, …
func c13Schedule(tag string, ws []c13Write, T, tries int) *obs.Fail {
	if len(ws) > tries {
		return obs.Failf("C13/"+tag+"/transmission-count", fmt.Sprintf("at most %d transmissions", tries), "%d", len(ws))
	}
	for j, w := range ws {
		if want := ws[0].At + T*((1<<uint(j))-1); w.At != want {
			var at []int
			for _, x := range ws {
				at = append(at, x.At)
			}
			return obs.Failf("C13/"+tag+"/retransmission-schedule", fmt.Sprintf("transmission %d at tick %d (start %d, timeout %d ticks)", j, want, ws[0].At, T), "ticks %v", at)
		}
	}
	return nil
}

func c13Check4(c c13Case, h *c13History) *obs.Fail {
	if c.Cfg >= 1 && c.Cfg <= 3 {
		for i, w := range h.Writes {
			if want := c13Dest4(c.Cfg).String(); w.Type == 1 && w.To != want {
				return obs.Failf("C13/v4/destination", fmt.Sprintf("DISCOVER %d to the configured server address %s", i, want), "%s", w.To)
			}
		}
	}
	T := c.T
	sched := T * ((1 << uint(c.Tries)) - 1)
	// phase 1: DISCOVER
	var disc []c13Write
	var reqs []c13Write
	var rel []c13Write
	for _, w := range h.Writes {
		switch w.Type {
		case 1:
			disc = append(disc, w)
		case 3:
			reqs = append(reqs, w)
		case 7:
			rel = append(rel, w)
		}
	}
	if len(disc) == 0 {
		return obs.Failf("C13/v4/no-discover", "a DISCOVER on the wire", "none")
	}
	if f := c13Schedule("v4/discover", disc, T, c.Tries); f != nil {
		return f
	}
	xid := disc[0].V4.TransactionID[:]
	valid := func(d c13Delivery, x []byte) bool {
		return !d.R.Bad && d.Good && bytes.Equal(d.Xid, x)
	}
	// the first acceptable OFFER in arrival order (deliveries are recorded in arrival order)
	var sel *c13Delivery
	for i := range h.Dels {
		d := &h.Dels[i]
		if d.At <= sched && valid(*d, xid) && d.R.Type == 2 {
			sel = d
			break
		}
	}
	firstReqs := reqs
	if h.RenewStart > 0 {
		firstReqs = nil
		for _, w := range reqs {
			if w.At < h.RenewStart {
				firstReqs = append(firstReqs, w)
			}
		}
	}
	if sel == nil {
		if len(firstReqs) != 0 {
			return obs.Failf("C13/v4/request-without-offer", "no REQUEST without an acceptable OFFER", "%d REQUESTs", len(firstReqs))
		}
		if h.Err == nil || !errors.Is(h.Err, nclient4.ErrNoResponse) || h.RetAt != sched {
			return obs.Failf("C13/v4/no-offer-outcome", fmt.Sprintf("no-response error at tick %d", sched), "err=%v at tick %d", h.Err, h.RetAt)
		}
		return nil
	}
	if len(firstReqs) == 0 {
		return obs.Failf("C13/v4/no-request", "a REQUEST after the OFFER", "none (err=%v)", h.Err)
	}
	for _, w := range firstReqs {
		p := w.V4
		switch {
		case w.At < sel.At:
			return obs.Failf("C13/v4/request-before-offer", "REQUEST after the selected OFFER", "at tick %d, offer at %d", w.At, sel.At)
		case !bytes.Equal(p.ClientHWAddr, cliHW):
			return obs.Failf("C13/v4/request/chaddr", fmt.Sprintf("%v", cliHW), "%v", p.ClientHWAddr)
		case !bytes.Equal(p.TransactionID[:], sel.Xid):
			return obs.Failf("C13/v4/request/xid", fmt.Sprintf("%x", sel.Xid), "%x", p.TransactionID[:])
		case !bytes.Equal(p.Options.Get(dhcpv4.OptionRequestedIPAddress), sel.Yi):
			return obs.Failf("C13/v4/request/requested-address", fmt.Sprintf("option 50 = offered address %v", net.IP(sel.Yi)), "%v", p.Options.Get(dhcpv4.OptionRequestedIPAddress))
		case !bytes.Equal(p.Options.Get(dhcpv4.OptionServerIdentifier), []byte(net.IP(sel.SID).To4())):
			return obs.Failf("C13/v4/request/server-id", fmt.Sprintf("option 54 = offering server %v", net.IP(sel.SID)), "%v", p.Options.Get(dhcpv4.OptionServerIdentifier))
		}
	}
	if f := c13Schedule("v4/request", firstReqs, T, c.Tries); f != nil {
		return f
	}
	reqStart := firstReqs[0].At
	var fin *c13Delivery
	for i := range h.Dels {
		d := &h.Dels[i]
		if d.At > reqStart && d.At < reqStart+sched && valid(*d, sel.Xid) && (d.R.Type == 5 || d.R.Type == 6) && bytes.Equal(d.SID, sel.SID) {
			fin = d
			break
		}
	}
	switch {
	case fin == nil:
		if h.Err == nil || !errors.Is(h.Err, nclient4.ErrNoResponse) || h.RetAt != reqStart+sched {
			return obs.Failf("C13/v4/no-ack-outcome", fmt.Sprintf("no-response error at tick %d (no ACK/NAK from the selected server)", reqStart+sched), "err=%v lease(offer %d, ack %d) nak %d at tick %d", h.Err, h.LeaseOffer, h.LeaseAck, h.NakNak, h.RetAt)
		}
	case fin.R.Type == 5:
		if h.Err != nil || h.LeaseOffer != sel.Serial || h.LeaseAck != fin.Serial || h.RetAt != fin.At {
			return obs.Failf("C13/v4/lease", fmt.Sprintf("lease{offer %d, ack %d} at tick %d", sel.Serial, fin.Serial, fin.At), "err=%v lease{offer %d, ack %d} at tick %d", h.Err, h.LeaseOffer, h.LeaseAck, h.RetAt)
		}
	default:
		if h.NakNak != fin.Serial || h.NakOffer != sel.Serial || h.RetAt != fin.At {
			return obs.Failf("C13/v4/nak", fmt.Sprintf("NAK error{offer %d, nak %d} at tick %d", sel.Serial, fin.Serial, fin.At), "err=%v nak{offer %d, nak %d} at tick %d", h.Err, h.NakOffer, h.NakNak, h.RetAt)
		}
	}
	if c.Op != 1 || h.Err != nil {
		return nil
	}
	// renewal
	var rn []c13Write
	for _, w := range reqs {
		if w.At >= h.RenewStart {
			rn = append(rn, w)
		}
	}
	if len(rn) == 0 {
		return obs.Failf("C13/v4/renew/no-request", "a renewal REQUEST", "none")
	}
	if f := c13Schedule("v4/renew", rn, T, c.Tries); f != nil {
		return f
	}
	leased := fin.Yi
	for _, w := range rn {
		p := w.V4
		switch {
		case !bytes.Equal(p.ClientIPAddr.To4(), leased):
			return obs.Failf("C13/v4/renew/ciaddr", fmt.Sprintf("ciaddr = leased address %v", net.IP(leased)), "%v", p.ClientIPAddr)
		case p.IsBroadcast():
			return obs.Failf("C13/v4/renew/unicast", "unicast flag", "broadcast")
		case p.Options.Has(dhcpv4.OptionRequestedIPAddress) || p.Options.Has(dhcpv4.OptionServerIdentifier):
			return obs.Failf("C13/v4/renew/options", "no requested-address / server-identifier option", "present")
		case !bytes.Equal(p.ClientHWAddr, cliHW):
			return obs.Failf("C13/v4/renew/chaddr", fmt.Sprintf("%v", cliHW), "%v", p.ClientHWAddr)
		}
	}
	rxid := rn[0].V4.TransactionID[:]
	var rfin *c13Delivery
	for i := range h.Dels {
		d := &h.Dels[i]
		if d.At > rn[0].At && d.At < rn[0].At+sched && valid(*d, rxid) && (d.R.Type == 5 || d.R.Type == 6) && bytes.Equal(d.SID, sel.SID) {
			rfin = d
			break
		}
	}
	switch {
	case rfin == nil:
		if h.RenewErr == nil || h.RenewRet != rn[0].At+sched {
			return obs.Failf("C13/v4/renew/no-ack-outcome", fmt.Sprintf("error at tick %d", rn[0].At+sched), "err=%v ack %d at tick %d", h.RenewErr, h.RenewAck, h.RenewRet)
		}
	case rfin.R.Type == 5:
		if h.RenewErr != nil || h.RenewAck != rfin.Serial || h.RenewRet != rfin.At {
			return obs.Failf("C13/v4/renew/lease", fmt.Sprintf("renewed lease with ack %d at tick %d", rfin.Serial, rfin.At), "err=%v ack %d at tick %d", h.RenewErr, h.RenewAck, h.RenewRet)
		}
		leased = rfin.Yi
	default:
		var nak *nclient4.ErrNak
		if !errors.As(h.RenewErr, &nak) || v4Serial(nak.Nak) != rfin.Serial {
			return obs.Failf("C13/v4/renew/nak", fmt.Sprintf("NAK error with nak %d", rfin.Serial), "err=%v", h.RenewErr)
		}
	}
	// release
	if h.ReleaseErr != nil {
		return obs.Failf("C13/v4/release/error", "release succeeds", "%v", h.ReleaseErr)
	}
	if len(rel) != 1 {
		return obs.Failf("C13/v4/release/count", "exactly one RELEASE", "%d", len(rel))
	}
	p := rel[0].V4
	wantTo := (&net.UDPAddr{IP: net.IP(sel.SID), Port: 67}).String()
	switch {
	case !bytes.Equal(p.ClientIPAddr.To4(), leased):
		return obs.Failf("C13/v4/release/ciaddr", fmt.Sprintf("ciaddr = leased address %v", net.IP(leased)), "%v", p.ClientIPAddr)
	case !bytes.Equal(p.Options.Get(dhcpv4.OptionServerIdentifier), []byte(net.IP(sel.SID).To4())):
		return obs.Failf("C13/v4/release/server-id", fmt.Sprintf("%v", net.IP(sel.SID)), "%v", p.Options.Get(dhcpv4.OptionServerIdentifier))
	case rel[0].To != wantTo:
		return obs.Failf("C13/v4/release/destination", wantTo, "%s", rel[0].To)
	case !bytes.Equal(p.ClientHWAddr, cliHW):
		return obs.Failf("C13/v4/release/chaddr", fmt.Sprintf("%v", cliHW), "%v", p.ClientHWAddr)
	}
	return nil
}

func c13Check6(c c13Case, h *c13History) *obs.Fail {
	if c.Cfg >= 1 && c.Cfg <= 3 {
		// every message of the exchange goes to the configured address, whole (address, port, zone)
		for i, w := range h.Writes {
			if want := c13Dest6(c.Cfg).String(); w.To != want {
				return obs.Failf("C13/v6/destination", fmt.Sprintf("transmission %d to the configured address %s", i, want), "%s", w.To)
			}
		}
	}
	sched := c.T * ((1 << uint(c.Tries)) - 1)
	var sol, reqs []c13Write
	for _, w := range h.Writes {
		switch w.Type {
		case 1:
			sol = append(sol, w)
		case 3:
			reqs = append(reqs, w)
		}
	}
	if len(sol) == 0 {
		return obs.Failf("C13/v6/no-solicit", "a SOLICIT on the wire", "none")
	}
	if f := c13Schedule("v6/solicit", sol, c.T, c.Tries); f != nil {
		return f
	}
	if f := c13Schedule("v6/request", reqs, c.T, c.Tries); f != nil {
		return f
	}
	xid := sol[0].V6.TransactionID[:]
	accept := map[int]bool{2: true}
	if c.Op == 1 {
		accept[7] = true
		if sol[0].V6.GetOneOption(dhcpv6.OptionRapidCommit) == nil {
			return obs.Failf("C13/v6/rapid-solicit/no-rapid-commit", "rapid commit option in the SOLICIT", "absent")
		}
	}
	var first *c13Delivery
	for i := range h.Dels {
		d := &h.Dels[i]
		if d.At <= sched && !d.R.Bad && bytes.Equal(d.Xid, xid) && accept[d.R.Type] {
			first = d
			break
		}
	}
	if first == nil {
		if len(reqs) != 0 || h.V6Err == nil {
			return obs.Failf("C13/v6/no-advertise-outcome", "error and no REQUEST", "err=%v, %d REQUESTs", h.V6Err, len(reqs))
		}
		return nil
	}
	if first.R.Type == 7 { // rapid-commit REPLY is returned directly
		if h.V6Err != nil || h.V6Reply != first.Serial || len(reqs) != 0 {
			return obs.Failf("C13/v6/rapid-reply", fmt.Sprintf("REPLY %d returned directly, no REQUEST", first.Serial), "err=%v reply %d, %d REQUESTs", h.V6Err, h.V6Reply, len(reqs))
		}
		return nil
	}
	// ADVERTISE → REQUEST
	canBuild := first.R.SID != 1 && first.R.HW == 0 // server id and IA_NA present (client id is echoed from the SOLICIT)
	if !canBuild {
		if h.V6Err == nil || len(reqs) != 0 {
			return obs.Failf("C13/v6/request-from-incomplete-advertise", "error (advertise lacks server id or IA_NA)", "err=%v, %d REQUESTs", h.V6Err, len(reqs))
		}
		return nil
	}
	if len(reqs) == 0 {
		return obs.Failf("C13/v6/no-request", "a REQUEST after the ADVERTISE", "none (err=%v)", h.V6Err)
	}
	if c.Op == 0 && h.V6Adv != first.Serial {
		return obs.Failf("C13/v6/advertise-choice", fmt.Sprintf("advertise %d (first with the SOLICIT's transaction id)", first.Serial), "%d", h.V6Adv)
	}
	rq := reqs[0].V6
	wantSID := dhcpv6.OptServerID(&dhcpv6.DUIDLL{HWType: 1, LinkLayerAddr: net.HardwareAddr{0xaa, 0, 0, 0, 0, byte(first.Server + 100*first.R.SID)}})
	cid := sol[0].V6.GetOneOption(dhcpv6.OptionClientID)
	switch {
	case cid == nil || rq.GetOneOption(dhcpv6.OptionClientID) == nil || !bytes.Equal(rq.GetOneOption(dhcpv6.OptionClientID).ToBytes(), cid.ToBytes()):
		return obs.Failf("C13/v6/request/client-id", "advertised client id", "differs")
	case rq.GetOneOption(dhcpv6.OptionServerID) == nil || !bytes.Equal(rq.GetOneOption(dhcpv6.OptionServerID).ToBytes(), wantSID.ToBytes()):
		return obs.Failf("C13/v6/request/server-id", "advertised server id", "differs")
	case rq.Options.OneIANA() == nil || rq.Options.OneIANA().IaId != [4]byte{9, 9, 9, byte(first.Serial)}:
		return obs.Failf("C13/v6/request/ia-na", "advertised IA_NA", "differs")
	case !bytes.Equal(c13TopOption(reqs[0].Raw, 3), first.IANA):
		return obs.Failf("C13/v6/request/ia-na-content", fmt.Sprintf("the advertised IA_NA octet for octet: %x", first.IANA), "%x", c13TopOption(reqs[0].Raw, 3))
	case (first.R.Op == 1) != (rq.GetOneOption(dhcpv6.OptionIAPD) != nil):
		return obs.Failf("C13/v6/request/ia-pd", fmt.Sprintf("IA_PD present=%v", first.R.Op == 1), "present=%v", rq.GetOneOption(dhcpv6.OptionIAPD) != nil)
	}
	rxid := rq.TransactionID[:]
	var fin *c13Delivery
	for i := range h.Dels {
		d := &h.Dels[i]
		if d.At > reqs[0].At && d.At < reqs[0].At+sched && !d.R.Bad && bytes.Equal(d.Xid, rxid) {
			fin = d
			break
		}
	}
	if fin == nil {
		if h.V6Err == nil {
			return obs.Failf("C13/v6/no-reply-outcome", "error (nothing carried the REQUEST's transaction id)", "reply %d", h.V6Reply)
		}
		return nil
	}
	if h.V6Err != nil || h.V6Reply != fin.Serial {
		return obs.Failf("C13/v6/reply", fmt.Sprintf("reply %d (first with the REQUEST's transaction id)", fin.Serial), "err=%v reply %d", h.V6Err, h.V6Reply)
	}
	return nil
}

var c13 = newChk("C13", "exchange-model",
	"0..3 scripted servers under virtual time, each answering any subset of the client's transmissions (every one or only the k-th) with OFFER/ACK/NAK (ADVERTISE/REPLY), wrong-type, wrong-id, wrong/missing/other server-id, wrong-hardware-address, wrong-opcode, undecodable and duplicated replies after generated delays, with arbitrary offered addresses; calls: DHCPv4 Request (DORA), then Renew and Release; DHCPv6 Solicit+Request and RapidSolicit. An RFC 2131 / RFC 8415 model is evaluated over the recorded history (transmissions, deliveries in arrival order, result, return instant). Runs in which a delivery coincides with a timer boundary are skipped (counted). non-trivial = ≥2 servers or ≥1 reply that must be ignored before the accepted one; distinct by case hash",
	func(rec *obs.Rec, c c13Case) *obs.Fail {
		h := c13Run(curT, c)
		fam := "v4"
		if c.V6 {
			fam = "v6"
		}
		if h.Problem != "" {
			return obs.Failf("C13/"+fam+"/panic-or-leak", "exchange completes and the client closes cleanly", "%s", clipS(h.Problem))
		}
		if h.ambiguous() {
			rec.Class("skipped: delivery on a timer boundary")
			return nil
		}
		var f *obs.Fail
		if c.V6 {
			f = c13Check6(c, h)
		} else {
			f = c13Check4(c, h)
		}
		if f != nil {
			return f
		}
		ignored := 0
		for _, d := range h.Dels {
			if d.Serial != h.LeaseOffer && d.Serial != h.LeaseAck && d.Serial != h.NakNak && d.Serial != h.V6Adv && d.Serial != h.V6Reply && d.Serial != h.RenewAck && d.Serial != h.RenewNak {
				ignored++
			}
		}
		rec.Class(fmt.Sprintf("%s op %d", fam, c.Op))
		switch {
		case h.LeaseAck >= 0:
			rec.Class("outcome: lease")
		case h.NakNak >= 0:
			rec.Class("outcome: nak")
		case h.V6Reply >= 0:
			rec.Class("outcome: v6 reply")
		default:
			rec.Class("outcome: error")
		}
		if len(c.Servers) >= 2 || ignored > 0 {
			rec.NonTrivial(obs.HashJSON(c), func() any {
				return map[string]any{"family": fam, "op": c.Op, "servers": len(c.Servers), "transmissions": len(h.Writes), "deliveries": len(h.Dels), "ignored": ignored, "lease": []int{h.LeaseOffer, h.LeaseAck}, "nak": h.NakNak, "v6": []int{h.V6Adv, h.V6Reply}}
			})
		}
		return nil
	})

func genC13() *rapid.Generator[c13Case] {
	return rapid.Custom(func(t *rapid.T) c13Case {
		c := c13Case{V6: rapid.IntRange(0, 2).Draw(t, "v6") == 0, Op: rapid.IntRange(0, 1).Draw(t, "op"), T: 16 * rapid.SampledFrom([]int{4, 8}).Draw(t, "T16"), Tries: rapid.IntRange(1, 3).Draw(t, "tries")}
		c.Cfg = rapid.SampledFrom([]int{0, 0, 0, 1, 2, 3, 4, 5}).Draw(t, "cfg")
		if !c.V6 && rapid.IntRange(0, 5).Draw(t, "renewal-outcomes") == 0 {
			// steered: a clean DORA, then every outcome of the renewal — ACK, NAK from the leasing server, NAK or ACK from
			// another one, silence, an ACK for another address — and the release that follows (of the lease the client
			// really holds: a refused or failed renewal leaves it as it was)
			c.Op = 1
			sid := rapid.SampledFrom([]int{0, 0, 3}).Draw(t, "sid")
			s0 := []c13Reply{
				{On: 1, Type: 2, OnlyTx: -1, Delay: 1, Yi: []byte{10, 1, 0, 7}, SID: sid},
				{On: 3, Type: 5, OnlyTx: 0, Delay: 9, Yi: []byte{10, 1, 0, 7}, SID: sid},
			}
			var s1 []c13Reply
			switch rapid.IntRange(0, 5).Draw(t, "renew") {
			case 0:
				s0 = append(s0, c13Reply{On: 3, Type: 5, OnlyTx: 1, Delay: 17, Yi: []byte{10, 1, 0, 7}, SID: sid})
			case 1:
				s0 = append(s0, c13Reply{On: 3, Type: 6, OnlyTx: 1, Delay: 17, Yi: []byte{0, 0, 0, 0}, SID: sid})
			case 2:
				s1 = append(s1, c13Reply{On: 3, Type: 6, OnlyTx: 1, Delay: 17, Yi: []byte{0, 0, 0, 0}})
			case 3:
				s1 = append(s1, c13Reply{On: 3, Type: 5, OnlyTx: 1, Delay: 17, Yi: []byte{10, 9, 9, 9}})
			case 4:
				s0 = append(s0, c13Reply{On: 3, Type: 5, OnlyTx: 1, Delay: 17, Yi: []byte{10, 1, 0, 8}, SID: sid})
			}
			c.Servers = [][]c13Reply{s0, s1}
			return c
		}
		ns := rapid.IntRange(0, 3).Draw(t, "nservers")
		used := map[int]bool{}
		for s := 0; s < ns; s++ {
			var rs []c13Reply
			nr := rapid.IntRange(0, 5).Draw(t, "nreplies")
			for i := 0; i < nr; i++ {
				r := c13Reply{On: rapid.SampledFrom([]int{1, 3}).Draw(t, "on"), OnlyTx: rapid.SampledFrom([]int{-1, -1, 0, 1, 2}).Draw(t, "onlytx")}
				if c.V6 {
					r.Type = rapid.SampledFrom([]int{2, 7, 2, 7, 4}).Draw(t, "type")
				} else {
					r.Type = rapid.SampledFrom([]int{2, 5, 6, 2, 5, 1, 8}).Draw(t, "type")
					if r.On == 1 && rapid.Bool().Draw(t, "offer") {
						r.Type = 2
					}
					if r.On == 3 && rapid.Bool().Draw(t, "ack") {
						r.Type = 5
					}
				}
				r.Xid = rapid.SampledFrom([]int{0, 0, 0, 0, 1}).Draw(t, "xid")
				r.SID = rapid.SampledFrom([]int{0, 0, 0, 1, 2, 3}).Draw(t, "sid")
				r.PadTo = rapid.SampledFrom([]int{0, 0, 0, 0, 0, 576, 1499, 1500}).Draw(t, "padto")
				r.HW = rapid.SampledFrom([]int{0, 0, 0, 0, 0, 0, 1, 2, 3, 4, 5, 6}).Draw(t, "hw")
				if c.V6 && r.HW > 1 {
					r.HW = 1 // (v6 re-uses this field as "carries no IA_NA")
				}
				r.Op = rapid.SampledFrom([]int{0, 0, 0, 0, 1}).Draw(t, "opc")
				r.Bad = rapid.IntRange(0, 9).Draw(t, "bad") == 0
				r.Dup = rapid.IntRange(0, 5).Draw(t, "dup") == 0
				r.Yi = []byte{192, 168, byte(s), byte(rapid.IntRange(1, 250).Draw(t, "yi"))}
				c13Hostile(t, &r, s)
				// delay ≡ 1 (mod 8), residues mod T distinct across all replies (the duplicate copy uses +4)
				var res int
				for tries := 0; ; tries++ {
					res = 1 + 8*rapid.IntRange(0, c.T/8-1).Draw(t, "res")
					if !used[res] || tries > 20 {
						break
					}
				}
				used[res] = true
				r.Delay = res + c.T*rapid.SampledFrom([]int{0, 0, 0, 1, 2}).Draw(t, "late")
				rs = append(rs, r)
			}
			// a cooperative core so that complete exchanges are common: a proper answer to the first
			// message and (usually) a proper answer to the second one, among the hostile replies
			if rapid.IntRange(0, 9).Draw(t, "coop") < 7 {
				pick := func() int {
					var res int
					for tries := 0; ; tries++ {
						res = 1 + 8*rapid.IntRange(0, c.T/8-1).Draw(t, "cres")
						if !used[res] || tries > 20 {
							break
						}
					}
					used[res] = true
					return res
				}
				first := c13Reply{On: 1, Type: 2, OnlyTx: rapid.SampledFrom([]int{-1, -1, -1, 1, 2}).Draw(t, "firsttx"), Delay: pick(), Yi: []byte{10, 1, byte(s), 7},
					SID: rapid.SampledFrom([]int{0, 0, 0, 0, 3, 1}).Draw(t, "coopsid"), PadTo: rapid.SampledFrom([]int{0, 0, 0, 1500}).Draw(t, "cooppad")}
				if c.V6 && c.Op == 1 && rapid.Bool().Draw(t, "rapidreply") {
					first.Type = 7
				}
				first.Op = rapid.SampledFrom([]int{0, 0, 1}).Draw(t, "pd") * boolInt(c.V6)
				rs = append(rs, first)
				if rapid.IntRange(0, 9).Draw(t, "second") < 8 {
					second := c13Reply{On: 3, Type: 5, OnlyTx: rapid.SampledFrom([]int{-1, -1, -1, 1}).Draw(t, "secondtx"), Delay: pick(), Yi: []byte{10, 1, byte(s), byte(rapid.SampledFrom([]int{7, 8}).Draw(t, "ackyi"))},
						SID: first.SID, PadTo: rapid.SampledFrom([]int{0, 0, 0, 1500}).Draw(t, "cooppad2")}
					if c.V6 {
						second.Type = 7
					} else if rapid.IntRange(0, 4).Draw(t, "nak") == 0 {
						second.Type = 6
					}
					c13Hostile(t, &second, s)
					rs = append(rs, second)
				}
				c13Hostile(t, &first, s)
				// shuffle so that the cooperative replies are not always last in the list
				rs = rapid.Permutation(rs).Draw(t, "order")
			}
			c.Servers = append(c.Servers, rs)
		}
		return c
	})
}

// c13Hostile fills the header fields that carry no meaning for the exchange with what a sloppy or hostile server
// might put there: a stray client address (zero, the offered one, another one), a foreign or empty siaddr, a relay
// address, the broadcast flag, a server name.
func c13Hostile(t *rapid.T, r *c13Reply, s int) {
	switch rapid.IntRange(0, 7).Draw(t, "ci") {
	case 0:
		r.Ci = []byte{172, 16, byte(s), byte(rapid.IntRange(1, 250).Draw(t, "ciaddr"))}
	case 1:
		r.Ci = append([]byte{}, r.Yi...)
	case 2:
		r.Ci = []byte{0, 0, 0, 0}
	}
	if rapid.IntRange(0, 2).Draw(t, "life") == 0 {
		for i := range r.Life {
			r.Life[i] = rapid.SampledFrom([]uint32{0, 1, 3600, 0x7fffffff, 0x80000000, 0xfffffffe, 0xffffffff, 0xffffffff}).Draw(t, "lifetime")
		}
	}
	r.Si = rapid.SampledFrom([]int{0, 0, 0, 1, 2}).Draw(t, "si")
	if rapid.IntRange(0, 5).Draw(t, "gi") == 0 {
		r.Gi = []byte{10, 99, byte(s), 1}
	}
	r.Bcast = rapid.IntRange(0, 3).Draw(t, "bcast") == 0
	r.Layout = rapid.SampledFrom([]int{0, 0, 0, 1, 2, 3, 4, 5}).Draw(t, "layout")
	if rapid.IntRange(0, 5).Draw(t, "sname") == 0 {
		r.Sname = "srv" + fmt.Sprint(s)
	}
}

func TestC13_Rapid(t *testing.T) {
	curT = t
	c13.rapidCheck(t, genC13())
}

func boolInt(b bool) int {
	if b {
		return 1
	}
	return 0
}
