package refv6

import (
	"verif/ref/refv4"
)

func p16(b []byte, v uint64) []byte { return append(b, byte(v>>8), byte(v)) }
func p32(b []byte, v uint64) []byte { return append(b, byte(v>>24), byte(v>>16), byte(v>>8), byte(v)) }

// EncodeMsg writes the RFC wire layout of a message tree.
func EncodeMsg(m *Msg) []byte {
	var b []byte
	if m.Relay {
		b = append(b, m.Type, m.Hop)
		b = append(b, m.Link[:]...)
		b = append(b, m.Peer[:]...)
	} else {
		b = append(b, m.Type, m.Xid[0], m.Xid[1], m.Xid[2])
	}
	return append(b, EncodeOpts(m.Opts)...)
}

// EncodeOpts writes a list of options.
func EncodeOpts(opts []Opt) []byte {
	var b []byte
	for i := range opts {
		p := EncodeOpt(&opts[i])
		b = p16(b, uint64(opts[i].Code))
		b = p16(b, uint64(len(p)))
		b = append(b, p...)
	}
	return b
}

func bb(o *Opt, i int) []byte {
	if i < len(o.B) {
		return o.B[i]
	}
	return nil
}

func items(b []byte, it [][]byte) []byte {
	for _, x := range it {
		b = p16(b, uint64(len(x)))
		b = append(b, x...)
	}
	return b
}

// EncodeOpt writes one option payload from its typed fields.
func EncodeOpt(o *Opt) []byte {
	var b []byte
	switch o.Typ {
	case "duid":
		b = p16(b, o.N[0])
		switch o.N[0] {
		case 1:
			b = p16(b, o.N[1])
			b = p32(b, o.N[2])
		case 2:
			b = p32(b, o.N[1])
		case 3:
			b = p16(b, o.N[1])
		}
		b = append(b, bb(o, 0)...)
	case "iana", "iapd":
		b = append(b, bb(o, 0)...)
		b = p32(b, o.N[0])
		b = p32(b, o.N[1])
		b = append(b, EncodeOpts(o.Sub)...)
	case "iata":
		b = append(b, bb(o, 0)...)
		b = append(b, EncodeOpts(o.Sub)...)
	case "iaaddr":
		b = append(b, bb(o, 0)...)
		b = p32(b, o.N[0])
		b = p32(b, o.N[1])
		b = append(b, EncodeOpts(o.Sub)...)
	case "iaprefix":
		b = p32(b, o.N[0])
		b = p32(b, o.N[1])
		b = append(b, byte(o.N[2]))
		b = append(b, bb(o, 0)...)
		b = append(b, EncodeOpts(o.Sub)...)
	case "oro", "archs":
		for _, c := range o.N {
			b = p16(b, c)
		}
	case "elapsed", "relayport":
		b = p16(b, o.N[0])
	case "irt":
		b = p32(b, o.N[0])
	case "relaymsg":
		b = EncodeMsg(o.Msg)
	case "status":
		b = p16(b, o.N[0])
		b = append(b, bb(o, 0)...)
	case "userclass", "bootfileparam":
		b = items(b, o.B)
	case "vendorclass":
		b = p32(b, o.N[0])
		b = items(b, o.B)
	case "vendoropts":
		b = p32(b, o.N[0])
		b = append(b, EncodeOpts(o.Sub)...)
	case "ifaceid", "bootfileurl", "opaque", "ntpaddr", "ntpmcast":
		b = append(b, bb(o, 0)...)
	case "dns", "dhcp4o6server":
		for _, a := range o.B {
			b = append(b, a...)
		}
	case "domains", "ntpfqdn":
		b = append(b, bb(o, 0)...)
	case "fqdn":
		b = append(b, byte(o.N[0]))
		b = append(b, bb(o, 0)...)
	case "remoteid":
		b = p32(b, o.N[0])
		b = append(b, bb(o, 0)...)
	case "ntp", "4rd":
		b = EncodeOpts(o.Sub)
	case "nii":
		b = append(b, byte(o.N[0]), byte(o.N[1]), byte(o.N[2]))
	case "clientlla":
		b = p16(b, o.N[0])
		b = append(b, bb(o, 0)...)
	case "dhcpv4msg":
		b = refv4.Canonical(o.V4)
	case "4rdmap":
		b = append(b, byte(o.N[0]), byte(o.N[1]), byte(o.N[2]), byte(o.N[3]))
		b = append(b, bb(o, 0)...)
		b = append(b, bb(o, 1)...)
	case "4rdnonmap":
		b = append(b, byte(o.N[0]), byte(o.N[1]))
		b = p16(b, o.N[2])
	}
	return b
}
