package gen

import (
	"bytes"
	"fmt"
	"net"
	"reflect"
	"time"

	"github.com/insomniacslk/dhcp/dhcpv4"
	"github.com/insomniacslk/dhcp/dhcpv6"
	"github.com/insomniacslk/dhcp/iana"
	"github.com/insomniacslk/dhcp/rfc1035label"

	"verif/ref/refv4"
	"verif/ref/refv6"
)

// ---------------------------------------------------------------------------
// reference tree → library value (exported constructors and struct literals only)

func ip16(b []byte) net.IP { return net.IP(cpb16(b)) }

// Representation mode of the values ToLibMsgRepr builds (bit mask). Every mode builds a value that means the same and
// that the unchanged library encodes to the same bytes; they differ in how the caller spelled it:
//
//	1  the address of an all-zero IA prefix is left nil (&net.IPNet{Mask: …}: a pure length hint)
//	2  zero-length byte fields are nil instead of empty
//	4  every second option that has a dedicated type is held as *OptionGeneric with that option's bytes (relay
//	   message options excepted: the accessors for the inner message need the typed form)
//	8  byte fields and addresses are slices with spare capacity and foreign octets behind their length
var reprMode, reprCount int

// ToLibMsgRepr builds the library value of a reference tree in the given representation mode.
func ToLibMsgRepr(m *refv6.Msg, repr int) dhcpv6.DHCPv6 {
	old := reprMode
	reprMode, reprCount = repr, 0
	defer func() { reprMode = old }()
	return ToLibMsg(m)
}

func cpb16(b []byte) []byte {
	if reprMode&8 != 0 {
		return spare(b)
	}
	return append([]byte{}, b...)
}

func spare(b []byte) []byte {
	x := make([]byte, len(b)+16)
	copy(x, b)
	for i := len(b); i < len(x); i++ {
		x[i] = 0xEE
	}
	return x[:len(b)]
}

func secs(n uint64) time.Duration { return time.Duration(n) * time.Second }

// ToLibMsg builds the library value of a reference message tree.
func ToLibMsg(m *refv6.Msg) dhcpv6.DHCPv6 {
	if m.Relay {
		r := &dhcpv6.RelayMessage{MessageType: dhcpv6.MessageType(m.Type), HopCount: m.Hop, LinkAddr: ip16(m.Link[:]), PeerAddr: ip16(m.Peer[:])}
		for i := range m.Opts {
			r.Options.Add(ToLibOpt(&m.Opts[i]))
		}
		return r
	}
	msg := &dhcpv6.Message{MessageType: dhcpv6.MessageType(m.Type), TransactionID: dhcpv6.TransactionID(m.Xid)}
	for i := range m.Opts {
		msg.Options.Add(ToLibOpt(&m.Opts[i]))
	}
	return msg
}

func toLibOpts(sub []refv6.Opt) dhcpv6.Options {
	var o dhcpv6.Options
	for i := range sub {
		o = append(o, ToLibOpt(&sub[i]))
	}
	return o
}

func toLibDUID(o *refv6.Opt) dhcpv6.DUID {
	switch o.N[0] {
	case 1:
		return &dhcpv6.DUIDLLT{HWType: iana.HWType(o.N[1]), Time: uint32(o.N[2]), LinkLayerAddr: net.HardwareAddr(cpb(o.B[0]))}
	case 2:
		return &dhcpv6.DUIDEN{EnterpriseNumber: uint32(o.N[1]), EnterpriseIdentifier: cpb(o.B[0])}
	case 3:
		return &dhcpv6.DUIDLL{HWType: iana.HWType(o.N[1]), LinkLayerAddr: net.HardwareAddr(cpb(o.B[0]))}
	case 4:
		d := &dhcpv6.DUIDUUID{}
		copy(d.UUID[:], o.B[0])
		return d
	}
	return &dhcpv6.DUIDOpaque{Type: dhcpv6.DUIDType(o.N[0]), Data: cpb(o.B[0])}
}

func cpb(b []byte) []byte {
	if len(b) == 0 && reprMode&2 != 0 {
		return nil
	}
	if reprMode&8 != 0 {
		return spare(b)
	}
	return append([]byte{}, b...)
}

func strs(bs [][]byte) []string {
	var s []string
	for _, b := range bs {
		s = append(s, string(b))
	}
	return s
}

func cpbs(bs [][]byte) [][]byte {
	var out [][]byte
	for _, b := range bs {
		out = append(out, cpb(b))
	}
	return out
}

func ips(bs [][]byte) []net.IP {
	var out []net.IP
	for _, b := range bs {
		out = append(out, ip16(b))
	}
	return out
}

// ToLibOpt builds one library option.
func ToLibOpt(o *refv6.Opt) dhcpv6.Option {
	x := toLibOptTyped(o)
	if reprMode&16 != 0 && o.Code == 9 {
		// (mode 16: the relay message option itself is held generic — only for checks that do not need the inner message)
		return &dhcpv6.OptionGeneric{OptionCode: x.Code(), OptionData: x.ToBytes()}
	}
	if reprMode&4 != 0 && o.Typ != "opaque" && o.Typ != "relaymsg" && o.Code != 9 {
		reprCount++
		if _, generic := x.(*dhcpv6.OptionGeneric); !generic && reprCount%2 == 0 {
			return &dhcpv6.OptionGeneric{OptionCode: x.Code(), OptionData: x.ToBytes()}
		}
	}
	return x
}

func toLibOptTyped(o *refv6.Opt) dhcpv6.Option {
	switch o.Typ {
	case "duid":
		if o.Code == 1 {
			return dhcpv6.OptClientID(toLibDUID(o))
		}
		return dhcpv6.OptServerID(toLibDUID(o))
	case "iana":
		x := &dhcpv6.OptIANA{T1: secs(o.N[0]), T2: secs(o.N[1])}
		copy(x.IaId[:], o.B[0])
		x.Options.Options = toLibOpts(o.Sub)
		return x
	case "iapd":
		x := &dhcpv6.OptIAPD{T1: secs(o.N[0]), T2: secs(o.N[1])}
		copy(x.IaId[:], o.B[0])
		x.Options.Options = toLibOpts(o.Sub)
		return x
	case "iata":
		x := &dhcpv6.OptIATA{}
		copy(x.IaId[:], o.B[0])
		x.Options.Options = toLibOpts(o.Sub)
		return x
	case "iaaddr":
		x := &dhcpv6.OptIAAddress{IPv6Addr: ip16(o.B[0]), PreferredLifetime: secs(o.N[0]), ValidLifetime: secs(o.N[1])}
		x.Options.Options = toLibOpts(o.Sub)
		return x
	case "iaprefix":
		x := &dhcpv6.OptIAPrefix{PreferredLifetime: secs(o.N[0]), ValidLifetime: secs(o.N[1])}
		if o.N[2] != 0 {
			x.Prefix = &net.IPNet{IP: ip16(o.B[0]), Mask: net.CIDRMask(int(o.N[2]), 128)}
			if reprMode&1 != 0 && bytes.Equal(o.B[0], make([]byte, 16)) {
				x.Prefix.IP = nil
			}
		}
		x.Options.Options = toLibOpts(o.Sub)
		return x
	case "oro":
		var codes []dhcpv6.OptionCode
		for _, c := range o.N {
			codes = append(codes, dhcpv6.OptionCode(c))
		}
		return dhcpv6.OptRequestedOption(codes...)
	case "archs":
		var a []iana.Arch
		for _, c := range o.N {
			a = append(a, iana.Arch(c))
		}
		return dhcpv6.OptClientArchType(a...)
	case "elapsed":
		return dhcpv6.OptElapsedTime(time.Duration(o.N[0]) * 10 * time.Millisecond)
	case "relayport":
		return dhcpv6.OptRelayPort(uint16(o.N[0]))
	case "irt":
		return dhcpv6.OptInformationRefreshTime(secs(o.N[0]))
	case "relaymsg":
		return dhcpv6.OptRelayMessage(ToLibMsg(o.Msg))
	case "status":
		return &dhcpv6.OptStatusCode{StatusCode: iana.StatusCode(o.N[0]), StatusMessage: string(o.B[0])}
	case "userclass":
		return &dhcpv6.OptUserClass{UserClasses: cpbs(o.B)}
	case "vendorclass":
		return &dhcpv6.OptVendorClass{EnterpriseNumber: uint32(o.N[0]), Data: cpbs(o.B)}
	case "vendoropts":
		return &dhcpv6.OptVendorOpts{EnterpriseNumber: uint32(o.N[0]), VendorOpts: toLibOpts(o.Sub)}
	case "ifaceid":
		return dhcpv6.OptInterfaceID(cpb(o.B[0]))
	case "bootfileurl":
		return dhcpv6.OptBootFileURL(string(o.B[0]))
	case "bootfileparam":
		return dhcpv6.OptBootFileParam(strs(o.B)...)
	case "dns":
		return dhcpv6.OptDNS(ips(o.B)...)
	case "dhcp4o6server":
		return &dhcpv6.OptDHCP4oDHCP6Server{DHCP4oDHCP6Servers: ips(o.B)}
	case "domains":
		return dhcpv6.OptDomainSearchList(&rfc1035label.Labels{Labels: append([]string{}, o.Names...)})
	case "fqdn":
		return &dhcpv6.OptFQDN{Flags: uint8(o.N[0]), DomainName: &rfc1035label.Labels{Labels: append([]string{}, o.Names...)}}
	case "remoteid":
		return &dhcpv6.OptRemoteID{EnterpriseNumber: uint32(o.N[0]), RemoteID: cpb(o.B[0])}
	case "ntp":
		return &dhcpv6.OptNTPServer{Suboptions: toLibOpts(o.Sub)}
	case "ntpaddr":
		a := dhcpv6.NTPSuboptionSrvAddr(ip16(o.B[0]))
		return &a
	case "ntpmcast":
		a := dhcpv6.NTPSuboptionMCAddr(ip16(o.B[0]))
		return &a
	case "ntpfqdn":
		return &dhcpv6.NTPSuboptionSrvFQDN{Labels: rfc1035label.Labels{Labels: append([]string{}, o.Names...)}}
	case "nii":
		return &dhcpv6.OptNetworkInterfaceID{Typ: dhcpv6.NetworkInterfaceType(o.N[0]), Major: uint8(o.N[1]), Minor: uint8(o.N[2])}
	case "clientlla":
		return dhcpv6.OptClientLinkLayerAddress(iana.HWType(o.N[0]), net.HardwareAddr(cpb(o.B[0])))
	case "dhcpv4msg":
		return &dhcpv6.OptDHCPv4Msg{Msg: RefV4ToLib(o.V4)}
	case "4rd":
		x := &dhcpv6.Opt4RD{}
		x.Options = toLibOpts(o.Sub)
		return x
	case "4rdmap":
		return &dhcpv6.Opt4RDMapRule{
			Prefix4:       net.IPNet{IP: net.IP(cpb(o.B[0])), Mask: net.CIDRMask(int(o.N[0]), 32)},
			Prefix6:       net.IPNet{IP: ip16(o.B[1]), Mask: net.CIDRMask(int(o.N[1]), 128)},
			EABitsLength:  uint8(o.N[2]),
			WKPAuthorized: o.N[3]&0x80 != 0,
		}
	case "4rdnonmap":
		x := &dhcpv6.Opt4RDNonMapRule{HubAndSpoke: o.N[0]&0x80 != 0, DomainPMTU: uint16(o.N[2])}
		if o.N[0]&1 != 0 {
			tc := uint8(o.N[1])
			x.TrafficClass = &tc
		}
		return x
	}
	return &dhcpv6.OptionGeneric{OptionCode: dhcpv6.OptionCode(o.Code), OptionData: cpb(bb0(o))}
}

func bb0(o *refv6.Opt) []byte {
	if len(o.B) > 0 {
		return o.B[0]
	}
	return nil
}

// RefV4ToLib builds a library DHCPv4 packet from a reference packet.
func RefV4ToLib(p *refv4.Packet) *dhcpv4.DHCPv4 {
	q := &dhcpv4.DHCPv4{OpCode: dhcpv4.OpcodeType(p.Op), HWType: iana.HWType(p.HType), HopCount: p.Hops, TransactionID: dhcpv4.TransactionID(p.Xid),
		NumSeconds: p.Secs, Flags: p.Flags, ClientIPAddr: net.IP(cpb(p.CI[:])), YourIPAddr: net.IP(cpb(p.YI[:])), ServerIPAddr: net.IP(cpb(p.SI[:])),
		GatewayIPAddr: net.IP(cpb(p.GI[:])), ClientHWAddr: net.HardwareAddr(cpb(p.CHAddr)), ServerHostName: p.SName, BootFileName: p.File, Options: dhcpv4.Options{}}
	for k, v := range p.Opts {
		q.Options[k] = cpb(v)
	}
	return q
}

// ---------------------------------------------------------------------------
// library value → reference tree (through exported fields, typed accessors and
// option-level ToBytes of leaf types; never through the library's decoder)

func fieldOf(v any, name string) reflect.Value {
	rv := reflect.ValueOf(v)
	for rv.Kind() == reflect.Pointer || rv.Kind() == reflect.Interface {
		rv = rv.Elem()
	}
	return rv.FieldByName(name)
}

func to16(ip net.IP) []byte {
	if v := ip.To16(); v != nil {
		return cpb(v)
	}
	return make([]byte, 16)
}

func durSecs(d time.Duration) uint64 { return uint64(d / time.Second) }

// FromLibMsg extracts the reference tree of a library value.
func FromLibMsg(d dhcpv6.DHCPv6) (*refv6.Msg, error) {
	switch m := d.(type) {
	case *dhcpv6.Message:
		out := &refv6.Msg{Type: uint8(m.MessageType), Xid: [3]byte(m.TransactionID)}
		opts, err := fromLibOpts(m.Options.Options, refv6.Top)
		out.Opts = opts
		return out, err
	case *dhcpv6.RelayMessage:
		out := &refv6.Msg{Relay: true, Type: uint8(m.MessageType), Hop: m.HopCount}
		copy(out.Link[:], to16(m.LinkAddr))
		copy(out.Peer[:], to16(m.PeerAddr))
		opts, err := fromLibOpts(m.Options.Options, refv6.Top)
		out.Opts = opts
		return out, err
	}
	return nil, fmt.Errorf("unknown message type %T", d)
}

func fromLibOpts(opts dhcpv6.Options, sp refv6.Space) ([]refv6.Opt, error) {
	var out []refv6.Opt
	for _, o := range opts {
		x, err := FromLibOpt(o, sp)
		if err != nil {
			return nil, err
		}
		out = append(out, x)
	}
	return out, nil
}

func fromLibDUID(d dhcpv6.DUID, o *refv6.Opt) error {
	switch x := d.(type) {
	case *dhcpv6.DUIDLLT:
		o.N = []uint64{1, uint64(x.HWType), uint64(x.Time)}
		o.B = [][]byte{cpb(x.LinkLayerAddr)}
	case *dhcpv6.DUIDEN:
		o.N = []uint64{2, uint64(x.EnterpriseNumber)}
		o.B = [][]byte{cpb(x.EnterpriseIdentifier)}
	case *dhcpv6.DUIDLL:
		o.N = []uint64{3, uint64(x.HWType)}
		o.B = [][]byte{cpb(x.LinkLayerAddr)}
	case *dhcpv6.DUIDUUID:
		o.N = []uint64{4}
		o.B = [][]byte{cpb(x.UUID[:])}
	case *dhcpv6.DUIDOpaque:
		o.N = []uint64{uint64(x.Type)}
		o.B = [][]byte{cpb(x.Data)}
	default:
		return fmt.Errorf("unknown DUID type %T", d)
	}
	return nil
}

func ipsTo16(l []net.IP) [][]byte {
	var out [][]byte
	for _, ip := range l {
		out = append(out, to16(ip))
	}
	return out
}

func labelsOf(l *rfc1035label.Labels) ([]string, []byte) {
	if l == nil {
		return nil, nil
	}
	return append([]string{}, l.Labels...), cpb(l.ToBytes())
}

// FromLibOpt extracts one option.
func FromLibOpt(opt dhcpv6.Option, sp refv6.Space) (refv6.Opt, error) {
	o := refv6.Opt{Code: uint16(opt.Code()), Typ: "opaque"}
	switch x := opt.(type) {
	case *dhcpv6.OptionGeneric:
		// a generic option whose code has a typed form (a caller may hold it that way) reads as what its payload says,
		// by the independent reference reading; anything the reference does not accept or know stays opaque
		// (only for codes the library itself has a typed form for: its decoder never leaves those generic)
		if lo, err := dhcpv6.ParseOption(x.OptionCode, x.OptionData); err == nil && sp == refv6.Top {
			if _, generic := lo.(*dhcpv6.OptionGeneric); !generic {
				var why refv6.Reason
				if t, v := refv6.DecodeOpt(o.Code, x.OptionData, sp, nil, &why); v == refv6.Accept && t.Typ != "opaque" {
					return t, nil
				}
			}
		}
		o.B = [][]byte{cpb(x.OptionData)}
		return o, nil
	case *dhcpv6.OptIANA:
		o.Typ = "iana"
		o.B = [][]byte{cpb(x.IaId[:])}
		o.N = []uint64{durSecs(x.T1), durSecs(x.T2)}
		s, err := fromLibOpts(x.Options.Options, refv6.Top)
		o.Sub = s
		return o, err
	case *dhcpv6.OptIAPD:
		o.Typ = "iapd"
		o.B = [][]byte{cpb(x.IaId[:])}
		o.N = []uint64{durSecs(x.T1), durSecs(x.T2)}
		s, err := fromLibOpts(x.Options.Options, refv6.Top)
		o.Sub = s
		return o, err
	case *dhcpv6.OptIATA:
		o.Typ = "iata"
		o.B = [][]byte{cpb(x.IaId[:])}
		s, err := fromLibOpts(x.Options.Options, refv6.Top)
		o.Sub = s
		return o, err
	case *dhcpv6.OptIAAddress:
		o.Typ = "iaaddr"
		o.B = [][]byte{to16(x.IPv6Addr)}
		o.N = []uint64{durSecs(x.PreferredLifetime), durSecs(x.ValidLifetime)}
		s, err := fromLibOpts(x.Options.Options, refv6.Top)
		o.Sub = s
		return o, err
	case *dhcpv6.OptIAPrefix:
		o.Typ = "iaprefix"
		o.N = []uint64{durSecs(x.PreferredLifetime), durSecs(x.ValidLifetime), 0}
		o.B = [][]byte{make([]byte, 16)}
		if x.Prefix != nil {
			ones, _ := x.Prefix.Mask.Size()
			o.N[2] = uint64(ones)
			o.B[0] = to16(x.Prefix.IP)
		}
		s, err := fromLibOpts(x.Options.Options, refv6.Top)
		o.Sub = s
		return o, err
	case *dhcpv6.OptStatusCode:
		o.Typ = "status"
		o.N = []uint64{uint64(x.StatusCode)}
		o.B = [][]byte{[]byte(x.StatusMessage)}
		return o, nil
	case *dhcpv6.OptUserClass:
		o.Typ = "userclass"
		o.B = cpbs(x.UserClasses)
		return o, nil
	case *dhcpv6.OptVendorClass:
		o.Typ = "vendorclass"
		o.N = []uint64{uint64(x.EnterpriseNumber)}
		o.B = cpbs(x.Data)
		return o, nil
	case *dhcpv6.OptVendorOpts:
		o.Typ = "vendoropts"
		o.N = []uint64{uint64(x.EnterpriseNumber)}
		s, err := fromLibOpts(x.VendorOpts, refv6.Vendor)
		o.Sub = s
		return o, err
	case *dhcpv6.OptRemoteID:
		o.Typ = "remoteid"
		o.N = []uint64{uint64(x.EnterpriseNumber)}
		o.B = [][]byte{cpb(x.RemoteID)}
		return o, nil
	case *dhcpv6.OptFQDN:
		o.Typ = "fqdn"
		o.N = []uint64{uint64(x.Flags)}
		n, w := labelsOf(x.DomainName)
		o.Names, o.B = n, [][]byte{w}
		return o, nil
	case *dhcpv6.OptNTPServer:
		o.Typ = "ntp"
		s, err := fromLibOpts(x.Suboptions, refv6.NTP)
		o.Sub = s
		return o, err
	case *dhcpv6.NTPSuboptionSrvAddr:
		o.Typ = "ntpaddr"
		o.B = [][]byte{to16(net.IP(*x))}
		return o, nil
	case *dhcpv6.NTPSuboptionMCAddr:
		o.Typ = "ntpmcast"
		o.B = [][]byte{to16(net.IP(*x))}
		return o, nil
	case *dhcpv6.NTPSuboptionSrvFQDN:
		o.Typ = "ntpfqdn"
		n, w := labelsOf(&x.Labels)
		o.Names, o.B = n, [][]byte{w}
		return o, nil
	case *dhcpv6.OptNetworkInterfaceID:
		o.Typ = "nii"
		o.N = []uint64{uint64(x.Typ), uint64(x.Major), uint64(x.Minor)}
		return o, nil
	case *dhcpv6.OptDHCPv4Msg:
		o.Typ = "dhcpv4msg"
		o.V4 = LibV4ToRef(x.Msg)
		return o, nil
	case *dhcpv6.OptDHCP4oDHCP6Server:
		o.Typ = "dhcp4o6server"
		o.B = ipsTo16(x.DHCP4oDHCP6Servers)
		return o, nil
	case *dhcpv6.Opt4RD:
		o.Typ = "4rd"
		s, err := fromLibOpts(x.Options, refv6.Top)
		o.Sub = s
		return o, err
	case *dhcpv6.Opt4RDMapRule:
		o.Typ = "4rdmap"
		p4, _ := x.Prefix4.Mask.Size()
		p6, _ := x.Prefix6.Mask.Size()
		fl := uint64(0)
		if x.WKPAuthorized {
			fl = 0x80
		}
		o.N = []uint64{uint64(p4), uint64(p6), uint64(x.EABitsLength), fl}
		a4 := make([]byte, 4)
		if v := x.Prefix4.IP.To4(); v != nil {
			copy(a4, v)
		}
		o.B = [][]byte{a4, to16(x.Prefix6.IP)}
		return o, nil
	case *dhcpv6.Opt4RDNonMapRule:
		o.Typ = "4rdnonmap"
		fl, tc := uint64(0), uint64(0)
		if x.HubAndSpoke {
			fl |= 0x80
		}
		if x.TrafficClass != nil {
			fl |= 1
			tc = uint64(*x.TrafficClass)
		}
		o.N = []uint64{fl, tc, uint64(x.DomainPMTU)}
		return o, nil
	}
	// unexported option types: exported fields through reflection
	switch dhcpv6.OptionCode(o.Code) {
	case dhcpv6.OptionClientID, dhcpv6.OptionServerID:
		o.Typ = "duid"
		d, _ := fieldOf(opt, "DUID").Interface().(dhcpv6.DUID)
		return o, fromLibDUID(d, &o)
	case dhcpv6.OptionORO:
		o.Typ = "oro"
		for _, c := range fieldOf(opt, "OptionCodes").Interface().(dhcpv6.OptionCodes) {
			o.N = append(o.N, uint64(c))
		}
		return o, nil
	case dhcpv6.OptionClientArchType:
		o.Typ = "archs"
		for _, c := range fieldOf(opt, "Archs").Interface().(iana.Archs) {
			o.N = append(o.N, uint64(c))
		}
		return o, nil
	case dhcpv6.OptionElapsedTime:
		o.Typ = "elapsed"
		d := fieldOf(opt, "ElapsedTime").Interface().(time.Duration)
		o.N = []uint64{uint64(d / (10 * time.Millisecond))}
		return o, nil
	case dhcpv6.OptionRelayPort:
		o.Typ = "relayport"
		o.N = []uint64{fieldOf(opt, "DownstreamSourcePort").Uint()}
		return o, nil
	case dhcpv6.OptionInformationRefreshTime:
		o.Typ = "irt"
		o.N = []uint64{durSecs(fieldOf(opt, "InformationRefreshtime").Interface().(time.Duration))}
		return o, nil
	case dhcpv6.OptionRelayMsg:
		o.Typ = "relaymsg"
		inner, _ := fieldOf(opt, "Msg").Interface().(dhcpv6.DHCPv6)
		m, err := FromLibMsg(inner)
		o.Msg = m
		return o, err
	case dhcpv6.OptionInterfaceID:
		o.Typ = "ifaceid"
		o.B = [][]byte{cpb(fieldOf(opt, "ID").Bytes())}
		return o, nil
	case dhcpv6.OptionDNSRecursiveNameServer:
		o.Typ = "dns"
		o.B = ipsTo16(fieldOf(opt, "NameServers").Interface().([]net.IP))
		return o, nil
	case dhcpv6.OptionDomainSearchList:
		o.Typ = "domains"
		l, _ := fieldOf(opt, "DomainSearchList").Interface().(*rfc1035label.Labels)
		n, w := labelsOf(l)
		o.Names, o.B = n, [][]byte{w}
		return o, nil
	case dhcpv6.OptionBootfileURL:
		o.Typ = "bootfileurl"
		o.B = [][]byte{cpb(opt.ToBytes())} // unexported string field: the leaf's own bytes
		return o, nil
	case dhcpv6.OptionBootfileParam:
		o.Typ = "bootfileparam"
		raw := opt.ToBytes() // unexported field: items re-read from the leaf's own bytes
		for i := 0; i+2 <= len(raw); {
			l := int(raw[i])<<8 | int(raw[i+1])
			if i+2+l > len(raw) {
				return o, fmt.Errorf("bootfile param ToBytes does not tile")
			}
			o.B = append(o.B, cpb(raw[i+2:i+2+l]))
			i += 2 + l
		}
		return o, nil
	case dhcpv6.OptionClientLinkLayerAddr:
		o.Typ = "clientlla"
		o.N = []uint64{fieldOf(opt, "LinkLayerType").Uint()}
		o.B = [][]byte{cpb(fieldOf(opt, "LinkLayerAddress").Bytes())}
		return o, nil
	}
	return o, fmt.Errorf("library option type %T (code %d) unknown to the harness", opt, o.Code)
}

// LibV4ToRef reads a library DHCPv4 packet into a reference packet.
func LibV4ToRef(p *dhcpv4.DHCPv4) *refv4.Packet {
	if p == nil {
		return nil
	}
	r := &refv4.Packet{Op: uint8(p.OpCode), HType: uint8(p.HWType), HLen: uint8(len(p.ClientHWAddr)), Hops: p.HopCount, Xid: p.TransactionID,
		Secs: p.NumSeconds, Flags: p.Flags, CHAddr: cpb(p.ClientHWAddr), SName: p.ServerHostName, File: p.BootFileName, Opts: map[uint8][]byte{}}
	four := func(ip net.IP) (r [4]byte) {
		if v := ip.To4(); v != nil {
			copy(r[:], v)
		}
		return
	}
	r.CI, r.YI, r.SI, r.GI = four(p.ClientIPAddr), four(p.YourIPAddr), four(p.ServerIPAddr), four(p.GatewayIPAddr)
	for k, v := range p.Options {
		r.Opts[k] = cpb(v)
	}
	return r
}
