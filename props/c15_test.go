package props

import (
	"bytes"
	"encoding/binary"
	"fmt"
	"net"
	"testing"
	"time"

	"github.com/insomniacslk/dhcp/dhcpv4"
	"github.com/insomniacslk/dhcp/iana"
	"pgregory.net/rapid"

	"verif/gen"
	"verif/obs"
	"verif/ref/reflabel"
	"verif/ref/refv4"
)

// C15 — DHCPv4 reply and request builders correlate with the packet they answer.
//
// Oracle: an independent model of each builder (RFC 2131 defaults, then the
// models of the caller's modifiers in order). The built packet is encoded by
// the library, decoded by the independent decoder, and compared with the model.

type c15Mod struct {
	Kind  int      `json:"kind"`
	IP    obs.Hex  `json:"ip"`
	Code  uint8    `json:"code"`
	Val   obs.Hex  `json:"val"`
	U32   uint32   `json:"u32"`
	B     bool     `json:"b"`
	Strs  []string `json:"strs"`
	Codes obs.Hex  `json:"codes"`
}

type c15Case struct {
	Builder int        `json:"builder"` // 0 reply-from-request 1 request-from-offer 2 renew-from-ack 3 release-from-ack 4 inform 5 discovery
	In      gen.V4Case `json:"in"`
	ViaWire bool       `json:"via_wire"` // the input is encoded and decoded first (a received packet)
	HW      obs.Hex    `json:"hw"`
	IP      obs.Hex    `json:"ip"`
	Mods    []c15Mod   `json:"mods"`
	Spare   int        `json:"spare"` // spare capacity of the caller's modifier slice
	// Repr: how the caller spelled the input packet (same packet, same encoding): bit 1 a zero-length hardware address
	// is nil instead of empty; bit 2 the hardware address is a window of a larger array with foreign octets behind it;
	// bit 4 zero-length option values are nil instead of empty
	Repr int `json:"repr,omitempty"`
}

// model packet
type c15Model struct {
	op, htype, hops uint8
	xid             [4]byte
	xidKnown        bool
	flags           uint16
	ci, yi, si, gi  [4]byte
	chaddr          []byte
	opts            map[uint8][]byte
	grey            map[string]bool // fields the model does not decide
}

func ip4of(ip net.IP) [4]byte {
	var r [4]byte
	if v := ip.To4(); v != nil {
		copy(r[:], v)
	}
	return r
}

func (m *c15Model) prl() []byte { return m.opts[55] }
func (m *c15Model) addPRL(codes ...uint8) {
	cur := append([]byte{}, m.opts[55]...)
	for _, c := range codes {
		if bytes.IndexByte(cur, c) < 0 {
			cur = append(cur, c)
		}
	}
	m.opts[55] = cur
}

// withReply models RFC 2131 table 3/5 correlation: opposite opcode, same htype, xid, chaddr, flags.
func (m *c15Model) withReply(src *dhcpv4.DHCPv4) {
	if src.OpCode == dhcpv4.OpcodeBootRequest {
		m.op = 2
	} else {
		m.op = 1
	}
	m.htype = uint8(src.HWType)
	m.xid, m.xidKnown = src.TransactionID, true
	m.chaddr = append([]byte{}, src.ClientHWAddr...)
	m.flags = src.Flags
}

func (m *c15Model) copyOpt(src *dhcpv4.DHCPv4, code uint8) {
	if v := src.Options[code]; len(v) > 0 {
		m.opts[code] = append([]byte{}, v...)
	}
}

func c15Apply(m *c15Model, md c15Mod, src *dhcpv4.DHCPv4) dhcpv4.Modifier {
	ip := net.IP(append([]byte{}, md.IP...))
	if md.Kind >= 1 && md.Kind <= 4 && md.U32%5 == 0 {
		// the unspecified address spelled nil (one time in five): a caller clearing a field a default had set
		ip = nil
	}
	ip4 := ip4of(ip)
	switch md.Kind {
	case 0:
		var x dhcpv4.TransactionID
		binary.BigEndian.PutUint32(x[:], md.U32)
		m.xid, m.xidKnown = x, true
		return dhcpv4.WithTransactionID(x)
	case 1:
		m.ci = ip4
		return dhcpv4.WithClientIP(ip)
	case 2:
		m.yi = ip4
		return dhcpv4.WithYourIP(ip)
	case 3:
		m.si = ip4
		return dhcpv4.WithServerIP(ip)
	case 4:
		m.gi = ip4
		return dhcpv4.WithGatewayIP(ip)
	case 5:
		m.copyOpt(src, md.Code)
		return dhcpv4.WithOptionCopied(src, dhcpv4.GenericOptionCode(md.Code))
	case 6:
		m.withReply(src)
		return dhcpv4.WithReply(src)
	case 24:
		// WithReply with ANOTHER packet as the peer (request- or reply-typed), applied to whatever the packet is by then
		peer := &dhcpv4.DHCPv4{OpCode: dhcpv4.OpcodeType(1 + md.U32%2), HWType: iana.HWType(uint8(md.U32 >> 8)), Flags: uint16(md.U32>>16) & 0x8000,
			ClientHWAddr: net.HardwareAddr(append([]byte{}, md.Val...)), Options: dhcpv4.Options{}}
		if len(peer.ClientHWAddr) > 16 {
			peer.ClientHWAddr = peer.ClientHWAddr[:16]
		}
		copy(peer.TransactionID[:], md.IP)
		m.withReply(peer)
		return dhcpv4.WithReply(peer)
	case 7:
		m.htype = uint8(md.U32)
		return dhcpv4.WithHWType(iana.HWType(uint8(md.U32)))
	case 8:
		if md.B {
			m.flags |= 0x8000
		} else {
			m.flags &^= 0x8000
		}
		return dhcpv4.WithBroadcast(md.B)
	case 9:
		hw := append([]byte{}, md.Val...)
		if len(hw) > 16 {
			hw = hw[:16]
		}
		m.chaddr = hw
		return dhcpv4.WithHwAddr(net.HardwareAddr(hw))
	case 10:
		m.opts[md.Code] = append([]byte{}, md.Val...)
		return dhcpv4.WithOption(dhcpv4.OptGeneric(dhcpv4.GenericOptionCode(md.Code), append([]byte{}, md.Val...)))
	case 11:
		m.opts[md.Code] = append([]byte{}, md.Val...)
		return dhcpv4.WithGeneric(dhcpv4.GenericOptionCode(md.Code), append([]byte{}, md.Val...))
	case 12:
		delete(m.opts, md.Code)
		return dhcpv4.WithoutOption(dhcpv4.GenericOptionCode(md.Code))
	case 13:
		uc := "userclass"
		if len(md.Strs) > 0 && len(md.Strs[0]) > 0 {
			uc = md.Strs[0]
		}
		if len(uc) > 200 {
			uc = uc[:200]
		}
		if md.B {
			m.opts[77] = append([]byte{byte(len(uc))}, uc...)
		} else {
			m.opts[77] = []byte(uc)
		}
		return dhcpv4.WithUserClass(uc, md.B)
	case 14:
		m.addPRL(66, 67)
		return dhcpv4.WithNetboot
	case 15:
		m.opts[53] = []byte{byte(md.U32)}
		return dhcpv4.WithMessageType(dhcpv4.MessageType(byte(md.U32)))
	case 16:
		// option codes of the library's own code type (what its constants and decoded lists hold)
		var codes dhcpv4.OptionCodeList
		if err := codes.FromBytes(md.Codes); err != nil {
			panic(err)
		}
		m.addPRL(md.Codes...)
		return dhcpv4.WithRequestedOptions(codes...)
	case 17:
		m.flags &^= 0x8000
		m.gi = ip4
		m.hops++
		return dhcpv4.WithRelay(ip)
	case 18:
		m.opts[1] = append([]byte{}, md.IP...)
		return dhcpv4.WithNetmask(net.IPMask(append([]byte{}, md.IP...)))
	case 19:
		b := make([]byte, 4)
		binary.BigEndian.PutUint32(b, md.U32)
		m.opts[51] = b
		return dhcpv4.WithLeaseTime(md.U32)
	case 20:
		b := make([]byte, 4)
		binary.BigEndian.PutUint32(b, md.U32)
		m.opts[108] = b
		return dhcpv4.WithIPv6OnlyPreferred(md.U32)
	case 21:
		m.opts[119] = reflabel.Encode(md.Strs)
		return dhcpv4.WithDomainSearchList(md.Strs...)
	case 22:
		m.opts[3] = append([]byte{}, md.IP...)
		return dhcpv4.WithRouter(ip)
	default:
		m.opts[6] = append(append([]byte{}, md.IP...), 8, 8, 4, 4)
		return dhcpv4.WithDNS(ip, net.IP{8, 8, 4, 4})
	}
}

var c15 = newChk("C15", "builder-model",
	"generated input packets (C01 domain incl. any opcode/flags/addresses, with and without options 82, 61, 54, 55, empty-valued 82/61; optionally passed over the wire first) × builder (reply, request-from-offer, renew, release, inform, discovery) × 0..4 generated modifiers drawn from every exported With*; the built packet is encoded, decoded by the independent decoder and compared with an independent model (RFC defaults then modifiers in order); non-trivial = input carries option 82 or 61, or a modifier overrides a default; distinct by case hash",
	func(rec *obs.Rec, c c15Case) *obs.Fail {
		in := c.In.Lib()
		if c.Repr != 0 {
			enc0 := in.ToBytes()
			if c.Repr&1 != 0 && len(in.ClientHWAddr) == 0 {
				in.ClientHWAddr = nil
			}
			if c.Repr&2 != 0 && len(in.ClientHWAddr) > 0 {
				big := bytes.Repeat([]byte{0xEE}, len(in.ClientHWAddr)+24)
				copy(big, in.ClientHWAddr)
				in.ClientHWAddr = big[:len(in.ClientHWAddr)]
			}
			if c.Repr&4 != 0 {
				for k, v := range in.Options {
					if len(v) == 0 {
						in.Options[k] = nil
					}
				}
			}
			if !bytes.Equal(in.ToBytes(), enc0) {
				return obs.Failf("C15/harness/representation", "the same packet in another spelling encodes the same", "differs at byte %d", firstDiff(in.ToBytes(), enc0))
			}
		}
		if c.ViaWire {
			q, err := dhcpv4.FromBytes(in.ToBytes())
			if err != nil {
				return obs.Failf("C15/harness/decode", "own encoding decodes", "%v", err)
			}
			in = q
		}
		m := &c15Model{op: 1, htype: 1, chaddr: make([]byte, 6), opts: map[uint8][]byte{}, grey: map[string]bool{}}
		hw := net.HardwareAddr(append([]byte{}, c.HW...))
		lip := net.IP(append([]byte{}, c.IP...))
		// defaults of the builder (the model)
		switch c.Builder {
		case 0:
			m.withReply(in)
			m.gi = ip4of(in.GatewayIPAddr)
			m.copyOpt(in, 82)
			m.copyOpt(in, 61)
		case 1:
			m.withReply(in)
			m.opts[53] = []byte{3}
			m.ci = ip4of(in.ClientIPAddr)
			y := ip4of(in.YourIPAddr)
			m.opts[50] = y[:]
			if in.YourIPAddr == nil {
				m.grey["opt50"] = true // requested address of an offer without yiaddr: not decided
			}
			m.copyOpt(in, 54)
			m.addPRL(1, 3, 15, 6)
		case 2:
			m.withReply(in)
			m.opts[53] = []byte{3}
			m.ci = ip4of(in.YourIPAddr)
			m.flags &^= 0x8000
			m.addPRL(1, 3, 15, 6)
		case 3:
			m.opts[53] = []byte{7}
			m.ci = ip4of(in.YourIPAddr)
			m.chaddr = append([]byte{}, in.ClientHWAddr...)
			m.flags &^= 0x8000
			m.copyOpt(in, 54)
		case 4:
			m.chaddr = append([]byte{}, hw...)
			m.opts[53] = []byte{8}
			m.ci = ip4of(lip)
		case 5:
			m.chaddr = append([]byte{}, hw...)
			m.addPRL(1, 3, 15, 6)
			m.opts[53] = []byte{1}
		}
		override := false
		// the caller's modifier slice may have spare capacity (Spare) and is passed to the builder twice
		mods := make([]dhcpv4.Modifier, 0, len(c.Mods)+c.Spare)
		for _, md := range c.Mods {
			mods = append(mods, c15Apply(m, md, in))
			override = true
		}
		build := func() (*dhcpv4.DHCPv4, error) {
			switch c.Builder {
			case 0:
				return dhcpv4.NewReplyFromRequest(in, mods...)
			case 1:
				return dhcpv4.NewRequestFromOffer(in, mods...)
			case 2:
				return dhcpv4.NewRenewFromAck(in, mods...)
			case 3:
				return dhcpv4.NewReleaseFromACK(in, mods...)
			case 4:
				return dhcpv4.NewInform(hw, lip, mods...)
			}
			return dhcpv4.NewDiscovery(hw, mods...)
		}
		out, err := build()
		if err != nil {
			return obs.Failf("C15/builder-error", "a packet", "error %v", err)
		}
		enc := out.ToBytes()
		// a second use of the same modifier slice gives the same packet (transaction id aside when it is random)
		if out2, err2 := build(); err2 != nil {
			return obs.Failf("C15/builder-error", "a packet on the second use of the modifier slice", "error %v", err2)
		} else {
			if !m.xidKnown {
				out2.TransactionID = out.TransactionID
			}
			if e2 := out2.ToBytes(); !bytes.Equal(e2, enc) {
				return obs.Failf(fmt.Sprintf("C15/b%d/second-use", c.Builder), "the same packet when the builder is called again with the same modifier slice", "differs at byte %d", firstDiff(e2, enc))
			}
		}
		// a packet that was built stays what it is while further packets are built from OTHER inputs (another client's
		// request with another hardware address, transaction id and relay) through every builder
		other := c.In.Lib()
		other.ClientHWAddr = net.HardwareAddr{0xde, 0xad, 0xbe, 0xef, 0x00, 0x01}[:max(1, min(6, len(in.ClientHWAddr)))]
		other.TransactionID[0] ^= 0xff
		other.GatewayIPAddr = net.IP{198, 51, 100, 7}
		other.YourIPAddr = net.IP{198, 51, 100, 8}
		other.Options[82] = []byte{1, 3, 'x', 'y', 'z'}
		other.Options[61] = []byte{0, 'o', 't', 'h', 'e', 'r'}
		for _, b := range []func(*dhcpv4.DHCPv4, ...dhcpv4.Modifier) (*dhcpv4.DHCPv4, error){dhcpv4.NewReplyFromRequest, dhcpv4.NewRequestFromOffer, dhcpv4.NewRenewFromAck, dhcpv4.NewReleaseFromACK} {
			if o, err := b(other); err == nil {
				_ = o.ToBytes()
			}
		}
		if e3 := out.ToBytes(); !bytes.Equal(e3, enc) {
			return obs.Failf(fmt.Sprintf("C15/b%d/earlier-result-changed", c.Builder), "a built packet is unchanged by later builds from other inputs", "differs at byte %d", firstDiff(e3, enc))
		}
		got, why := refv4.Decode(enc)
		if why != refv4.OK {
			return obs.Failf("C15/unreadable", "independent decoder accepts the built packet", "%s", why)
		}
		tag := fmt.Sprintf("C15/b%d", c.Builder)
		bad := func(field string, w, g any) *obs.Fail {
			return obs.Failf(tag+"/"+field, fmt.Sprintf("%s = %v", field, w), "%v", g)
		}
		switch {
		case got.Op != m.op:
			return bad("op", m.op, got.Op)
		case got.HType != m.htype:
			return bad("htype", m.htype, got.HType)
		case got.Hops != m.hops:
			return bad("hops", m.hops, got.Hops)
		case m.xidKnown && got.Xid != m.xid:
			return bad("xid", m.xid, got.Xid)
		case got.Flags != m.flags:
			return bad("flags", m.flags, got.Flags)
		case got.CI != m.ci:
			return bad("ciaddr", m.ci, got.CI)
		case got.YI != m.yi:
			return bad("yiaddr", m.yi, got.YI)
		case got.SI != m.si:
			return bad("siaddr", m.si, got.SI)
		case got.GI != m.gi:
			return bad("giaddr", m.gi, got.GI)
		case !bytes.Equal(got.CHAddr, m.chaddr):
			return bad("chaddr", hx(m.chaddr), hx(got.CHAddr))
		}
		wantOpts := map[uint8][]byte{}
		for k, v := range m.opts {
			wantOpts[k] = v
		}
		gotOpts := dhcpv4.Options{}
		for k, v := range got.Opts {
			gotOpts[k] = v
		}
		if m.grey["opt50"] {
			delete(wantOpts, 50)
			delete(gotOpts, 50)
		}
		if f := cmpOptMap(tag, wantOpts, gotOpts); f != nil {
			return f
		}
		_, h82 := c.In.Ref().Opts[82]
		_, h61 := c.In.Ref().Opts[61]
		if h82 {
			rec.Class("input has option 82")
		}
		if h61 {
			rec.Class("input has option 61")
		}
		rec.Class(fmt.Sprintf("builder %d", c.Builder))
		if h82 || h61 || override {
			rec.NonTrivial(obs.HashJSON(c), func() any {
				return map[string]any{"builder": c.Builder, "input": summarizeV4(c.In), "via_wire": c.ViaWire, "mods": len(c.Mods)}
			})
		}
		return nil
	})

func genC15() *rapid.Generator[c15Case] {
	return rapid.Custom(func(t *rapid.T) c15Case {
		c := c15Case{Builder: rapid.IntRange(0, 5).Draw(t, "builder"), ViaWire: rapid.Bool().Draw(t, "wire")}
		in := gen.V4Packet(5, 300).Draw(t, "in")
		// steer options 82, 61, 54, 55 and empty values in
		have := map[uint8]bool{}
		for _, o := range in.Opts {
			have[o.Code] = true
		}
		for _, code := range []uint8{82, 61, 54, 55} {
			if have[code] {
				continue
			}
			switch rapid.IntRange(0, 3).Draw(t, "steer") {
			case 0:
				var v []byte
				switch code {
				case 54:
					v = rapid.SliceOfN(rapid.Byte(), 4, 4).Draw(t, "sid")
				case 82:
					// non-canonical sub-option runs must be echoed byte for byte as well
					v = rapid.SampledFrom([][]byte{{2, 1, 0xbb, 1, 2, 0xaa, 0xab}, {1, 1, 1, 1, 1, 2}, {1, 3, 'a', 'b', 'c'}, {1, 1, 0, 0, 2, 1, 9}, {7, 200}}).Draw(t, "rai")
				default:
					v = gen.Fill(t, rapid.IntRange(1, 20).Draw(t, "n"), "v")
				}
				in.Opts = append(in.Opts, gen.V4Opt{Code: code, Val: v})
			case 1:
				if code == 82 || code == 61 {
					in.Opts = append(in.Opts, gen.V4Opt{Code: code, Val: []byte{}})
				}
			}
		}
		if rapid.IntRange(0, 5).Draw(t, "nohw") == 0 {
			in.CHAddr = nil // no hardware address at all (hlen 0)
		}
		c.Repr = rapid.SampledFrom([]int{0, 0, 0, 1, 2, 4, 5, 6, 7}).Draw(t, "repr")
		c.In = in
		c.HW = gen.Fill(t, rapid.SampledFrom([]int{6, 6, 0, 8, 16}).Draw(t, "hwlen"), "hw")
		c.IP = rapid.SliceOfN(rapid.Byte(), 4, 4).Draw(t, "lip")
		c.Spare = rapid.SampledFrom([]int{0, 0, 1, 3, 4, 8, 16}).Draw(t, "spare")
		n := rapid.IntRange(0, 4).Draw(t, "nmods")
		for i := 0; i < n; i++ {
			md := c15Mod{Kind: rapid.IntRange(0, 24).Draw(t, "kind"), IP: rapid.SliceOfN(rapid.Byte(), 4, 4).Draw(t, "ip"),
				U32: rapid.Uint32().Draw(t, "u32"), B: rapid.Bool().Draw(t, "b")}
			if rapid.Bool().Draw(t, "smalltype") {
				md.U32 = uint32(rapid.IntRange(0, 9).Draw(t, "msgtype")) // real message types (NAK, DECLINE, …) for WithMessageType
			}
			md.Code = rapid.SampledFrom([]uint8{53, 54, 55, 82, 61, 50, 51, 1, 12, 200}).Draw(t, "code")
			md.Val = gen.Fill(t, rapid.IntRange(0, 12).Draw(t, "vl"), "val")
			md.Codes = rapid.SliceOfN(rapid.SampledFrom([]byte{1, 3, 6, 15, 66, 67, 119, 252}), 0, 5).Draw(t, "codes")
			md.Strs = gen.Names(2).Draw(t, "names")
			c.Mods = append(c.Mods, md)
		}
		return c
	})
}

func TestC15_Rapid(t *testing.T) { c15.rapidCheck(t, genC15()) }

var _ = time.Second
