#!/bin/bash
# usage: tools/try_mut.sh <file> <site> <check-id>...   — one automatic mutant on a scratch copy, then the named quick checks
f=$1; n=$2; shift 2
W=/tmp/trymut-$$; rm -rf $W; rsync -a --exclude .git /repo/ $W/
trap "rm -rf $W" EXIT
/verif/work/bin/automut -file /repo/$f -site $n -out $W/$f || exit 3
diff <(gofmt /repo/$f) <(gofmt $W/$f) | head -8
for c in "$@"; do
  out=$(cd /verif && VERIF_REPO=$W ./check $c quick 2>&1); rc=$?
  echo "== $c exit $rc $(echo "$out" | grep -E '^VIOLATION' | head -2 | sed 's/.*sig=/sig=/' | tr '\n' ' ')"
done
