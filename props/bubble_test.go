package props

import (
	"fmt"
	"runtime/debug"
	"testing"
	"testing/synctest"
)

// inBubble runs f inside a testing/synctest bubble (virtual time; every
// goroutine started in f must have exited when f returns, otherwise the
// bubble reports a deadlock). It returns a description of a panic or deadlock,
// or "". The outer *testing.T is only used to host the bubble.
func inBubble(t *testing.T, f func()) (problem string) {
	defer func() {
		if p := recover(); p != nil {
			problem = fmt.Sprintf("%v", p)
		}
	}()
	synctest.Test(t, func(_ *testing.T) {
		defer func() {
			if p := recover(); p != nil {
				problem = fmt.Sprintf("panic in bubble: %v\n%s", p, clipS(string(debug.Stack())))
			}
		}()
		f()
	})
	return problem
}
