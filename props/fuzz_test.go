package props

import (
	"testing"

	"pgregory.net/rapid"

	"verif/gen"
	"verif/obs"
)

// Coverage-guided campaigns (thorough tier only; native fuzzing cannot be seeded, the saved input is the
// reproducible unit). Two shapes:
//   - byte-level targets: the fuzzer's bytes ARE the wire input (plus a selector byte), the property's oracle runs
//     inside the target;
//   - generator-level targets (rapid.MakeFuzz): the fuzzer's bytes drive the same structured generators the rapid
//     tier uses, so coverage feedback steers packet values, construction programs and frame sequences.
// A failing case is written as the usual pending replay file by chk.one, so the driver reports it like any other.

func (ck *chk[C]) fuzzCheck(f *testing.F, g *rapid.Generator[C]) {
	f.Fuzz(rapid.MakeFuzz(func(rt *rapid.T) { ck.one(rt, g.Draw(rt, "case")) }))
}

func FuzzC01_Packets(f *testing.F) { c01.fuzzCheck(f, gen.V4Packet(12, 4096)) }

func FuzzC02_Trees(f *testing.F) {
	if err := v6Cov().err; err != nil {
		f.Fatalf("cannot extract the option list from the source tree: %v", err)
	}
	c02.fuzzCheck(f, genV6Wire(v6Cfg(40, 20, true)))
}

func FuzzC07_Programs(f *testing.F) { c07.fuzzCheck(f, genC07()) }

// FuzzC08_Bytes: raw bytes decoded as DHCPv6 (sel even) or DHCPv4 (sel odd), scribbled over with pattern sel/2.
func FuzzC08_Bytes(f *testing.F) {
	f.Add([]byte{1, 0xaa, 0xbb, 0xcc, 0, 24, 0, 3, 1, 'a', 0, 0, 56, 0, 9, 0, 3, 0, 5, 1, 'n', 1, 't', 0}, byte(4))
	f.Add(append(v4Prefix(), 53, 1, 1, 119, 3, 1, 'a', 0, 255), byte(5))
	f.Fuzz(func(t *testing.T, b []byte, sel byte) {
		if len(b) > 4096 {
			return
		}
		c08.one(t, c08Case{V6: sel%2 == 0, B: append([]byte{}, b...), Pattern: int(sel/2) % 5})
	})
}

// FuzzC09_Cost: raw bytes, the global cost caps (retained size and allocation per input byte and nesting level).
var c09fuzz = newChk("C09", "fuzz-cost",
	"coverage-guided byte strings ≤ 16 kB decoded (and re-encoded when accepted) as DHCPv6 or DHCPv4 under the global caps on retained size and allocation; non-trivial = input ≥ 256 bytes; distinct by input hash",
	func(rec *obs.Rec, c c06Case) *obs.Fail {
		m := c09Measure(c.V6, c.B)
		if f := c09Caps(m); f != nil {
			f.Sig += "/fuzzed"
			return f
		}
		if len(c.B) >= 256 {
			rec.NonTrivial(obs.Hash64(c.B), func() any { return map[string]any{"v6": c.V6, "len": len(c.B), "accepted": m.Accepted} })
		}
		return nil
	})

func FuzzC09_Cost(f *testing.F) {
	for fi := range c09Families {
		f.Add(c09Families[fi].Make(512, 0), c09Families[fi].V6)
	}
	f.Fuzz(func(t *testing.T, b []byte, v6 bool) {
		if len(b) > 16384 {
			return
		}
		c09fuzz.one(t, c06Case{V6: v6, B: append([]byte{}, b...)})
	})
}

func FuzzC15_Builders(f *testing.F) { c15.fuzzCheck(f, genC15()) }
func FuzzC16_Relay(f *testing.F)    { c16.fuzzCheck(f, genC16()) }

// FuzzC17_Accessors: sel picks the accessor, ctx the packet around the option, b is the raw option value.
func FuzzC17_Accessors(f *testing.F) {
	f.Add([]byte{10, 0, 0, 1}, byte(3), byte(1), uint64(1)<<31)
	f.Add([]byte{24, 10, 0, 0, 10, 0, 0, 1}, byte(20), byte(0), ^uint64(0))
	f.Fuzz(func(t *testing.T, b []byte, sel, hdr byte, bg uint64) {
		if len(b) > 255 {
			return
		}
		a := &c17tab[int(sel)%len(c17tab)]
		c17.one(t, c17Case{Acc: a.name, State: 0, Val: append([]byte{}, b...), Hdr: int(hdr % 4), Bg: bg})
	})
}

func FuzzC18_Frames(f *testing.F)   { c18r.fuzzCheck(f, genC18Read()) }
func FuzzC18_Writes(f *testing.F)   { c18w.fuzzCheck(f, genC18Write()) }
func FuzzC20_Programs(f *testing.F) { c20.fuzzCheck(f, genC20()) }
