package props

import (
	"bytes"
	"fmt"
	"net"
	"testing"
	"time"

	"github.com/insomniacslk/dhcp/dhcpv6"
	"pgregory.net/rapid"

	"verif/gen"
	"verif/obs"
	"verif/ref/refv6"
)

// C16 — DHCPv6 builders and relay encapsulation preserve identity and nesting.

type c16Level struct {
	Link    obs.Hex `json:"link"`
	Peer    obs.Hex `json:"peer"`
	HasIID  bool    `json:"has_iid"`
	IID     obs.Hex `json:"iid"`
	HasRID  bool    `json:"has_rid"`
	RIDEnt  uint32  `json:"rid_ent"`
	RID     obs.Hex `json:"rid"`
	Extra   bool    `json:"extra"`             // an unrelated option (relay port) at this level
	Generic int     `json:"generic,omitempty"` // bit 1 / 2 / 4: the interface-id / remote-id / relay-port option is held as *OptionGeneric with the same code and bytes
	Order   int     `json:"order,omitempty"`   // which permutation of this level's options (relay message, interface-id, relay port, remote-id) is used
}

type c16Case struct {
	Inner  obs.Hex    `json:"inner"` // reference encoding of a (non-relay) message
	Levels []c16Level `json:"levels"`
	Reply  obs.Hex    `json:"reply"`            // reference encoding of the reply placed innermost by the relay-reply builder
	Wire   bool       `json:"wire"`             // pass the chain over the wire before using it
	Poison int        `json:"poison,omitempty"` // >0: the builder is first given a chain of this depth whose innermost relay lacks its relay message (refused), then the real one
}

func treeOf(d dhcpv6.DHCPv6) *refv6.Msg {
	t, err := gen.FromLibMsg(d)
	if err != nil {
		panic(err)
	}
	return t
}

func sameTree(a, b dhcpv6.DHCPv6) string {
	p, w := refv6.Diff(treeOf(a), treeOf(b), true)
	if p == "" {
		return ""
	}
	return p + ": " + w
}

func relayLevels(d dhcpv6.DHCPv6) []*dhcpv6.RelayMessage {
	var out []*dhcpv6.RelayMessage
	for {
		r, ok := d.(*dhcpv6.RelayMessage)
		if !ok {
			return out
		}
		out = append(out, r)
		d = r.Options.RelayMessage()
		if d == nil {
			return out
		}
	}
}

var c16 = newChk("C16", "relay-chain",
	"relay chains of depth 1..16 with generated link/peer addresses and any subset of interface-id / remote-id (and an unrelated option) per level around generated inner messages of every message type, used in memory and after a trip over the wire: encapsulate/decapsulate identity, hop counts, innermost-message lookup at any depth, indexed decapsulation, and the relay-reply builder (same depth, per-level addresses, per-level echoed options, RELAY-REPL everywhere, given reply innermost); non-trivial = depth ≥3 or a level lacking one of the two options; distinct by case hash",
	func(rec *obs.Rec, c c16Case) *obs.Fail {
		cov := v6Cov()
		it, v := refv6.DecodeMsg(c.Inner, cov.skip, nil)
		rt, v2 := refv6.DecodeMsg(c.Reply, cov.skip, nil)
		if v != refv6.Accept || v2 != refv6.Accept || it.Relay || rt.Relay {
			return nil
		}
		inner := gen.ToLibMsg(it).(*dhcpv6.Message)
		reply := gen.ToLibMsg(rt).(*dhcpv6.Message)
		d := len(c.Levels)
		// depth 0: decapsulating something that is not a relay message gives it back (documented), at any index
		if back, err := dhcpv6.DecapsulateRelay(inner); err != nil || back != dhcpv6.DHCPv6(inner) {
			return obs.Failf("C16/decapsulate-plain-message", "the message itself", "err=%v", err)
		}
		for _, idx := range []int{-1, 0, 1, 7} {
			if back, err := dhcpv6.DecapsulateRelayIndex(inner, idx); err != nil || back != dhcpv6.DHCPv6(inner) {
				return obs.Failf("C16/decapsulate-index/plain-message", "the message itself", "index %d: err=%v got %v", idx, err, back)
			}
		}
		if im0, err := inner.GetInnerMessage(); err != nil || im0 != inner {
			return obs.Failf("C16/inner-message/plain-message", "the message itself", "err=%v", err)
		}
		// only the two relay message types encapsulate
		for _, mt := range []dhcpv6.MessageType{dhcpv6.MessageTypeSolicit, dhcpv6.MessageTypeReply, dhcpv6.MessageType(0), dhcpv6.MessageType(14), dhcpv6.MessageType(255)} {
			if out, err := dhcpv6.EncapsulateRelay(inner, mt, net.ParseIP("2001:db8::1"), net.ParseIP("fe80::1")); err == nil {
				return obs.Failf("C16/encapsulate/accepts-non-relay-type", "error for a message type that is neither RELAY-FORW nor RELAY-REPL", "type %d accepted: %v", mt, out)
			}
		}
		// build the RELAY-FORW chain level by level (Levels[0] is the innermost relay)
		var cur dhcpv6.DHCPv6 = inner
		for k, lv := range c.Levels {
			out, err := dhcpv6.EncapsulateRelay(cur, dhcpv6.MessageTypeRelayForward, net.IP(append([]byte{}, lv.Link...)), net.IP(append([]byte{}, lv.Peer...)))
			if err != nil {
				return obs.Failf("C16/encapsulate-error", "encapsulation succeeds", "%v", err)
			}
			if int(out.HopCount) != k {
				return obs.Failf("C16/hopcount", fmt.Sprintf("hop count %d at nesting level %d", k, k), "%d", out.HopCount)
			}
			back, err := dhcpv6.DecapsulateRelay(out)
			if err != nil || sameTree(back, cur) != "" {
				return obs.Failf("C16/decapsulate-identity", "decapsulate(encapsulate(m)) == m", "err=%v diff=%s", err, sameTree(back, cur))
			}
			// the agent's options, typed or (same code, same bytes) generic: a relay-forward assembled in memory by code
			// that does not know the typed forms is the same relay-forward
			add := func(o dhcpv6.Option, generic bool) {
				if generic {
					o = &dhcpv6.OptionGeneric{OptionCode: o.Code(), OptionData: o.ToBytes()}
				}
				out.AddOption(o)
			}
			if lv.HasIID {
				add(dhcpv6.OptInterfaceID(append([]byte{}, lv.IID...)), lv.Generic&1 != 0)
			}
			if lv.Extra {
				add(dhcpv6.OptRelayPort(1234), lv.Generic&4 != 0)
			}
			if lv.HasRID {
				add(&dhcpv6.OptRemoteID{EnterpriseNumber: lv.RIDEnt, RemoteID: append([]byte{}, lv.RID...)}, lv.Generic&2 != 0)
			}
			// relay agents put their options in any order: the relay message first, last or in between
			if n := len(out.Options.Options); lv.Order > 0 && n > 1 {
				ps := permutations(n)
				perm := ps[lv.Order%len(ps)]
				re := make(dhcpv6.Options, n)
				for a, b := range perm {
					re[a] = out.Options.Options[b]
				}
				out.Options.Options = re
			}
			cur = out
		}
		chain := cur
		if c.Wire {
			w, err := dhcpv6.FromBytes(chain.ToBytes())
			if err != nil {
				return obs.Failf("C16/wire-decode", "chain decodes after a trip over the wire", "%v (depth %d)", err, d)
			}
			if s := sameTree(w, chain); s != "" {
				return obs.Failf("C16/wire-identity", "same chain after the wire", "%s", s)
			}
			chain = w
		}
		// innermost message at any depth
		im, err := chain.GetInnerMessage()
		if err != nil || sameTree(im, inner) != "" {
			return obs.Failf("C16/inner-message", "innermost message found", "err=%v", err)
		}
		if xid, err := dhcpv6.GetTransactionID(chain); err != nil || xid != inner.TransactionID {
			return obs.Failf("C16/transaction-id", fmt.Sprintf("%x", inner.TransactionID), "%x err=%v", xid, err)
		}
		levels := relayLevels(chain)
		if len(levels) != d {
			return obs.Failf("C16/depth", fmt.Sprint(d), "%d", len(levels))
		}
		for k, r := range levels { // outermost first
			if int(r.HopCount) != d-1-k {
				return obs.Failf("C16/hopcount", fmt.Sprintf("hop count %d at outer level %d of %d", d-1-k, k, d), "%d", r.HopCount)
			}
		}
		last, err := dhcpv6.DecapsulateRelayIndex(chain, -1)
		if err != nil || last != dhcpv6.DHCPv6(levels[d-1]) {
			return obs.Failf("C16/decapsulate-index/-1", "the relay level that directly wraps the message", "err=%v got %v", err, last)
		}
		for i := 0; i < d; i++ {
			got, err := dhcpv6.DecapsulateRelayIndex(chain, i)
			var want dhcpv6.DHCPv6 = im
			if i+1 < d {
				want = levels[i+1]
			}
			if err != nil || got != want {
				return obs.Failf("C16/decapsulate-index", fmt.Sprintf("element %d of the chain", i+1), "err=%v got %v", err, got)
			}
		}
		// DecapsulateRelayIndex(chain, k) is DecapsulateRelay applied k+1 times (which hands a non-relay message back
		// unchanged), for every k — also beyond the end of the chain
		for k := 0; k <= d+2; k++ {
			var step dhcpv6.DHCPv6 = chain
			var serr error
			for n := 0; n <= k && serr == nil; n++ {
				step, serr = dhcpv6.DecapsulateRelay(step)
			}
			got, err := dhcpv6.DecapsulateRelayIndex(chain, k)
			if (err == nil) != (serr == nil) || (err == nil && got != step) {
				return obs.Failf("C16/decapsulate-index/stepwise", fmt.Sprintf("index %d of a chain of depth %d: the same element as %d single decapsulations", k, d, k+1), "err=%v stepwise err=%v same=%v", err, serr, got == step)
			}
		}
		// the payload of the innermost relay level is replaced after the lookups above: later lookups see the new message
		levels[d-1].UpdateOption(dhcpv6.OptRelayMessage(reply))
		if im2, err := chain.GetInnerMessage(); err != nil || sameTree(im2, reply) != "" {
			return obs.Failf("C16/inner-message-after-replacement", "the replaced innermost message", "err=%v, still the old one=%v", err, im2 == im)
		}
		if xid, err := dhcpv6.GetTransactionID(chain); err != nil || xid != reply.TransactionID {
			return obs.Failf("C16/transaction-id-after-replacement", fmt.Sprintf("%x", reply.TransactionID), "%x err=%v", xid, err)
		}
		if w, err := dhcpv6.FromBytes(chain.ToBytes()); err != nil {
			return obs.Failf("C16/wire-decode", "modified chain decodes", "%v", err)
		} else if wi, err := w.GetInnerMessage(); err != nil || sameTree(wi, reply) != "" {
			return obs.Failf("C16/inner-message-after-replacement/wire", "the replaced innermost message after the wire", "err=%v", err)
		}
		levels[d-1].UpdateOption(dhcpv6.OptRelayMessage(im)) // put the original back
		if im3, err := chain.GetInnerMessage(); err != nil || sameTree(im3, inner) != "" {
			return obs.Failf("C16/inner-message-after-replacement", "the original innermost message again", "err=%v", err)
		}
		// history: a chain the builder must refuse (its innermost relay carries no relay message) comes first
		if c.Poison > 0 {
			var bad dhcpv6.DHCPv6 = &dhcpv6.RelayMessage{MessageType: dhcpv6.MessageTypeRelayForward, LinkAddr: net.ParseIP("2001:db8::bad"), PeerAddr: net.ParseIP("fe80::bad")}
			bad.AddOption(dhcpv6.OptInterfaceID([]byte("poison")))
			for k := 1; k < c.Poison; k++ {
				o, err := dhcpv6.EncapsulateRelay(bad, dhcpv6.MessageTypeRelayForward, net.ParseIP("2001:db8::bad"), net.ParseIP("fe80::bad"))
				if err != nil {
					return obs.Failf("C16/encapsulate-error", "encapsulation succeeds", "%v", err)
				}
				o.AddOption(&dhcpv6.OptRemoteID{EnterpriseNumber: 666, RemoteID: []byte("poison")})
				bad = o
			}
			if _, err := dhcpv6.NewRelayReplFromRelayForw(bad.(*dhcpv6.RelayMessage), reply); err == nil {
				return obs.Failf("C16/relay-repl/accepts-chain-without-message", "error for a chain without an inner message", "accepted")
			}
		}
		// relay-reply builder; the relay-forward chain it reads is not its to change
		fwdBefore := chain.ToBytes()
		rr, err := dhcpv6.NewRelayReplFromRelayForw(chain.(*dhcpv6.RelayMessage), reply)
		if err != nil {
			return obs.Failf("C16/relay-repl/error", "a relay-reply chain", "%v", err)
		}
		if fwdAfter := chain.ToBytes(); !bytes.Equal(fwdBefore, fwdAfter) {
			return obs.Failf("C16/relay-repl/changed-its-input", "the relay-forward chain is unchanged by building the reply", "differs at byte %d", firstDiff(fwdBefore, fwdAfter))
		}
		rl := relayLevels(rr)
		if len(rl) != d {
			return obs.Failf("C16/relay-repl/depth", fmt.Sprint(d), "%d", len(rl))
		}
		for k := 0; k < d; k++ {
			lv := c.Levels[d-1-k] // outermost first
			r := rl[k]
			tag := fmt.Sprintf("level %d of %d (outermost first)", k, d)
			if r.MessageType != dhcpv6.MessageTypeRelayReply {
				return obs.Failf("C16/relay-repl/type", "RELAY-REPL at "+tag, "%v", r.MessageType)
			}
			if !bytes.Equal(r.LinkAddr.To16(), lv.Link) || !bytes.Equal(r.PeerAddr.To16(), lv.Peer) {
				return obs.Failf("C16/relay-repl/addresses", fmt.Sprintf("link %x peer %x at %s", []byte(lv.Link), []byte(lv.Peer), tag), "link %x peer %x", []byte(r.LinkAddr), []byte(r.PeerAddr))
			}
			// judged by option code and payload (whatever Go type carries them)
			var iid []byte
			io := r.GetOneOption(dhcpv6.OptionInterfaceID)
			if io != nil {
				iid = io.ToBytes()
			}
			if (io != nil) != lv.HasIID || (lv.HasIID && !bytes.Equal(iid, lv.IID)) {
				return obs.Failf("C16/relay-repl/interface-id", fmt.Sprintf("present=%v %x at %s", lv.HasIID, []byte(lv.IID), tag), "present=%v %x", io != nil, iid)
			}
			ro := r.GetOneOption(dhcpv6.OptionRemoteID)
			wantRID := append([]byte{byte(lv.RIDEnt >> 24), byte(lv.RIDEnt >> 16), byte(lv.RIDEnt >> 8), byte(lv.RIDEnt)}, lv.RID...)
			if (ro != nil) != lv.HasRID || (lv.HasRID && !bytes.Equal(ro.ToBytes(), wantRID)) {
				return obs.Failf("C16/relay-repl/remote-id", fmt.Sprintf("present=%v %x at %s", lv.HasRID, wantRID, tag), "%v", ro)
			}
			if lv.Generic&^7 == 0 && lv.Generic == 0 {
				// typed in, typed out: the typed accessors see them too
				if rid := r.Options.RemoteID(); (rid != nil) != lv.HasRID || (lv.HasRID && (rid.EnterpriseNumber != lv.RIDEnt || !bytes.Equal(rid.RemoteID, lv.RID))) {
					return obs.Failf("C16/relay-repl/remote-id", fmt.Sprintf("present=%v at %s", lv.HasRID, tag), "%v", rid)
				}
				if got := r.Options.InterfaceID(); lv.HasIID && !bytes.Equal(got, lv.IID) {
					return obs.Failf("C16/relay-repl/interface-id", fmt.Sprintf("%x at %s", []byte(lv.IID), tag), "%x", got)
				}
			}
		}
		rim, err := rr.GetInnerMessage()
		if err != nil || sameTree(rim, reply) != "" {
			return obs.Failf("C16/relay-repl/inner", "the given reply innermost", "err=%v", err)
		}
		// the relay-reply chain survives the wire too
		if w, err := dhcpv6.FromBytes(rr.ToBytes()); err != nil || sameTree(w, rr) != "" {
			return obs.Failf("C16/relay-repl/wire", "relay-reply chain round-trips", "err=%v", err)
		}
		// the look-ups do not depend on the hop-count fields (a chain assembled by hand, or by an agent that counts
		// differently, is the same chain): every field 0, every field 255
		saved := make([]uint8, len(levels))
		for _, hc := range []uint8{0, 255} {
			for k, r := range levels {
				saved[k], r.HopCount = r.HopCount, hc
			}
			im4, err := chain.GetInnerMessage()
			xid4, err2 := dhcpv6.GetTransactionID(chain)
			for k, r := range levels {
				r.HopCount = saved[k]
			}
			if err != nil || err2 != nil || sameTree(im4, inner) != "" || xid4 != inner.TransactionID {
				return obs.Failf("C16/inner-message/hop-count-fields", fmt.Sprintf("innermost message and transaction id found with every hop-count field set to %d", hc), "err=%v / %v (depth %d)", err, err2, d)
			}
		}
		// wrong inputs are refused: a chain whose OUTERMOST level is not RELAY-FORW, whatever the levels below are
		if d >= 2 {
			outer := chain.(*dhcpv6.RelayMessage)
			outer.MessageType = dhcpv6.MessageTypeRelayReply
			_, err := dhcpv6.NewRelayReplFromRelayForw(outer, reply)
			outer.MessageType = dhcpv6.MessageTypeRelayForward
			if err == nil {
				return obs.Failf("C16/relay-repl/accepts-relay-repl", "error for an input whose outermost level is RELAY-REPL (inner levels RELAY-FORW)", "accepted (depth %d)", d)
			}
		}
		if _, err := dhcpv6.NewRelayReplFromRelayForw(rr.(*dhcpv6.RelayMessage), reply); err == nil {
			return obs.Failf("C16/relay-repl/accepts-relay-repl", "error for a RELAY-REPL input", "accepted")
		}
		if _, err := dhcpv6.NewRelayReplFromRelayForw(chain.(*dhcpv6.RelayMessage), nil); err == nil {
			return obs.Failf("C16/relay-repl/accepts-nil", "error for a nil reply", "accepted")
		}
		lack := false
		for _, lv := range c.Levels {
			if !lv.HasIID || !lv.HasRID {
				lack = true
			}
		}
		rec.Class(fmt.Sprintf("depth %d", d))
		if c.Wire {
			rec.Class("via wire")
		}
		if d >= 3 || lack {
			rec.NonTrivial(obs.HashJSON(c), func() any {
				var lv []string
				for _, l := range c.Levels {
					lv = append(lv, fmt.Sprintf("iid=%v rid=%v", l.HasIID, l.HasRID))
				}
				return map[string]any{"depth": d, "levels_inner_to_outer": lv, "inner_type": it.Type, "wire": c.Wire}
			})
		}
		return nil
	})

func genInnerMsg() *rapid.Generator[obs.Hex] {
	return rapid.Custom(func(t *rapid.T) obs.Hex {
		cfg := v6Cfg(0, 6, true)
		return genV6Wire(cfg).Draw(t, "inner")
	})
}

func genC16() *rapid.Generator[c16Case] {
	return rapid.Custom(func(t *rapid.T) c16Case {
		c := c16Case{Inner: genInnerMsg().Draw(t, "inner"), Reply: genInnerMsg().Draw(t, "reply"), Wire: rapid.Bool().Draw(t, "wire")}
		d := rapid.SampledFrom([]int{1, 1, 2, 2, 3, 3, 4, 5, 8, 9, 10, 11, 16}).Draw(t, "depth")
		for i := 0; i < d; i++ {
			lv := c16Level{Link: rapid.SliceOfN(rapid.Byte(), 16, 16).Draw(t, "link"), Peer: rapid.SliceOfN(rapid.Byte(), 16, 16).Draw(t, "peer"),
				HasIID: rapid.Bool().Draw(t, "iid"), HasRID: rapid.Bool().Draw(t, "rid"), Extra: rapid.IntRange(0, 3).Draw(t, "extra") == 0,
				RIDEnt: rapid.Uint32().Draw(t, "ent"), Order: rapid.SampledFrom([]int{0, 0, 1, 2, 3, 5, 7, 11, 13, 17, 23}).Draw(t, "order")}
			lv.Generic = rapid.SampledFrom([]int{0, 0, 0, 1, 2, 3, 4, 7}).Draw(t, "generic")
			lv.IID = gen.Fill(t, rapid.IntRange(0, 12).Draw(t, "iidlen"), "iidv")
			lv.RID = gen.Fill(t, rapid.IntRange(0, 12).Draw(t, "ridlen"), "ridv")
			c.Levels = append(c.Levels, lv)
		}
		c.Poison = rapid.SampledFrom([]int{0, 0, 1, 2, 3, 5}).Draw(t, "poison")
		return c
	})
}

func TestC16_RelayRapid(t *testing.T) { c16.rapidCheck(t, genC16()) }

// --- message builders --------------------------------------------------------------

type c16B struct {
	Msg  obs.Hex `json:"msg"`
	Wire bool    `json:"wire"`
}

func firstOf(t *refv6.Msg, code uint16) *refv6.Opt {
	for i := range t.Opts {
		if t.Opts[i].Code == code {
			return &t.Opts[i]
		}
	}
	return nil
}

func sameOpt(a *refv6.Opt, b *refv6.Opt) bool {
	if a == nil || b == nil {
		return a == b
	}
	p, _ := refv6.Diff(&refv6.Msg{Opts: []refv6.Opt{*a}}, &refv6.Msg{Opts: []refv6.Opt{*b}}, true)
	return p == ""
}

var c16b = newChk("C16", "message-builders",
	"generated messages of every type with and without client id, server id, IA_NA, IA_PD, rapid commit and vendor class given to the advertise / request / reply builders: transaction id kept where the RFC says so, client (and server) identifier and identity associations echoed, wrong message types or missing options refused; non-trivial = the builder succeeds; distinct by input hash",
	func(rec *obs.Rec, c c16B) *obs.Fail {
		cov := v6Cov()
		t, v := refv6.DecodeMsg(c.Msg, cov.skip, nil)
		if v != refv6.Accept || t.Relay {
			return nil
		}
		var m *dhcpv6.Message
		if c.Wire {
			d, err := dhcpv6.FromBytes(append([]byte{}, c.Msg...))
			if err != nil {
				return nil
			}
			m = d.(*dhcpv6.Message)
		} else {
			m = gen.ToLibMsg(t).(*dhcpv6.Message)
		}
		cid, sid, iana, iapd, rapidC, vclass := firstOf(t, 1), firstOf(t, 2), firstOf(t, 3), firstOf(t, 25), firstOf(t, 14), firstOf(t, 16)
		ok := false
		// advertise from solicit
		adv, err := dhcpv6.NewAdvertiseFromSolicit(m)
		wantOK := t.Type == 1 && cid != nil
		if (err == nil) != wantOK {
			return obs.Failf("C16/advertise/verdict", fmt.Sprintf("success=%v (type %d, client id %v)", wantOK, t.Type, cid != nil), "err=%v", err)
		}
		if err == nil {
			ok = true
			at := treeOf(adv)
			if at.Type != 2 || at.Xid != t.Xid || !sameOpt(firstOf(at, 1), cid) {
				return obs.Failf("C16/advertise/content", "ADVERTISE with the solicit's transaction id and client id", "type %d xid %x", at.Type, at.Xid)
			}
		}
		// request from advertise
		req, err := dhcpv6.NewRequestFromAdvertise(m)
		wantOK = t.Type == 2 && cid != nil && sid != nil && iana != nil
		if (err == nil) != wantOK {
			return obs.Failf("C16/request/verdict", fmt.Sprintf("success=%v (type %d cid %v sid %v iana %v)", wantOK, t.Type, cid != nil, sid != nil, iana != nil), "err=%v", err)
		}
		if err == nil {
			ok = true
			qt := treeOf(req)
			switch {
			case qt.Type != 3:
				return obs.Failf("C16/request/type", "REQUEST", "%d", qt.Type)
			case !sameOpt(firstOf(qt, 1), cid):
				return obs.Failf("C16/request/client-id", "advertised client id echoed", "differs")
			case !sameOpt(firstOf(qt, 2), sid):
				return obs.Failf("C16/request/server-id", "advertised server id echoed", "differs")
			case !sameOpt(firstOf(qt, 3), iana):
				return obs.Failf("C16/request/ia-na", "first advertised IA_NA echoed", "differs")
			case !sameOpt(firstOf(qt, 25), iapd):
				return obs.Failf("C16/request/ia-pd", "advertised IA_PD echoed when present", "differs")
			case vclass != nil && !sameOpt(firstOf(qt, 16), vclass):
				return obs.Failf("C16/request/vendor-class", "vendor class echoed", "differs")
			}
		}
		// reply from message
		rep, err := dhcpv6.NewReplyFromMessage(m)
		typeOK := map[uint8]bool{3: true, 4: true, 5: true, 6: true, 8: true, 11: true}[t.Type] || (t.Type == 1 && rapidC != nil)
		wantOK = typeOK && cid != nil
		if t.Type != 9 { // DECLINE: RFC 8415 would allow it, the builder's documentation omits it: not asserted
			if (err == nil) != wantOK {
				return obs.Failf("C16/reply/verdict", fmt.Sprintf("success=%v (type %d cid %v rapid-commit %v)", wantOK, t.Type, cid != nil, rapidC != nil), "err=%v", err)
			}
		}
		if err == nil {
			ok = true
			pt := treeOf(rep)
			if pt.Type != 7 || pt.Xid != t.Xid || !sameOpt(firstOf(pt, 1), cid) {
				return obs.Failf("C16/reply/content", "REPLY with the message's transaction id and client id", "type %d xid %x", pt.Type, pt.Xid)
			}
			if t.Type == 1 && firstOf(pt, 14) == nil {
				return obs.Failf("C16/reply/rapid-commit", "rapid commit option in the reply to a rapid-commit SOLICIT", "absent")
			}
		}
		// an input the builder must refuse is refused whatever modifiers the caller passes along (the modifiers shape
		// the answer; they do not supply what the request lacks)
		mods := []dhcpv6.Modifier{
			dhcpv6.WithClientID(&dhcpv6.DUIDLL{HWType: 1, LinkLayerAddr: net.HardwareAddr{2, 0, 0, 0, 0, 7}}),
			dhcpv6.WithServerID(&dhcpv6.DUIDLL{HWType: 1, LinkLayerAddr: net.HardwareAddr{2, 0, 0, 0, 0, 8}}),
			dhcpv6.WithIANA(dhcpv6.OptIAAddress{IPv6Addr: net.ParseIP("2001:db8::7"), PreferredLifetime: time.Hour, ValidLifetime: time.Hour}),
			dhcpv6.WithOption(dhcpv6.OptClientID(&dhcpv6.DUIDLL{HWType: 1, LinkLayerAddr: net.HardwareAddr{2, 0, 0, 0, 0, 9}})),
			dhcpv6.WithRapidCommit,
		}
		for mi := 0; mi < len(mods); mi++ {
			ms := []dhcpv6.Modifier{mods[mi], mods[(mi+1)%len(mods)]}
			if adv == nil {
				if _, err := dhcpv6.NewAdvertiseFromSolicit(m, ms...); err == nil {
					return obs.Failf("C16/advertise/verdict-with-modifiers", "an input refused without modifiers is refused with them", "accepted with modifiers %d,%d (type %d, client id %v)", mi, (mi+1)%len(mods), t.Type, cid != nil)
				}
			}
			if req == nil {
				if _, err := dhcpv6.NewRequestFromAdvertise(m, ms...); err == nil {
					return obs.Failf("C16/request/verdict-with-modifiers", "an input refused without modifiers is refused with them", "accepted with modifiers %d,%d (type %d)", mi, (mi+1)%len(mods), t.Type)
				}
			}
			if rep == nil && t.Type != 9 {
				if _, err := dhcpv6.NewReplyFromMessage(m, ms...); err == nil {
					return obs.Failf("C16/reply/verdict-with-modifiers", "an input refused without modifiers is refused with them", "accepted with modifiers %d,%d (type %d)", mi, (mi+1)%len(mods), t.Type)
				}
			}
		}
		// nil inputs are refused
		if _, err := dhcpv6.NewAdvertiseFromSolicit(nil); err == nil {
			return obs.Failf("C16/advertise/nil", "error", "accepted nil")
		}
		if _, err := dhcpv6.NewRequestFromAdvertise(nil); err == nil {
			return obs.Failf("C16/request/nil", "error", "accepted nil")
		}
		if _, err := dhcpv6.NewReplyFromMessage(nil); err == nil {
			return obs.Failf("C16/reply/nil", "error", "accepted nil")
		}
		// the builders read their input, they do not change it; and what they returned stays what it was while the
		// builders run again on another client's message
		inBefore := m.ToBytes()
		var keep [][]byte
		for _, x := range []*dhcpv6.Message{adv, req, rep} {
			if x != nil {
				keep = append(keep, x.ToBytes())
			} else {
				keep = append(keep, nil)
			}
		}
		other := &dhcpv6.Message{MessageType: m.MessageType, TransactionID: dhcpv6.TransactionID{0xD0, 0xD1, 0xD2}}
		other.AddOption(dhcpv6.OptClientID(&dhcpv6.DUIDLL{HWType: 1, LinkLayerAddr: net.HardwareAddr{0xde, 0xad, 0xbe, 0xef, 0, 1}}))
		other.AddOption(dhcpv6.OptServerID(&dhcpv6.DUIDEN{EnterpriseNumber: 4242, EnterpriseIdentifier: []byte("other-server")}))
		other.AddOption(&dhcpv6.OptIANA{IaId: [4]byte{0xD, 0xE, 0xC, 0}, T1: time.Hour, T2: 2 * time.Hour})
		other.AddOption(&dhcpv6.OptIAPD{IaId: [4]byte{0xD, 0xE, 0xC, 1}})
		other.AddOption(&dhcpv6.OptionGeneric{OptionCode: 14})
		for _, b := range []func(*dhcpv6.Message, ...dhcpv6.Modifier) (*dhcpv6.Message, error){dhcpv6.NewAdvertiseFromSolicit, dhcpv6.NewRequestFromAdvertise, dhcpv6.NewReplyFromMessage} {
			if o, err := b(other); err == nil {
				_ = o.ToBytes()
			}
		}
		if after := m.ToBytes(); !bytes.Equal(after, inBefore) {
			return obs.Failf("C16/builders/changed-their-input", "the message given to the builders is unchanged", "differs at byte %d", firstDiff(after, inBefore))
		}
		for i, x := range []*dhcpv6.Message{adv, req, rep} {
			if x != nil && !bytes.Equal(x.ToBytes(), keep[i]) {
				return obs.Failf("C16/builders/earlier-result-changed", "a built message is unchanged by later builds from other inputs", "builder %d: differs at byte %d", i, firstDiff(x.ToBytes(), keep[i]))
			}
		}
		rec.Class(fmt.Sprintf("input type %d", t.Type))
		if ok {
			rec.NonTrivial(obs.Hash64(c.Msg), func() any { return summarizeTree(t) })
		}
		return nil
	})

func TestC16_BuildersRapid(t *testing.T) {
	c16b.rapidCheck(t, rapid.Custom(func(rt *rapid.T) c16B {
		cfg := v6Cfg(0, 4, true)
		m := gen.V6Msg(cfg).Draw(rt, "m")
		// steer the message types and options the builders look at
		m.Type = rapid.SampledFrom([]uint8{1, 1, 2, 2, 3, 4, 5, 6, 8, 11, 7, 9, 10, 12, 0}).Draw(rt, "type")
		if m.Type == 12 {
			m.Type = 14
		}
		for _, code := range []uint16{1, 2, 3, 25, 16} {
			if rapid.IntRange(0, 3).Draw(rt, "steer") != 0 && firstOf(m, code) == nil {
				o := gen.V6Opt(cfg, code).Draw(rt, "opt")
				m.Opts = append(m.Opts, o)
			}
		}
		if rapid.Bool().Draw(rt, "rapidcommit") {
			m.Opts = append(m.Opts, refv6.Opt{Code: 14, Typ: "opaque", B: [][]byte{{}}})
		}
		return c16B{Msg: refv6.EncodeMsg(m), Wire: rapid.Bool().Draw(rt, "wire")}
	}))
}
