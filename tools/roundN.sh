#!/bin/bash
# usage: tools/roundN.sh <basedir> <offset> <ID>...   — confirms sub-agent deliveries under <basedir>/<ID>/out as seeded/<ID>-(N+offset)
BASE=$1; OFF=$2; shift 2
for ID in "$@"; do
  for N in 1 2; do
    demo=$(ls $BASE/$ID/out/demo${N}* 2>/dev/null | head -1)
    [ -z "$demo" ] && { echo "$ID-$N: no demo"; continue; }
    pkg=$(head -5 "$demo" | grep -oE 'package-dir: *[^ ]+' | head -1 | sed 's/package-dir: *//')
    [ -z "$pkg" ] && { echo "$ID-$N: no package-dir"; continue; }
    SEEDDIR=$BASE OUTN=$((N+OFF)) /verif/tools/verify_seed.sh $ID $N $pkg
  done
done
