#!/bin/bash
# usage: tools/run_all.sh <tier> <seed> [ids...]   — runs checks sequentially (in the tree this script lives in), one line per check
tier=$1; seed=$2; shift 2
cd "$(dirname "$0")/.." || exit 2
ids=${@:-$(python3 -c "import json;print(' '.join(c['property_id'] for c in json.load(open('MANIFEST.json'))['checks']))")}
for id in $ids; do
  s=$(date +%s); out=$(VERIF_SEED=$seed ./check $id $tier 2>&1); rc=$?; e=$(( $(date +%s)-s ))
  echo "$id $tier seed=$seed exit=$rc ${e}s $(echo "$out" | grep -E '^(VIOLATION|INCONCLUSIVE|KNOWN)' | head -2 | tr '\n' ' ')"
  if [ $rc -ne 0 ]; then echo "$out" | tail -40; fi
done
