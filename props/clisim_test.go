package props

import (
	"bytes"
	"context"
	"errors"
	"fmt"
	"sort"
	"testing"
	"testing/synctest"
	"time"

	"verif/netsim"
	"verif/obs"
)

// Scenario engine for the two clients under virtual time (testing/synctest).
//
// Time is counted in ticks of 1 ms from the start of the bubble. Call starts sit
// on even ticks (call i on a tick ≡ 2i mod 16, timeouts are multiples of 16
// ticks, so no two calls ever share a try boundary); deliveries, cancellations,
// releases and Close sit on odd ticks, so no generated event coincides with a
// timer expiry. Between events the runner calls synctest.Wait(), so the order
// of effects is the order of the script.

type cliCall struct {
	Start     int  `json:"start"`   // tick
	Xid       int  `json:"xid"`     // index into a pool of 3 transaction ids
	Variant   int  `json:"variant"` // request shape
	Matcher   int  `json:"matcher"` // 0 nil, 1 type==Want, 2 reject all, 3 accept the K-th candidate, 4 block on the first candidate until ReleaseAt, then type==Want
	Want      int  `json:"want"`
	K         int  `json:"k"`
	CancelAt  int  `json:"cancel_at"`     // odd tick, -1 none
	Deadline  int  `json:"deadline"`      // context deadline, odd ticks after start, -1 none
	ReleaseAt int  `json:"release_at"`    // odd tick (matcher 4)
	Ctx       int  `json:"ctx,omitempty"` // without cancellation and deadline: 0 a cancellable context nobody cancels before the end, 1 context.Background(), 2 context.TODO(), 3 a value context over Background (none of 1..3 can ever end)
	Started   bool `json:"-"`
}

type cliCtxKey struct{}

// neverEnds: the call's context can neither be cancelled nor expire.
func (c cliCall) neverEnds() bool { return c.Ctx > 0 && c.CancelAt < 0 && c.Deadline < 0 }

type cliDeliver struct {
	At     int   `json:"at"` // odd tick
	Kind   int   `json:"kind"`
	Xid    int   `json:"xid"`
	Typ    int   `json:"typ"`
	Serial int   `json:"serial"`
	Op     uint8 `json:"op"`
	HType  uint8 `json:"htype"`  // DHCPv4 hardware type of the datagram (0: Ethernet)
	PadTo  int   `json:"pad_to"` // exact datagram size (0: natural size)
}

type cliScenario struct {
	TickNs      int64        `json:"tick_ns"` // duration of one tick (default 1 ms)
	V6          bool         `json:"v6"`
	T           int          `json:"timeout_ticks"` // multiple of 16
	Tries       int          `json:"tries"`
	Calls       []cliCall    `json:"calls"`
	Dels        []cliDeliver `json:"deliveries"`
	CloseAt     int          `json:"close_at"` // odd tick, -1: closed at the end
	DoubleClose bool         `json:"double_close"`
	LogDropped  bool         `json:"log_dropped"`           // nclient6: WithLogDroppedPackets
	CloseFails  bool         `json:"close_fails,omitempty"` // fault injection: the socket's own Close reports an error (it is closed all the same)
	Knob        int          `json:"knob,omitempty"`        // other documented configuration of the client (adapter.start): 1 nclient4 WithHWAddr over a different constructor address
	LogMode     int          `json:"log_mode,omitempty"`    // logging configuration of the client (adapter.start); 0: none
	Dest        int          `json:"dest,omitempty"`        // destination selector (adapter.setDest): other ports, broadcast, zoned IPv6 addresses
	Window      int          `json:"window,omitempty"`      // unlimited tries are watched for this many tries before the runner cancels (0: 11)
}

func (sc cliScenario) logMode() int {
	if sc.LogDropped {
		return 1 + 16*sc.Knob
	}
	return sc.LogMode + 16*sc.Knob
}

func (sc cliScenario) window() int {
	if sc.Window > 0 {
		return sc.Window
	}
	return 11
}

// blockedAcrossDeadline: a matcher is held (by the caller's own code) past the deadline of a try. What the client
// does next depends on Go's random choice between a fired timer and a non-empty buffer, so the exact model does not
// apply; cmpCliLoose asserts what holds for every such choice.
func (sc cliScenario) blockedAcrossDeadline() bool {
	for _, c := range sc.Calls {
		if c.Matcher == 4 && c.ReleaseAt >= c.Start+sc.T {
			return true
		}
	}
	return false
}

type cliResult struct {
	Done   bool
	At     int // tick of return
	Serial int
	Typ    int
	Nil    bool
	Err    string
	Wire   []byte // encoding of the returned datagram
}

type cliWrite struct {
	At   int
	B    []byte
	To   string
	Call int // model: index of the call whose request must have been sent
}

// aspects of the model a check asserts
const (
	aspIdentity = 1 << iota // which datagram / which error class a call returns (C10)
	aspTiming               // return instants, completion, Close, goroutines (C11)
	aspWrites               // transmissions: count, instants, bytes, destination (C12)
)

type cliOutcome struct {
	ReqWire   [][]byte // encoding of each call's request, taken before the call
	Results   []cliResult
	Writes    []cliWrite
	CloseAt   int
	CloseLeft int // reads still in progress at the instant Close returned
	Problem   string
}

func (sc cliScenario) tick() time.Duration {
	if sc.TickNs <= 0 {
		return time.Millisecond
	}
	return time.Duration(sc.TickNs)
}

// runCliScenario executes the scenario against the real client in a bubble.
func runCliScenario(t *testing.T, sc cliScenario) cliOutcome {
	out := cliOutcome{Results: make([]cliResult, len(sc.Calls)), ReqWire: make([][]byte, len(sc.Calls)), CloseAt: -1}
	tick := sc.tick()
	ticksOf := func(d time.Duration) int { return int(d / tick) }
	out.Problem = inBubble(t, func() {
		var ad cliAdapter = &v4Adapter{}
		if sc.V6 {
			ad = &v6Adapter{}
		}
		ad.setDest(sc.Dest)
		conn := netsim.New(8192)
		if sc.CloseFails {
			conn.CloseErr = errors.New("close: input/output error")
		}
		if err := ad.start(conn, time.Duration(sc.T)*tick, sc.Tries, sc.logMode()); err != nil {
			panic(err)
		}
		type action struct {
			tick, seq int
			fn        func()
		}
		var acts []action
		seq := 0
		add := func(tk int, fn func()) { acts = append(acts, action{tk, seq, fn}); seq++ }
		cancels := make([]context.CancelFunc, len(sc.Calls))
		releases := make([]chan struct{}, len(sc.Calls))
		closed := false
		for i := range sc.Calls {
			i := i
			cl := sc.Calls[i]
			releases[i] = make(chan struct{})
			add(cl.Start, func() {
				ctx, cancel := context.WithCancel(context.Background())
				if cl.Deadline >= 0 {
					ctx, cancel = context.WithDeadline(context.Background(), time.Now().Add(time.Duration(cl.Deadline)*tick))
				} else if cl.CancelAt < 0 && cl.Ctx > 0 {
					cancel()
					cancel = func() {}
					switch cl.Ctx {
					case 1:
						ctx = context.Background()
					case 2:
						ctx = context.TODO()
					default:
						ctx = context.WithValue(context.Background(), cliCtxKey{}, 1)
					}
				}
				cancels[i] = cancel
				req, wire := ad.request(cl.Xid, cl.Variant)
				out.ReqWire[i] = wire
				seen := 0
				match := func(serial, typ int) bool {
					seen++
					switch cl.Matcher {
					case 1:
						return typ == cl.Want
					case 2:
						return false
					case 3:
						return seen == cl.K
					case 4:
						if seen == 1 {
							<-releases[i]
						}
						return typ == cl.Want
					}
					return true
				}
				go func() {
					serial, typ, isNil, wire, err := ad.call(ctx, req, match, cl.Matcher == 0)
					out.Results[i] = cliResult{Done: true, At: ticksOf(conn.Since()), Serial: serial, Typ: typ, Nil: isNil, Err: ad.classify(err), Wire: wire}
				}()
			})
			if cl.CancelAt >= 0 {
				add(cl.CancelAt, func() {
					if cancels[i] != nil {
						cancels[i]()
					}
				})
			}
			if cl.Matcher == 4 {
				add(cl.ReleaseAt, func() { close(releases[i]) })
			}
		}
		for _, d := range sc.Dels {
			d := d
			add(d.At, func() {
				if !closed && d.Kind == dgReadError {
					conn.Fail(errors.New("read: connection refused"))
				} else if !closed {
					conn.Deliver(ad.datagram(d.Kind, d.Xid, d.Typ, d.Serial, d.Op, d.HType, d.PadTo), ad.dest())
				}
			})
		}
		doClose := func() {
			if closed {
				return
			}
			closed = true
			_ = ad.close()
			// "Close always stops the receive loop and returns": when Close has returned, the loop's read has returned
			// too (sampled at once, before this goroutine yields)
			if n := conn.ActiveReads(); n != 0 && out.CloseLeft == 0 {
				out.CloseLeft = n
			}
			out.CloseAt = ticksOf(conn.Since())
			if sc.DoubleClose {
				if err := ad.close(); err != nil {
					panic(fmt.Sprintf("second Close returned %v", err))
				}
			}
		}
		if sc.CloseAt >= 0 {
			add(sc.CloseAt, doClose)
		}
		sort.SliceStable(acts, func(a, b int) bool {
			if acts[a].tick != acts[b].tick {
				return acts[a].tick < acts[b].tick
			}
			return acts[a].seq < acts[b].seq
		})
		for _, a := range acts {
			if d := time.Duration(a.tick)*tick - conn.Since(); d > 0 {
				time.Sleep(d)
			}
			synctest.Wait()
			a.fn()
			synctest.Wait()
		}
		// let every schedule run out (bounded), then close and drain
		end := cliHorizon(sc)
		if d := time.Duration(end)*tick - conn.Since(); d > 0 {
			time.Sleep(d)
		}
		synctest.Wait()
		for _, c := range cancels {
			if c != nil && sc.Tries < 0 {
				c() // unlimited tries only end by cancellation
			}
		}
		synctest.Wait()
		doClose()
		synctest.Wait()
		for _, c := range cancels {
			if c != nil {
				c()
			}
		}
		for _, w := range conn.Writes() {
			out.Writes = append(out.Writes, cliWrite{At: ticksOf(w.At), B: w.B, To: w.To.String()})
		}
	})
	return out
}

// cliHorizon is a tick after which every call of the scenario must have returned.
func cliHorizon(sc cliScenario) int {
	end := 1
	n := sc.Tries
	if n < 0 {
		n = sc.window() // observed window for unlimited tries (virtual time is free)
	}
	for _, c := range sc.Calls {
		e := c.Start + sc.T*((1<<uint(n))-1) + 2
		if e > end {
			end = e
		}
		if c.ReleaseAt > end {
			end = c.ReleaseAt + 2
		}
		if c.Matcher == 4 && c.ReleaseAt >= c.Start+sc.T {
			// held past a deadline: the rest of the schedule may start over at the release
			if e := c.ReleaseAt + sc.T*((1<<uint(n))-1) + 2; e > end {
				end = e
			}
		}
	}
	for _, d := range sc.Dels {
		if d.At+2 > end {
			end = d.At + 2
		}
	}
	if sc.CloseAt+2 > end {
		end = sc.CloseAt + 2
	}
	return end + 1
}

// ---- the reference model ----------------------------------------------------------

type mCall struct {
	cliCall
	state    int // 0 not started, 1 pending, 2 done
	seen     int
	blocked  bool
	queue    []cliDeliver
	res      cliResult
	refused  bool
	lastTry  int // number of tries started
	doneTick int
}

func passesFilters(v6 bool, d cliDeliver) bool {
	switch d.Kind {
	case dgGood:
		return true
	case dgWrongOp:
		return !v6 && d.Op == 2 // only a BOOTREPLY passes (v6 maps this kind to a foreign transaction id)
	}
	return false
}

// modelCli predicts the outcome of a scenario.
func modelCli(sc cliScenario) ([]cliResult, []cliWrite) {
	ad := cliAdapter(&v4Adapter{})
	if sc.V6 {
		ad = &v6Adapter{}
	}
	ad.setDest(sc.Dest)
	calls := make([]*mCall, len(sc.Calls))
	for i := range sc.Calls {
		calls[i] = &mCall{cliCall: sc.Calls[i]}
	}
	type ev struct {
		tick, seq, kind, idx int // kind 0 start, 1 cancel, 2 release, 3 deliver, 4 close
	}
	var evs []ev
	seq := 0
	for i, c := range sc.Calls {
		evs = append(evs, ev{c.Start, seq, 0, i})
		seq++
		if c.CancelAt >= 0 {
			evs = append(evs, ev{c.CancelAt, seq, 1, i})
			seq++
		}
		if c.Matcher == 4 {
			evs = append(evs, ev{c.ReleaseAt, seq, 2, i})
			seq++
		}
	}
	for i, d := range sc.Dels {
		evs = append(evs, ev{d.At, seq, 3, i})
		seq++
	}
	if sc.CloseAt >= 0 {
		evs = append(evs, ev{sc.CloseAt, seq, 4, 0})
		seq++
	}
	// same ordering as the runner: by tick, then by insertion (calls first, then deliveries, then close)
	sort.SliceStable(evs, func(a, b int) bool {
		if evs[a].tick != evs[b].tick {
			return evs[a].tick < evs[b].tick
		}
		return evs[a].seq < evs[b].seq
	})
	closedAt := -1
	readDead := false
	var writes []cliWrite
	finish := func(c *mCall, at int, r cliResult) {
		if c.state != 1 {
			return
		}
		c.state, c.doneTick = 2, at
		r.Done, r.At = true, at
		c.res = r
	}
	// deadline of the retry schedule / context deadline, applied lazily before each event
	expire := func(now int) {
		for _, c := range calls {
			if c.state != 1 || c.blocked {
				continue
			}
			sched := -1
			if sc.Tries >= 0 {
				sched = c.Start + sc.T*((1<<uint(sc.Tries))-1)
			}
			dl := -1
			if c.Deadline >= 0 {
				dl = c.Start + c.Deadline
			}
			switch {
			case dl >= 0 && dl < now && (sched < 0 || dl < sched):
				finish(c, dl, cliResult{Serial: -1, Nil: true, Err: "ctx-deadline"})
			case sched >= 0 && sched < now:
				finish(c, sched, cliResult{Serial: -1, Nil: true, Err: "no-response"})
			}
		}
	}
	candidate := func(c *mCall, d cliDeliver, now int) {
		c.seen++
		ok := true
		switch c.Matcher {
		case 1, 4:
			ok = d.Typ == c.Want
		case 2:
			ok = false
		case 3:
			ok = c.seen == c.K
		}
		if ok {
			finish(c, now, cliResult{Serial: d.Serial, Typ: d.Typ, Err: "nil"})
		}
	}
	for _, e := range evs {
		expire(e.tick)
		switch e.kind {
		case 0:
			c := calls[e.idx]
			switch {
			case closedAt >= 0:
				c.state, c.refused = 2, true
				c.res = cliResult{Done: true, At: e.tick, Serial: -1, Nil: true, Err: "error"}
			case sc.Tries == 0:
				c.state, c.refused = 2, true
				c.res = cliResult{Done: true, At: e.tick, Serial: -1, Nil: true, Err: "no-response"}
			default:
				inUse := false
				for _, o := range calls {
					if o != c && o.state == 1 && o.Xid == c.Xid {
						inUse = true
					}
				}
				if inUse {
					c.state, c.refused = 2, true
					c.res = cliResult{Done: true, At: e.tick, Serial: -1, Nil: true, Err: "xid-in-use"}
				} else {
					c.state = 1
				}
			}
		case 1:
			c := calls[e.idx]
			finish(c, e.tick, cliResult{Serial: -1, Nil: true, Err: "ctx-canceled"})
		case 2:
			c := calls[e.idx]
			if c.state == 1 && c.blocked {
				c.blocked = false
				q := c.queue
				c.queue = nil
				c.seen = 0
				for _, d := range q {
					if c.state != 1 {
						break
					}
					candidate(c, d, e.tick)
				}
			}
		case 3:
			d := sc.Dels[e.idx]
			if d.Kind == dgReadError && closedAt < 0 {
				// the socket failed a read: the receive loop is gone, nothing that arrives later reaches a call; the
				// calls keep their schedules
				readDead = true
			}
			if closedAt >= 0 || readDead || !passesFilters(sc.V6, d) {
				continue
			}
			for _, c := range calls {
				if c.state == 1 && c.Xid == d.Xid {
					if c.Matcher == 4 && (c.blocked || c.seen == 0) {
						c.blocked = true
						c.queue = append(c.queue, d)
						c.seen = 1
						break
					}
					candidate(c, d, e.tick)
					break
				}
			}
		case 4:
			closedAt = e.tick
			for _, c := range calls {
				finish(c, e.tick, cliResult{Serial: -1, Nil: true, Err: "no-response"})
			}
		}
	}
	end := cliHorizon(sc)
	expire(end + 1)
	for _, c := range calls {
		if c.state == 1 {
			// unlimited tries: cancelled by the runner at the horizon; a blocked matcher is released by then. A call
			// whose context can never end is ended by the Close that follows
			if c.neverEnds() {
				finish(c, end, cliResult{Serial: -1, Nil: true, Err: "no-response"})
			} else {
				finish(c, end, cliResult{Serial: -1, Nil: true, Err: "ctx-canceled"})
			}
		}
	}
	// expected transmissions
	res := make([]cliResult, len(calls))
	for i, c := range calls {
		res[i] = c.res
		if c.refused {
			continue
		}
		for j := 0; sc.Tries < 0 || j < sc.Tries; j++ {
			s := c.Start + sc.T*((1<<uint(j))-1)
			if s >= c.res.At {
				break
			}
			writes = append(writes, cliWrite{At: s, Call: i, To: ad.dest().String()})
		}
	}
	sort.SliceStable(writes, func(a, b int) bool { return writes[a].At < writes[b].At })
	return res, writes
}

// cmpCli compares the real outcome with the model.
func cmpCli(prop string, sc cliScenario, got cliOutcome, asp int) *obs.Fail {
	name := "nclient4"
	if sc.V6 {
		name = "nclient6"
	}
	if got.Problem != "" {
		key := "panic"
		if bytes.Contains([]byte(got.Problem), []byte("deadlock")) {
			key = "goroutine-left-behind"
		}
		if bytes.HasPrefix([]byte(got.Problem), []byte("stuck")) {
			key = "stuck"
		}
		if key != "goroutine-left-behind" || asp&aspTiming != 0 {
			return obs.Failf(prop+"/"+name+"/"+key, "every call returns and Close leaves no goroutine behind", "%s", clipS(got.Problem))
		}
		return nil
	}
	if got.CloseLeft != 0 && asp&aspTiming != 0 {
		return obs.Failf(prop+"/"+name+"/close-returned-before-the-receive-loop-stopped", "when Close returns the receive loop has stopped (its read has returned)", "%d read(s) still in progress", got.CloseLeft)
	}
	if sc.blockedAcrossDeadline() {
		return cmpCliLoose(prop, name, sc, got)
	}
	want, wantWrites := modelCli(sc)
	for i := range want {
		g, w := got.Results[i], want[i]
		if !g.Done {
			if asp&aspTiming == 0 {
				continue
			}
			return obs.Failf(prop+"/"+name+"/call-never-returned", fmt.Sprintf("call %d returns at tick %d (%s)", i, w.At, w.Err), "still pending at the end of the scenario")
		}
		if g.Nil && g.Err == "nil" {
			return obs.Failf(prop+"/"+name+"/nil-nil", fmt.Sprintf("call %d: a response or an error", i), "(nil, nil) at tick %d", g.At)
		}
		errEq := g.Err == w.Err || (w.Err == "error" && g.Err != "nil")
		if !errEq && asp&(aspIdentity|aspTiming) != 0 {
			return obs.Failf(prop+"/"+name+"/outcome", fmt.Sprintf("call %d: %s at tick %d (serial %d)", i, w.Err, w.At, w.Serial), "%s at tick %d (serial %d)", g.Err, g.At, g.Serial)
		}
		if asp&aspIdentity != 0 && w.Err == "nil" && g.Err == "nil" && (g.Serial != w.Serial || g.Typ != w.Typ) {
			return obs.Failf(prop+"/"+name+"/wrong-response", fmt.Sprintf("call %d returns datagram serial %d (type %d): the first one in arrival order its matcher accepts", i, w.Serial, w.Typ), "serial %d (type %d)", g.Serial, g.Typ)
		}
		if asp&aspIdentity != 0 && w.Err == "nil" && g.Err == "nil" {
			// the returned message is the delivered datagram, whole (not a truncated or foreign one with the same tag)
			for _, d := range sc.Dels {
				if d.Serial == w.Serial && d.Kind == dgGood {
					ad := cliAdapter(&v4Adapter{})
					if sc.V6 {
						ad = &v6Adapter{}
					}
					ad.setDest(sc.Dest)
					if sent := ad.datagram(d.Kind, d.Xid, d.Typ, d.Serial, d.Op, d.HType, d.PadTo); !bytes.Equal(sent, g.Wire) {
						return obs.Failf(prop+"/"+name+"/response-content", fmt.Sprintf("call %d returns datagram %d as delivered (%d bytes)", i, d.Serial, len(sent)), "%d bytes, differs at byte %d", len(g.Wire), firstDiff(sent, g.Wire))
					}
					break
				}
			}
		}
		if asp&aspTiming != 0 && g.At != w.At {
			return obs.Failf(prop+"/"+name+"/return-instant", fmt.Sprintf("call %d returns at tick %d (%s)", i, w.At, w.Err), "tick %d", g.At)
		}
	}
	if asp&aspTiming != 0 && sc.CloseAt >= 0 && got.CloseAt != sc.CloseAt {
		return obs.Failf(prop+"/"+name+"/close-instant", fmt.Sprintf("Close returns at tick %d", sc.CloseAt), "tick %d", got.CloseAt)
	}
	if asp&aspWrites != 0 {
		if len(got.Writes) != len(wantWrites) {
			return obs.Failf(prop+"/"+name+"/transmission-count", fmt.Sprintf("%d transmissions at ticks %v", len(wantWrites), writeTicks(wantWrites)), "%d at ticks %v", len(got.Writes), writeTicks(got.Writes))
		}
		for i := range wantWrites {
			if got.Writes[i].At != wantWrites[i].At {
				return obs.Failf(prop+"/"+name+"/transmission-instant", fmt.Sprintf("ticks %v", writeTicks(wantWrites)), "%v", writeTicks(got.Writes))
			}
			if got.Writes[i].To != wantWrites[i].To {
				return obs.Failf(prop+"/"+name+"/transmission-destination", wantWrites[i].To, "%s", got.Writes[i].To)
			}
			if wb := got.ReqWire[wantWrites[i].Call]; !bytes.Equal(got.Writes[i].B, wb) {
				return obs.Failf(prop+"/"+name+"/transmission-bytes", fmt.Sprintf("transmission %d identical to the request's encoding", i), "differs at byte %d: %x vs %x", firstDiff(got.Writes[i].B, wb), clipb(got.Writes[i].B[firstDiff(got.Writes[i].B, wb):]), clipb(wb[firstDiff(got.Writes[i].B, wb):]))
			}
		}
	}
	return nil
}

// cmpCliLoose: assertions that hold whatever the scheduler picks when a matcher was held past a try deadline
// (single-call scenarios): the call returns, no later than a full schedule after its matcher was released; what it
// returns is a datagram that passed the filters, carries its id, arrived while it was registered and satisfies the
// matcher — or the no-response error; never (nil, nil); no goroutine is left (checked by the caller via Problem).
func cmpCliLoose(prop, name string, sc cliScenario, got cliOutcome) *obs.Fail {
	n := sc.Tries
	if n < 0 {
		n = sc.window()
	}
	for i, c := range sc.Calls {
		g := got.Results[i]
		bound := max(c.ReleaseAt, c.Start) + sc.T*((1<<uint(n))-1)
		if !g.Done {
			return obs.Failf(prop+"/"+name+"/call-never-returned", fmt.Sprintf("call %d returns by tick %d (one full schedule after its matcher was released at %d)", i, bound, c.ReleaseAt), "still pending at the end of the scenario")
		}
		if g.Nil && g.Err == "nil" {
			return obs.Failf(prop+"/"+name+"/nil-nil", fmt.Sprintf("call %d: a response or an error", i), "(nil, nil) at tick %d", g.At)
		}
		if g.At > bound && sc.Tries >= 0 {
			return obs.Failf(prop+"/"+name+"/return-instant", fmt.Sprintf("call %d returns by tick %d (one full schedule after its matcher was released at %d)", i, bound, c.ReleaseAt), "tick %d (%s)", g.At, g.Err)
		}
		switch g.Err {
		case "nil":
			ok := false
			for _, d := range sc.Dels {
				if d.Serial == g.Serial && passesFilters(sc.V6, d) && d.Xid == c.Xid && d.Typ == c.Want && d.At >= c.Start && d.At <= g.At {
					ok = true
				}
			}
			if !ok {
				return obs.Failf(prop+"/"+name+"/wrong-response", fmt.Sprintf("call %d returns a datagram of its own transaction that arrived while it waited and satisfies its matcher", i), "serial %d (type %d) at tick %d", g.Serial, g.Typ, g.At)
			}
			// a datagram taken from the queue that built up while the matcher was held is the first acceptable one of
			// that queue (the queue keeps arrival order; what arrives after the release may belong to a later try)
			var gd *cliDeliver
			for k := range sc.Dels {
				if sc.Dels[k].Serial == g.Serial {
					gd = &sc.Dels[k]
				}
			}
			// (only for a datagram that certainly sat in the transaction's own queue: one of the first four behind the held
			// one — later ones may still have been in the socket when the matcher was released, and a retry drops the queue)
			pos := 0
			if gd != nil {
				for k := range sc.Dels {
					e := sc.Dels[k]
					if passesFilters(sc.V6, e) && e.Xid == c.Xid && e.At >= c.Start && (e.At < gd.At || (e.At == gd.At && e.Serial < gd.Serial)) {
						pos++
					}
				}
			}
			if gd != nil && gd.At < c.ReleaseAt && pos <= 4 {
				for k := range sc.Dels {
					e := sc.Dels[k]
					if e.Serial != g.Serial && passesFilters(sc.V6, e) && e.Xid == c.Xid && e.Typ == c.Want && e.At >= c.Start && (e.At < gd.At || (e.At == gd.At && e.Serial < gd.Serial)) {
						return obs.Failf(prop+"/"+name+"/wrong-response", fmt.Sprintf("call %d returns the first acceptable datagram of the queue (serial %d, arrived at tick %d)", i, e.Serial, e.At), "serial %d (arrived at tick %d)", g.Serial, gd.At)
					}
				}
			}
		case "no-response":
		default:
			if sc.Tries >= 0 {
				return obs.Failf(prop+"/"+name+"/outcome", fmt.Sprintf("call %d: a response or the no-response error", i), "%s at tick %d", g.Err, g.At)
			}
		}
	}
	return nil
}

func writeTicks(w []cliWrite) []int {
	var t []int
	for _, x := range w {
		t = append(t, x.At)
	}
	return t
}
