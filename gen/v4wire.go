package gen

import (
	"pgregory.net/rapid"

	"verif/ref/refv4"
)

// V4Wire builds a DHCPv4 datagram from a generated packet value with a
// generated (possibly non-canonical but well-formed) layout: options in any
// order, values split into instances at arbitrary points, pad bytes between
// options, trailing bytes after End, raw hlen up to 255, name fields with or
// without NUL terminator. With mutate > 0 up to that many byte-level mutations
// are applied afterwards (truncation, length-byte perturbation, byte flips,
// cookie corruption), which usually makes the datagram malformed.
func V4Wire(maxOpts, maxVal, mutate int) *rapid.Generator[[]byte] {
	return rapid.Custom(func(t *rapid.T) []byte {
		c := V4Packet(maxOpts, maxVal).Draw(t, "pkt")
		p := c.Ref()
		var ch [16]byte
		hlen := uint8(len(c.CHAddr))
		switch rapid.IntRange(0, 5).Draw(t, "hlenmode") {
		case 0: // raw hlen beyond 16 with a fully used field
			hlen = rapid.SampledFrom([]uint8{17, 32, 128, 255}).Draw(t, "hlenraw")
			copy(ch[:], Fill(t, 16, "ch16"))
		case 1: // bytes after the address inside the 16-byte field
			copy(ch[:], Fill(t, 16, "ch16"))
			copy(ch[:], c.CHAddr)
		default:
			copy(ch[:], c.CHAddr)
		}
		var sn [64]byte
		var fl [128]byte
		switch rapid.IntRange(0, 4).Draw(t, "namemode") {
		case 0: // no NUL at all
			copy(sn[:], noNUL(Fill(t, 64, "sn64")))
			copy(fl[:], noNUL(Fill(t, 128, "fl128")))
		case 1: // garbage after the first NUL
			copy(sn[:], Fill(t, 64, "sn64"))
			copy(fl[:], Fill(t, 128, "fl128"))
			copy(sn[:], c.SName)
			sn[len(c.SName)] = 0
			copy(fl[:], c.File)
			fl[len(c.File)] = 0
		default:
			copy(sn[:], c.SName)
			copy(fl[:], c.File)
		}
		b := refv4.Header(p, hlen, ch, sn, fl)

		// instances
		var ins []refv4.Instance
		for _, o := range c.Opts {
			v := []byte(o.Val)
			mode := rapid.IntRange(0, 5).Draw(t, "split")
			if mode == 5 { // the value in one or two pieces with EMPTY instances of the same code before, between or after them
				pieces := [][]byte{v}
				if len(v) > 1 && len(v) <= 510 {
					k := rapid.IntRange(1, min(len(v)-1, 255)).Draw(t, "cut")
					if len(v)-k <= 255 {
						pieces = [][]byte{v[:k], v[k:]}
					}
				}
				if len(v) > 255 && len(pieces) == 1 {
					pieces = nil
					for r := v; len(r) > 0; {
						n := min(len(r), 255)
						pieces = append(pieces, r[:n])
						r = r[n:]
					}
				}
				where := rapid.IntRange(0, 3).Draw(t, "emptywhere") // 0 before, 1 after, 2 between, 3 before and after
				for i, pc := range pieces {
					if (where == 0 || where == 3) && i == 0 {
						ins = append(ins, refv4.Instance{Code: o.Code})
					}
					if where == 2 && i == 1 {
						ins = append(ins, refv4.Instance{Code: o.Code})
					}
					ins = append(ins, refv4.Instance{Code: o.Code, Val: pc})
				}
				if where == 1 || where == 3 || (where == 2 && len(pieces) == 1) {
					ins = append(ins, refv4.Instance{Code: o.Code})
				}
				continue
			}
			if mode == 4 { // hundreds of 1-byte (and a few empty) instances of one code
				if len(v) == 0 {
					ins = append(ins, refv4.Instance{Code: o.Code})
				}
				for len(v) > 0 {
					n := 1
					if rapid.IntRange(0, 40).Draw(t, "empty") == 0 {
						n = 0
					}
					ins = append(ins, refv4.Instance{Code: o.Code, Val: v[:n]})
					v = v[n:]
				}
				continue
			}
			if len(v) > 255 && mode == 3 {
				mode = 0
			}
			switch {
			case mode == 0: // canonical RFC 3396 split
				if len(v) == 0 {
					ins = append(ins, refv4.Instance{Code: o.Code})
				}
				for len(v) > 0 {
					n := min(len(v), 255)
					ins = append(ins, refv4.Instance{Code: o.Code, Val: v[:n]})
					v = v[n:]
				}
			case mode == 1 || mode == 2: // arbitrary split points, possibly empty instances
				if len(v) == 0 {
					ins = append(ins, refv4.Instance{Code: o.Code})
				}
				for len(v) > 0 {
					n := rapid.IntRange(0, min(len(v), 255)).Draw(t, "chunk")
					ins = append(ins, refv4.Instance{Code: o.Code, Val: v[:n]})
					v = v[n:]
				}
			default: // single instance
				ins = append(ins, refv4.Instance{Code: o.Code, Val: v})
			}
		}
		// order: keep, or shuffle instances across codes (relative order per code kept)
		if len(ins) > 1 && rapid.IntRange(0, 2).Draw(t, "shuffle") != 0 {
			perm := rapid.Permutation(seq(len(ins))).Draw(t, "perm")
			// stable per code: reorder positions but keep per-code sequence
			byCode := map[uint8][]refv4.Instance{}
			for _, in := range ins {
				byCode[in.Code] = append(byCode[in.Code], in)
			}
			out := make([]refv4.Instance, 0, len(ins))
			for _, pi := range perm {
				code := ins[pi].Code
				out = append(out, byCode[code][0])
				byCode[code] = byCode[code][1:]
			}
			ins = out
		}
		for i := range ins {
			if rapid.IntRange(0, 5).Draw(t, "pad") == 0 {
				ins[i].Pad = rapid.IntRange(1, 3).Draw(t, "npad")
			}
		}
		end := true
		var trailing []byte
		switch rapid.IntRange(0, 9).Draw(t, "tail") {
		case 8, 9:
			// bytes after End that look like more options: a well-formed run (relay agent information with sub-options,
			// a message type, anything) with an End of its own — after End they are padding, whatever they look like
			var more []refv4.Instance
			if rapid.Bool().Draw(t, "trail82") {
				more = append(more, refv4.Instance{Code: 82, Val: []byte{1, 3, 'e', 't', 'h', 2, 2, 'i', 'd'}})
			}
			for k := rapid.IntRange(0, 2).Draw(t, "ntrailopts"); k > 0; k-- {
				more = append(more, refv4.Instance{Code: rapid.SampledFrom([]uint8{53, 54, 12, 82, 61, 1, 255 - 1}).Draw(t, "trailcode"), Val: Fill(t, rapid.IntRange(0, 6).Draw(t, "traillen"), "trailval")})
			}
			if len(more) > 0 {
				trailing = refv4.Area(more, rapid.Bool().Draw(t, "trailend"), nil)
			}
		case 0:
			trailing = Fill(t, rapid.IntRange(1, 40).Draw(t, "ntrail"), "trail")
		case 1:
			end = false
		case 2:
			end = false
			trailing = make([]byte, rapid.IntRange(1, 8).Draw(t, "zeros"))
		case 3: // padded to the BOOTP minimum like real clients do
			trailing = make([]byte, 60)
		}
		if len(ins) == 0 && rapid.IntRange(0, 3).Draw(t, "emptyarea") == 0 {
			end, trailing = false, nil
		}
		b = append(b, refv4.Area(ins, end, trailing)...)
		for k := 0; k < mutate; k++ {
			if rapid.IntRange(0, 1).Draw(t, "domut") == 0 {
				continue
			}
			b = MutateV4(t, b)
		}
		return b
	})
}

func seq(n int) []int {
	s := make([]int, n)
	for i := range s {
		s[i] = i
	}
	return s
}

// MutateV4 applies one byte-level mutation aimed at the places where DHCPv4
// framing decisions are taken.
func MutateV4(t *rapid.T, b []byte) []byte {
	b = append([]byte{}, b...)
	if len(b) == 0 {
		return b
	}
	switch rapid.IntRange(0, 7).Draw(t, "mut") {
	case 0: // truncate anywhere
		return b[:rapid.IntRange(0, len(b)).Draw(t, "cut")]
	case 1: // truncate inside the options area
		if len(b) > refv4.OptsOff {
			return b[:rapid.IntRange(refv4.OptsOff, len(b)).Draw(t, "cut")]
		}
	case 2: // corrupt a cookie byte
		if len(b) >= refv4.OptsOff {
			b[refv4.CookieOff+rapid.IntRange(0, 3).Draw(t, "ck")] ^= byte(rapid.IntRange(1, 255).Draw(t, "x"))
		}
	case 3: // perturb a length byte of some option (walk the area)
		offs := v4LengthOffsets(b)
		if len(offs) > 0 {
			o := rapid.SampledFrom(offs).Draw(t, "lenoff")
			b[o] = rapid.SampledFrom([]byte{0, 1, b[o] - 1, b[o] + 1, 254, 255, byte(len(b) - o - 1), byte(len(b) - o)}).Draw(t, "newlen")
		}
	case 4: // set hlen
		if len(b) > 2 {
			b[2] = rapid.Byte().Draw(t, "hlen")
		}
	case 5: // flip any byte
		i := rapid.IntRange(0, len(b)-1).Draw(t, "i")
		b[i] = rapid.Byte().Draw(t, "v")
	case 6: // replace a code byte by End or Pad
		offs := v4LengthOffsets(b)
		if len(offs) > 0 {
			o := rapid.SampledFrom(offs).Draw(t, "codeoff") - 1
			b[o] = rapid.SampledFrom([]byte{0, 255}).Draw(t, "code")
		}
	case 7: // append bytes
		b = append(b, Fill(t, rapid.IntRange(1, 9).Draw(t, "napp"), "app")...)
	}
	return b
}

// v4LengthOffsets walks the options area leniently and returns the offsets of the length bytes.
func v4LengthOffsets(b []byte) []int {
	var offs []int
	i := refv4.OptsOff
	for i < len(b) {
		c := b[i]
		i++
		if c == 0 {
			continue
		}
		if c == 255 || i >= len(b) {
			break
		}
		offs = append(offs, i)
		i += 1 + int(b[i])
	}
	return offs
}
