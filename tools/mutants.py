#!/usr/bin/env python3
"""Sensitivity run: applies hand-written mutants (textual edits of /repo's working tree) one at a time,
checks that the tree still builds, runs the quick checks named for the mutant and expects exit 1, then
always restores /repo. Each mutant is also stored as a patch under /verif/mutants/. Results go to
/verif/mutants/results.json.   usage: tools/mutants.py [name-substring ...]"""
import json
import os
import subprocess
import sys

REPO = "/repo"
VERIF = "/verif"
ENV = dict(os.environ, GOFLAGS="-mod=mod", GOPROXY="off", GOSUMDB="off", GOTOOLCHAIN="local")

# (name, file, old, new, [properties], note)
M = [
    ("c01-sname-62", "dhcpv4/dhcpv4.go", "copy(sname[:63], []byte(d.ServerHostName))", "copy(sname[:62], []byte(d.ServerHostName))", ["C01", "C06"], "server name cut one byte early on encode"),
    ("c04-loop-needs-2", "dhcpv4/options.go", "for buf.Len() >= 1 {", "for buf.Len() >= 2 {", ["C04"], "a trailing End as the very last byte is not seen"),
    ("c04-hlen-clamp-15", "dhcpv4/dhcpv4.go", "\tif hwAddrLen > 16 {\n\t\thwAddrLen = 16\n\t}", "\tif hwAddrLen > 16 {\n\t\thwAddrLen = 15\n\t}", ["C04"], "hlen > 16 clipped to 15"),
    ("c04-names-last-nul", "dhcpv4/dhcpv4.go", "length := strings.Index(string(sname[:]), \"\\x00\")", "length := strings.LastIndex(string(sname[:]), \"\\x00\")", ["C04"], "server name cut at the last NUL"),
    ("c07-no-sort", "dhcpv4/options.go", "\tsort.Ints(codes)\n", "\t_ = sort.Ints\n", ["C07"], "options emitted in map order"),
    ("c07-82-not-last", "dhcpv4/options.go", "\t\tif k == optAgentInfo {\n\t\t\thasOptAgentInfo = true\n\t\t\tcontinue\n\t\t}", "\t\tif k == optAgentInfo && false {\n\t\t\thasOptAgentInfo = true\n\t\t\tcontinue\n\t\t}", ["C07"], "option 82 sorted with the others"),
    ("c07-pad-299", "dhcpv4/dhcpv4.go", "bootpMinLen = 300", "bootpMinLen = 299", ["C07"], "padded to 299"),
    ("c02-iana-t1t2-swapped", "dhcpv6/option_nontemporaryaddress.go", "\tt1 := Duration{op.T1}\n\tt1.Marshal(buf)\n\tt2 := Duration{op.T2}\n\tt2.Marshal(buf)", "\tt1 := Duration{op.T1}\n\tt2 := Duration{op.T2}\n\tt2.Marshal(buf)\n\tt1.Marshal(buf)", ["C02"], "IA_NA T1/T2 swapped on encode"),
    ("c02-iaprefix-lifetimes-symmetric", "dhcpv6/option_iaprefix.go", None, None, ["C02", "C05"], "IA prefix preferred/valid swapped in encoder AND decoder (invisible to a round trip)"),
    ("c05-option-loop-has5", "dhcpv6/options.go", "\tfor buf.Has(4) {", "\tfor buf.Has(5) {", ["C05"], "a final zero-length option is left unread"),
    ("c05-uuid-15", "dhcpv6/duid.go", "if len(p) != 16 {", "if len(p) < 15 {", ["C05", "C03"], "DUID-UUID of other sizes accepted"),
    ("c05-vendorclass-empty-ok", "dhcpv6/option_vendorclass.go", "\tif len(op.Data) == 0 {", "\tif len(op.Data) == 0 && false {", ["C05"], "vendor class without data accepted"),
    ("c05-iaaddr-no-finerror", "dhcpv6/option_iaaddress.go", "\treturn buf.FinError()\n}", "\treturn nil\n}", ["C05"], "truncated IA address accepted with zero fields"),
    ("c08-generic-keeps-input", "dhcpv6/options.go", "og.OptionData = append([]byte(nil), p...)", "og.OptionData = p", ["C08", "C14"], "unknown options alias the receive buffer"),
    ("c08-interfaceid-keeps-input", "dhcpv6/option_interfaceid.go", "op.ID = append([]byte(nil), data...)", "op.ID = data", ["C08"], "interface-id aliases the receive buffer"),
    ("c08-v4-first-instance-aliases", "dhcpv4/options.go", "\t\to[code] = append(o[code], data...)", "\t\tif _, ok := o[code]; !ok {\n\t\t\to[code] = data\n\t\t} else {\n\t\t\to[code] = append(o[code], data...)\n\t\t}", ["C08", "C04"], "first instance of a v4 option aliases the buffer (capacity clamped)"),
    ("c10-no-hw-filter", "dhcpv4/nclient4/client.go", "if c.ifaceHWAddr != nil && !bytes.Equal(c.ifaceHWAddr, msg.ClientHWAddr) {", "if false && !bytes.Equal(c.ifaceHWAddr, msg.ClientHWAddr) {", ["C10", "C13"], "replies for other hardware addresses accepted"),
    ("c10-no-inuse-check-v6", "dhcpv6/nclient6/client.go", "\tif _, ok := c.pending[msg.TransactionID]; ok {\n\t\tc.pendingMu.Unlock()\n\t\treturn nil, nil, fmt.Errorf", "\tif _, ok := c.pending[msg.TransactionID]; ok && false {\n\t\tc.pendingMu.Unlock()\n\t\treturn nil, nil, fmt.Errorf", ["C10"], "a colliding transaction id replaces the pending one"),
    ("c11-close-without-done", "dhcpv4/nclient4/client.go", "\tclose(c.done)\n", "\t_ = c.done\n", ["C11"], "Close does not wake pending calls"),
    ("c11-no-rem-v6", "dhcpv6/nclient6/client.go", "\t\tdefer rem()\n", "\t\t_ = rem\n", ["C11", "C10"], "transaction never unregistered"),
    ("c12-additive-backoff", "dhcpv4/nclient4/client.go", "\t\t\ttimeout *= 2\n", "\t\t\ttimeout += c.timeout\n", ["C12", "C11"], "waits T, 2T, 3T"),
    ("c12-one-try-too-many-v6", "dhcpv6/nclient6/client.go", "for i := 0; i < c.retry || c.retry < 0; i++ {", "for i := 0; i <= c.retry || c.retry < 0; i++ {", ["C12"], "n+1 transmissions"),
    ("c13-no-server-check", "dhcpv4/nclient4/client.go", "\t\tIsCorrectServer(offer.ServerIdentifier()),\n", "", ["C13"], "ACK from any server completes the REQUEST"),
    ("c13-renew-keeps-54", "dhcpv4/dhcpv4.go", "\t\t// The renewal request must use unicast\n\t\tWithBroadcast(false),", "\t\t// The renewal request must use unicast\n\t\tWithBroadcast(false),\n\t\tWithOptionCopied(ack, OptionServerIdentifier),", ["C13", "C15"], "renewal carries a server identifier"),
    ("c14-return-on-parse-error", "dhcpv6/server6/server.go", "\t\t\ts.logger.Printf(\"Error parsing DHCPv6 request: %v\", err)\n\t\t\tcontinue", "\t\t\ts.logger.Printf(\"Error parsing DHCPv6 request: %v\", err)\n\t\t\treturn err", ["C14"], "a malformed datagram stops the server"),
    ("c14-peer-rewrite-dropped", "dhcpv4/server4/server.go", "if upeer.IP == nil || upeer.IP.To4().Equal(net.IPv4zero) {", "if upeer.IP == nil {", ["C14"], "0.0.0.0 senders are not answered by broadcast"),
    ("c15-prepend-reversed", "dhcpv4/dhcpv4.go", "\treturn append(other, m...)", "\treturn append(m, other...)", ["C15"], "defaults applied after the caller's modifiers"),
    ("c15-reply-drops-flags", "dhcpv4/modifiers.go", "\t\td.Flags = request.Flags\n", "", ["C15"], "reply does not copy the flags"),
    ("c16-hopcount-not-incremented", "dhcpv6/dhcpv6.go", "outer.HopCount = relay.HopCount + 1", "outer.HopCount = relay.HopCount", ["C16"], "hop count stays"),
    ("c16-relayrepl-wrong-order", "dhcpv6/dhcpv6relay.go", "m, err = EncapsulateRelay(m, MessageTypeRelayReply, linkAddr[i], peerAddr[i])", "m, err = EncapsulateRelay(m, MessageTypeRelayReply, linkAddr[len(linkAddr)-1-i], peerAddr[i])", ["C16"], "link addresses rebuilt in the wrong order"),
    ("c17-duration-trailing-bytes", "dhcpv4/option_duration.go", "\treturn buf.FinError()", "\treturn buf.Error()", ["C17"], "a 5-byte lease time is read as its first 4 bytes"),
    ("c17-mask-33", "dhcpv4/option_routes.go", "if maskSize > 32 {", "if maskSize > 33 {", ["C17"], "mask width 33 accepted"),
    ("c17-strings-zero-length", "dhcpv4/option_strings.go", "\t\tif ucLen == 0 {", "\t\tif ucLen == 0 && false {", ["C17"], "empty user-class item accepted"),
    ("c18-no-carry-fold", "dhcpv4/nclient4/ipv4.go", "\treturn uint16(v + v>>16)", "\treturn uint16(v)", ["C18"], "end-around carry dropped"),
    ("c18-port-check-dropped", "dhcpv4/nclient4/conn_unix.go", "\treturn bound.Port == addr.Port", "\treturn true", ["C18"], "frames for other ports delivered"),
    ("c18-odd-tail-low-octet", "dhcpv4/nclient4/ipv4.go", "v += uint32(buf[l]) << 8", "v += uint32(buf[l])", ["C18"], "odd payload tail summed in the low octet"),
    ("c19-pointer-mask-80", "rfc1035label/label.go", "} else if length&0xc0 == 0xc0 {", "} else if length&0x80 == 0x80 {", ["C19", "C05"], "0x80..0xbf read as pointers"),
    ("c19-always-reencode", "rfc1035label/label.go", "\tif err != nil || (l.original != nil && same(originalLabels, l.Labels)) {\n\t\treturn l.original\n\t}", "\t_ = originalLabels\n\tif err != nil {\n\t\treturn l.original\n\t}", ["C19", "C06"], "compression lost on re-encoding (meaning kept: C06 must stay green for names, C19 must fail)"),
    ("c20-labels-string-clears-original", "rfc1035label/label.go", "func (l *Labels) String() string {\n", "func (l *Labels) String() string {\n\tl.original = nil\n", ["C20"], "printing a label set drops its original bytes"),
    ("c03-autoconf-empty", "dhcpv4/option_autoconfigure.go", "\tif len(data) == 1 {", "\tif len(data) <= 1 {", ["C03"], "index out of range on an empty value"),
    ("c03-status-unchecked", "dhcpv6/dhcpv6message.go", "\tsc, ok := opt.(*OptStatusCode)\n\tif !ok {\n\t\treturn nil\n\t}\n\treturn sc\n}\n\n// RequestedOptions", "\treturn opt.(*OptStatusCode)\n}\n\n// RequestedOptions", ["C03"], "unchecked type assertion (cannot fire on decoded values: expected to stay green)"),
    ("c09-v4-quadratic-concat", "dhcpv4/options.go", "\t\to[code] = append(o[code], data...)", "\t\to[code] = append(append(make([]byte, 0, len(o[code])+len(data)), o[code]...), data...)", ["C09"], "exact-fit growth: quadratic copying for repeated options"),
    ("c06-v6-options-sorted", "dhcpv6/options.go", "func (o Options) ToBytes() []byte {\n\tbuf := uio.NewBigEndianBuffer(nil)\n", "func (o Options) ToBytes() []byte {\n\tbuf := uio.NewBigEndianBuffer(nil)\n\to = append(Options(nil), o...)\n\tsort.SliceStable(o, func(i, j int) bool { return o[i].Code() < o[j].Code() })\n", ["C06", "C02"], "DHCPv6 options sorted by code on encode"),
]

SPECIAL = {
    "c02-iaprefix-lifetimes-symmetric": [
        ("dhcpv6/option_iaprefix.go", "\tt1 := Duration{op.PreferredLifetime}\n\tt1.Marshal(buf)\n\tt2 := Duration{op.ValidLifetime}\n\tt2.Marshal(buf)", "\tt1 := Duration{op.PreferredLifetime}\n\tt2 := Duration{op.ValidLifetime}\n\tt2.Marshal(buf)\n\tt1.Marshal(buf)"),
        ("dhcpv6/option_iaprefix.go", "\tt1.Unmarshal(buf)\n\tt2.Unmarshal(buf)\n\top.PreferredLifetime = t1.Duration", "\tt2.Unmarshal(buf)\n\tt1.Unmarshal(buf)\n\top.PreferredLifetime = t1.Duration"),
    ],
    "c06-v6-options-sorted": [
        ("dhcpv6/options.go", "import (\n\t\"fmt\"\n\t\"strings\"\n", "import (\n\t\"fmt\"\n\t\"sort\"\n\t\"strings\"\n"),
    ],
}


def sh(cmd, cwd=None):
    return subprocess.run(cmd, shell=True, cwd=cwd, env=ENV, stdout=subprocess.PIPE, stderr=subprocess.STDOUT, text=True)


def main():
    want = sys.argv[1:]
    if sh("git status --porcelain", REPO).stdout.strip():
        print("/repo not clean")
        return 2
    os.makedirs(os.path.join(VERIF, "mutants"), exist_ok=True)
    resf = os.path.join(VERIF, "mutants", "results.json")
    results = json.load(open(resf)) if os.path.exists(resf) else {}
    for name, f, old, new, props, note in M:
        if want and not any(w in name for w in want):
            continue
        edits = list(SPECIAL.get(name, []))
        if old is not None:
            edits.append((f, old, new))
        try:
            ok = True
            for ef, eo, en in edits:
                p = os.path.join(REPO, ef)
                s = open(p).read()
                if eo not in s:
                    print("%s: pattern not found in %s" % (name, ef))
                    ok = False
                    break
                open(p, "w").write(s.replace(eo, en, 1))
            if not ok:
                results[name] = {"status": "pattern-not-found"}
                continue
            b = sh("go build ./...", REPO)
            if b.returncode != 0:
                print("%s: does not build\n%s" % (name, b.stdout[-400:]))
                results[name] = {"status": "does-not-build"}
                continue
            open(os.path.join(VERIF, "mutants", name + ".patch"), "w").write(sh("git diff", REPO).stdout)
            r = {"note": note, "checks": {}}
            for pid in props:
                c = sh("./check %s quick" % pid, VERIF)
                sigs = sorted(set(l.split("sig=")[-1] for l in c.stdout.splitlines() if l.startswith("VIOLATION")))
                r["checks"][pid] = {"exit": c.returncode, "sigs": sigs[:4]}
                print("%-36s %s exit=%d %s" % (name, pid, c.returncode, sigs[:2]))
            r["status"] = "killed" if any(v["exit"] == 1 for v in r["checks"].values()) else "survived"
            results[name] = r
        finally:
            sh("git checkout -- .", REPO)
        json.dump(results, open(resf, "w"), indent=1, sort_keys=True)
    dirty = sh("git status --porcelain", REPO).stdout.strip()
    if dirty:
        print("WARNING /repo dirty:", dirty)
    return 0


if __name__ == "__main__":
    sys.exit(main())
