// Package netsim is a scripted in-memory net.PacketConn for driving the DHCP
// clients and servers deterministically. It blocks on channels only (channel
// operations are durably blocking for testing/synctest; a sync.Mutex is not),
// records every write with its (virtual) instant and lets a scenario inject
// datagrams.
package netsim

import (
	"net"
	"sync"
	"sync/atomic"
	"time"
)

// Datagram is one injected read.
type Datagram struct {
	B    []byte
	From net.Addr
	Err  error // when set, ReadFrom returns this error (a failing socket)
}

// Write is one recorded transmission.
type Write struct {
	At time.Duration // since the connection was created
	To net.Addr
	B  []byte
}

// Conn implements net.PacketConn.
type Conn struct {
	inbox     chan Datagram
	closed    chan struct{}
	closeOnce sync.Once
	mu        sync.Mutex // guards writes/reads only; held for a few instructions
	writes    []Write
	reads     int
	start     time.Time
	Local     net.Addr
	OnWrite   func(w Write) // called in the writer's goroutine after recording
	CloseErr  error
	CloseGate chan struct{}     // when set, every Close waits for it (to hold a client's Close open)
	OnClose   func()            // called on entry of every Close, before the gate
	active    atomic.Int32      // ReadFrom calls in progress
	WriteErr  func(n int) error // fault injection: when set and non-nil for the n-th WriteTo (0-based), that write fails with it
	nwrites   atomic.Int32
	LogReads  bool // keep a copy of what every successful ReadFrom handed to the reader
	readLog   [][]byte
}

// ReadLog returns, in order, the bytes each successful read handed to the reader (what was "read from the socket":
// a datagram longer than the reader's buffer is cut to the buffer, as a UDP socket does).
func (c *Conn) ReadLog() [][]byte {
	c.mu.Lock()
	defer c.mu.Unlock()
	return append([][]byte{}, c.readLog...)
}

// ActiveReads reports how many ReadFrom calls have not returned yet: a reader that stopped is one whose read returned.
func (c *Conn) ActiveReads() int { return int(c.active.Load()) }

// New creates a connection whose inbox can hold cap injected datagrams.
func New(capacity int) *Conn {
	return &Conn{inbox: make(chan Datagram, capacity), closed: make(chan struct{}), start: time.Now(), Local: &net.UDPAddr{IP: net.IPv4zero, Port: 68}}
}

// Deliver injects a datagram (never blocks while the inbox has room).
func (c *Conn) Deliver(b []byte, from net.Addr) {
	c.inbox <- Datagram{B: append([]byte{}, b...), From: from}
}

// Fail makes the next read return err.
func (c *Conn) Fail(err error) { c.inbox <- Datagram{Err: err} }

func (c *Conn) ReadFrom(p []byte) (int, net.Addr, error) {
	c.active.Add(1)
	defer c.active.Add(-1)
	select {
	case <-c.closed:
		return 0, nil, net.ErrClosed
	default:
	}
	select {
	case d := <-c.inbox:
		c.mu.Lock()
		c.reads++
		c.mu.Unlock()
		if d.Err != nil {
			return 0, nil, d.Err
		}
		n := copy(p, d.B)
		if c.LogReads {
			c.mu.Lock()
			c.readLog = append(c.readLog, append([]byte{}, p[:n]...))
			c.mu.Unlock()
		}
		return n, d.From, nil
	case <-c.closed:
		return 0, nil, net.ErrClosed
	}
}

func (c *Conn) WriteTo(p []byte, addr net.Addr) (int, error) {
	select {
	case <-c.closed:
		return 0, net.ErrClosed
	default:
	}
	if c.WriteErr != nil {
		if err := c.WriteErr(int(c.nwrites.Add(1)) - 1); err != nil {
			return 0, err
		}
	}
	w := Write{At: time.Since(c.start), To: addr, B: append([]byte{}, p...)}
	c.mu.Lock()
	c.writes = append(c.writes, w)
	c.mu.Unlock()
	if c.OnWrite != nil {
		c.OnWrite(w)
	}
	return len(p), nil
}

// Writes returns a copy of the transmissions so far.
func (c *Conn) Writes() []Write {
	c.mu.Lock()
	defer c.mu.Unlock()
	return append([]Write{}, c.writes...)
}

// Reads returns how many injected datagrams were consumed.
func (c *Conn) Reads() int {
	c.mu.Lock()
	defer c.mu.Unlock()
	return c.reads
}

// Pending returns how many injected datagrams have not been read yet.
func (c *Conn) Pending() int { return len(c.inbox) }

func (c *Conn) Close() error {
	if c.OnClose != nil {
		c.OnClose()
	}
	if c.CloseGate != nil {
		<-c.CloseGate
	}
	c.closeOnce.Do(func() { close(c.closed) })
	return c.CloseErr
}

// IsClosed reports whether Close was called.
func (c *Conn) IsClosed() bool {
	select {
	case <-c.closed:
		return true
	default:
		return false
	}
}

func (c *Conn) LocalAddr() net.Addr                { return c.Local }
func (c *Conn) SetDeadline(t time.Time) error      { return nil }
func (c *Conn) SetReadDeadline(t time.Time) error  { return nil }
func (c *Conn) SetWriteDeadline(t time.Time) error { return nil }

// Since returns the (virtual) time elapsed since the connection was created.
func (c *Conn) Since() time.Duration { return time.Since(c.start) }
