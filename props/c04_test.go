package props

import (
	"bytes"
	"fmt"
	"os"
	"testing"

	"github.com/insomniacslk/dhcp/dhcpv4"
	"pgregory.net/rapid"

	"verif/gen"
	"verif/obs"
	"verif/ref/refv4"
)

// C04 — DHCPv4 decoding accepts exactly well-formed packets and reads the RFC values.
//
// Oracle: differential against refv4.Decode (written from the RFCs, no shared
// code): equal verdict, and on acceptance equal header fields and option map.

// diffV4 is the differential oracle on one byte string.
func diffV4(rec *obs.Rec, b []byte) *obs.Fail {
	want, why := refv4.Decode(b)
	in := append([]byte{}, b...)
	if len(b)%8 == 0 {
		// refused inputs come first (one case in eight): the verdict and the values read depend on these bytes alone
		for _, bad := range c01Refused() {
			_, _ = dhcpv4.FromBytes(bad)
		}
	}
	got, err := dhcpv4.FromBytes(in)
	if !bytes.Equal(in, b) {
		return obs.Failf("C04/decoder-wrote-to-its-input", "FromBytes leaves its input unchanged", "input changed at byte %d", firstDiff(in, b))
	}
	if rec != nil {
		if why == refv4.OK {
			rec.Class("accepted")
		} else {
			rec.Class("rejected:" + string(why))
		}
	}
	if (why == refv4.OK) != (err == nil) {
		if why == refv4.OK {
			return obs.Failf("C04/verdict/rejects-wellformed", "accept (reference: well-formed)", "error %v", err)
		}
		return obs.Failf("C04/verdict/accepts-malformed/"+string(why), "reject ("+string(why)+")", "accepted: %s", got)
	}
	if err != nil {
		return nil
	}
	if f := cmpRefV4("C04", want, got); f != nil {
		return f
	}
	// what a decode returns depends on the bytes alone, not on what callers did to earlier results: the first result
	// is overwritten in place, then the same bytes must read the same again
	scribbleValue(got, 0xA5)
	again, err := dhcpv4.FromBytes(append([]byte{}, b...))
	if err != nil {
		return obs.Failf("C04/verdict/second-decode", "the same bytes are accepted again", "error %v", err)
	}
	if f := cmpRefV4("C04", want, again); f != nil {
		f.Sig += "/after-an-earlier-result-was-overwritten"
		return f
	}
	return nil
}

func cmpRefV4(prefix string, want *refv4.Packet, got *dhcpv4.DHCPv4) *obs.Fail {
	bad := func(field string, w, g any) *obs.Fail {
		return obs.Failf(prefix+"/field/"+field, fmt.Sprintf("%s = %v", field, w), "%v", g)
	}
	if uint8(got.OpCode) != want.Op {
		return bad("op", want.Op, got.OpCode)
	}
	if uint8(got.HWType) != want.HType {
		return bad("htype", want.HType, got.HWType)
	}
	if got.HopCount != want.Hops {
		return bad("hops", want.Hops, got.HopCount)
	}
	if got.TransactionID != dhcpv4.TransactionID(want.Xid) {
		return bad("xid", want.Xid, got.TransactionID)
	}
	if got.NumSeconds != want.Secs {
		return bad("secs", want.Secs, got.NumSeconds)
	}
	if got.Flags != want.Flags {
		return bad("flags", want.Flags, got.Flags)
	}
	// the broadcast flag is the most significant bit of the flags field (RFC 2131 figure 2), whatever the other 15 are
	if got.IsBroadcast() != (want.Flags&0x8000 != 0) || got.IsUnicast() == got.IsBroadcast() {
		return bad("flags/broadcast-bit", want.Flags&0x8000 != 0, fmt.Sprintf("IsBroadcast=%v IsUnicast=%v (flags %04x)", got.IsBroadcast(), got.IsUnicast(), got.Flags))
	}
	if !ip4eq(got.ClientIPAddr, want.CI) {
		return bad("ciaddr", want.CI, got.ClientIPAddr)
	}
	if !ip4eq(got.YourIPAddr, want.YI) {
		return bad("yiaddr", want.YI, got.YourIPAddr)
	}
	if !ip4eq(got.ServerIPAddr, want.SI) {
		return bad("siaddr", want.SI, got.ServerIPAddr)
	}
	if !ip4eq(got.GatewayIPAddr, want.GI) {
		return bad("giaddr", want.GI, got.GatewayIPAddr)
	}
	if !bytes.Equal(got.ClientHWAddr, want.CHAddr) {
		return bad("chaddr", hx(want.CHAddr), hx(got.ClientHWAddr))
	}
	if got.ServerHostName != want.SName {
		return bad("sname", hx([]byte(want.SName)), hx([]byte(got.ServerHostName)))
	}
	if got.BootFileName != want.File {
		return bad("file", hx([]byte(want.File)), hx([]byte(got.BootFileName)))
	}
	return cmpOptMap(prefix, want.Opts, got.Options)
}

var c04 = newChk("C04", "differential",
	"byte strings (exhaustive option areas over a small alphabet, all truncations, all values of cookie/hlen/length bytes, generated and mutated packets ≤1500 bytes) decoded by the library and by the independent reference decoder; non-trivial = input reaches the options area (≥240 bytes with cookie), both verdicts count; distinct by input hash",
	func(rec *obs.Rec, c obs.Hex) *obs.Fail {
		f := diffV4(rec, c)
		if f == nil && len(c) >= refv4.OptsOff && bytes.Equal(c[refv4.CookieOff:refv4.OptsOff], refv4.Cookie[:]) {
			rec.NonTrivial(obs.Hash64(c), func() any { return map[string]any{"len": len(c), "options_area": hx(clipb(c[refv4.OptsOff:]))} })
		}
		return f
	})

func v4Prefix() []byte {
	p := &refv4.Packet{Op: 2, HType: 1, Hops: 1, Xid: [4]byte{0xde, 0xad, 0xbe, 0xef}, Secs: 3, Flags: 0x8000,
		CI: [4]byte{10, 0, 0, 1}, YI: [4]byte{10, 0, 0, 2}, SI: [4]byte{10, 0, 0, 3}, GI: [4]byte{10, 0, 0, 4}}
	var ch [16]byte
	copy(ch[:], []byte{1, 2, 3, 4, 5, 6})
	var sn [64]byte
	copy(sn[:], "srv")
	var fl [128]byte
	copy(fl[:], "boot.img")
	return refv4.Header(p, 6, ch, sn, fl)
}

// TestC04_SmallScope: every options area over the alphabet up to the length bound.
func TestC04_SmallScope(t *testing.T) {
	alpha := []byte{0x00, 0x01, 0x02, 0x03, 0xFF}
	maxLen := 7
	if os.Getenv("VERIF_TIER") == "thorough" {
		alpha = append(alpha, 0x35, 0x52)
	}
	prefix := v4Prefix()
	buf := make([]byte, 0, len(prefix)+maxLen)
	var rec func(area []byte)
	rec = func(area []byte) {
		b := append(append(buf[:0], prefix...), area...)
		c04.one(t, obs.Hex(append([]byte{}, b...)))
		if len(area) == maxLen {
			return
		}
		for _, a := range alpha {
			rec(append(area, a))
		}
	}
	rec(nil)
	c04.rec.Exhaustive()
	c04.rec.Extra("small_scope", fmt.Sprintf("all options areas over alphabet %x of length 0..%d", alpha, maxLen))
}

// TestC04_Corruptions: every truncation point; every value of each cookie byte,
// the hlen byte and every option length byte of a set of valid packets.
func TestC04_Corruptions(t *testing.T) {
	var bases [][]byte
	rapidSample(t, 24, 11, func(rt *rapid.T) {
		bases = append(bases, gen.V4Wire(6, 300, 0).Draw(rt, "base"))
	})
	bases = append(bases, append(v4Prefix(), 53, 1, 5, 1, 4, 255, 255, 255, 0, 255))
	// options areas made of pad bytes only (no End), of every length around the 300-byte BOOTP minimum, and the same closed by End
	for _, n := range []int{1, 2, 8, 58, 59, 60, 61, 62, 100, 336, 1260} {
		c04.one(t, obs.Hex(append(v4Prefix(), make([]byte, n)...)))
		c04.one(t, obs.Hex(append(append(v4Prefix(), make([]byte, n)...), 255)))
		c04.one(t, obs.Hex(append(append(v4Prefix(), 53, 1, 1), make([]byte, n)...)))
	}
	// one code repeated k times with 1-byte values (RFC 3396 concatenation far beyond two instances)
	for _, k := range []int{2, 3, 127, 128, 255, 256, 257, 258, 300, 400} {
		a := v4Prefix()
		for i := 0; i < k; i++ {
			a = append(a, 43, 1, byte(i))
		}
		c04.one(t, obs.Hex(append(a, 255)))
	}
	for _, base := range bases {
		for cut := 0; cut <= len(base); cut++ {
			if len(base) > 700 && cut > 300 && cut < len(base)-40 && cut%7 != 0 {
				continue
			}
			c04.one(t, obs.Hex(append([]byte{}, base[:cut]...)))
		}
		offs := []int{2, 236, 237, 238, 239}
		i := refv4.OptsOff
		for i < len(base) {
			c := base[i]
			i++
			if c == 0 {
				continue
			}
			if c == 255 || i >= len(base) {
				break
			}
			offs = append(offs, i)
			i += 1 + int(base[i])
		}
		for _, o := range offs {
			if o >= len(base) {
				continue
			}
			for v := 0; v < 256; v++ {
				m := append([]byte{}, base...)
				m[o] = byte(v)
				c04.one(t, obs.Hex(m))
			}
		}
	}
}

func TestC04_Rapid(t *testing.T) {
	c04.rapidCheck(t, rapid.Custom(func(rt *rapid.T) obs.Hex {
		if rapid.IntRange(0, 9).Draw(rt, "kind") == 0 {
			// unstructured bytes around the header size
			n := rapid.SampledFrom([]int{0, 1, 235, 236, 239, 240, 241, 300, 576}).Draw(rt, "n")
			return gen.Fill(rt, n, "raw")
		}
		return gen.V4Wire(8, 600, 3).Draw(rt, "wire")
	}))
}

// rapidSample draws n values deterministically (fixed seed) outside a property:
// used to build bases for deterministic enumerations.
func rapidSample(t *testing.T, n int, seed uint64, fn func(rt *rapid.T)) {
	t.Helper()
	g := rapid.Custom(func(rt *rapid.T) int { fn(rt); return 0 })
	for i := 0; i < n; i++ {
		g.Example(int(seed)*1000 + i)
	}
}

func FuzzC04_V4Differential(f *testing.F) {
	f.Add(append(v4Prefix(), 53, 1, 1, 255))
	f.Add(v4Prefix())
	f.Fuzz(func(t *testing.T, b []byte) {
		c04.one(t, obs.Hex(b))
	})
}
