package refv6

import (
	"bytes"
	"fmt"
	"sort"

	"verif/ref/reflabel"
)

// Normalize applies, in place, the representation normalisations that the
// properties C05/C06 allow between wire bytes and the decoded value:
//   - duplicate requested-option codes are dropped (first occurrence kept);
//   - an IA prefix of length 0 has no address;
//   - reserved bits of the 4RD flag octets are ignored, and so is the 4RD
//     traffic-class octet when the "traffic class present" flag is clear.
//
// Everything else (order, lengths, addresses, durations, payloads) is kept.
func Normalize(m *Msg) {
	if m == nil {
		return
	}
	normOpts(m.Opts)
}

func normOpts(opts []Opt) {
	for i := range opts {
		o := &opts[i]
		switch o.Typ {
		case "oro":
			seen := map[uint64]bool{}
			out := o.N[:0:0]
			for _, c := range o.N {
				if !seen[c] {
					seen[c] = true
					out = append(out, c)
				}
			}
			o.N = out
		case "iaprefix":
			if len(o.N) == 3 && o.N[2] == 0 && len(o.B) == 1 {
				o.B[0] = make([]byte, 16)
			}
		case "4rdmap":
			if len(o.N) == 4 {
				o.N[3] &= 0x80
			}
		case "4rdnonmap":
			if len(o.N) == 3 {
				o.N[0] &= 0x81
				if o.N[0]&1 == 0 {
					o.N[1] = 0
				}
			}
		}
		normOpts(o.Sub)
		if o.Msg != nil {
			Normalize(o.Msg)
		}
	}
}

// NormalizeEmbeddedV4 applies the DHCPv4 normalisations of the fixpoint property (C06) to every DHCPv4 message carried
// inside the tree: names cut to their NUL-terminated capacity, a hardware address length beyond 16 clipped.
func NormalizeEmbeddedV4(m *Msg) {
	if m == nil {
		return
	}
	var walk func(opts []Opt)
	walk = func(opts []Opt) {
		for i := range opts {
			o := &opts[i]
			walk(o.Sub)
			if o.Msg != nil {
				NormalizeEmbeddedV4(o.Msg)
			}
			if o.V4 != nil {
				v := *o.V4
				if len(v.SName) > 63 {
					v.SName = v.SName[:63]
				}
				if len(v.File) > 127 {
					v.File = v.File[:127]
				}
				if v.HLen > 16 {
					v.HLen = 16
				}
				o.V4 = &v
			}
		}
	}
	walk(m.Opts)
}

// Diff returns "" when the two trees are equal, otherwise a path and a
// description of the first difference. Label-bearing options are compared on
// their names; when wire is true also on their wire bytes.
func Diff(a, b *Msg, wire bool) (path, what string) {
	return diffMsg("msg", a, b, wire)
}

func diffMsg(p string, a, b *Msg, wire bool) (string, string) {
	if (a == nil) != (b == nil) {
		return p, fmt.Sprintf("one side has no message (%v vs %v)", a != nil, b != nil)
	}
	if a == nil {
		return "", ""
	}
	if a.Relay != b.Relay || a.Type != b.Type {
		return p + ".type", fmt.Sprintf("type %d relay=%v vs type %d relay=%v", a.Type, a.Relay, b.Type, b.Relay)
	}
	if a.Relay {
		if a.Hop != b.Hop {
			return p + ".hopcount", fmt.Sprintf("%d vs %d", a.Hop, b.Hop)
		}
		if a.Link != b.Link {
			return p + ".linkaddr", fmt.Sprintf("%x vs %x", a.Link, b.Link)
		}
		if a.Peer != b.Peer {
			return p + ".peeraddr", fmt.Sprintf("%x vs %x", a.Peer, b.Peer)
		}
	} else if a.Xid != b.Xid {
		return p + ".xid", fmt.Sprintf("%x vs %x", a.Xid, b.Xid)
	}
	return diffOpts(p, a.Opts, b.Opts, wire)
}

func diffOpts(p string, a, b []Opt, wire bool) (string, string) {
	if len(a) != len(b) {
		return p + ".options", fmt.Sprintf("%d options %v vs %d options %v", len(a), codes(a), len(b), codes(b))
	}
	for i := range a {
		q := fmt.Sprintf("%s.opt[%d:%d]", p, i, a[i].Code)
		if a[i].Code != b[i].Code {
			return q + ".code", fmt.Sprintf("%d vs %d", a[i].Code, b[i].Code)
		}
		if a[i].Typ != b[i].Typ {
			return q + ".type", fmt.Sprintf("%s vs %s", a[i].Typ, b[i].Typ)
		}
		if x, y := diffOpt(q, &a[i], &b[i], wire); x != "" {
			return x, y
		}
	}
	return "", ""
}

func codes(o []Opt) []uint16 {
	var c []uint16
	for _, x := range o {
		c = append(c, x.Code)
	}
	return c
}

func diffOpt(p string, a, b *Opt, wire bool) (string, string) {
	if len(a.N) != len(b.N) {
		return p + "/" + a.Typ + ".numeric", fmt.Sprintf("%v vs %v", a.N, b.N)
	}
	for i := range a.N {
		if a.N[i] != b.N[i] {
			return fmt.Sprintf("%s/%s.n[%d]", p, a.Typ, i), fmt.Sprintf("%d vs %d (all: %v vs %v)", a.N[i], b.N[i], a.N, b.N)
		}
	}
	label := a.Typ == "domains" || a.Typ == "fqdn" || a.Typ == "ntpfqdn"
	if label {
		if !strsEq(a.Names, b.Names) {
			return p + "/" + a.Typ + ".names", fmt.Sprintf("%q vs %q", a.Names, b.Names)
		}
		// same dotted strings, but are they the same labels? ("first.last" as one label is not "first" + "last")
		if len(a.B) > 0 && len(b.B) > 0 && a.B[len(a.B)-1] != nil && b.B[len(b.B)-1] != nil {
			sa, sb := reflabel.Structure(a.B[len(a.B)-1]), reflabel.Structure(b.B[len(b.B)-1])
			if sa != nil && sb != nil && fmt.Sprintf("%q", sa) != fmt.Sprintf("%q", sb) {
				return p + "/" + a.Typ + ".labels", fmt.Sprintf("label structure %q vs %q", sa, sb)
			}
		}
	}
	if !label || wire {
		if len(a.B) != len(b.B) {
			return p + "/" + a.Typ + ".bytes", fmt.Sprintf("%d byte fields %x vs %d byte fields %x", len(a.B), a.B, len(b.B), b.B)
		}
		for i := range a.B {
			if !bytes.Equal(a.B[i], b.B[i]) {
				return fmt.Sprintf("%s/%s.b[%d]", p, a.Typ, i), fmt.Sprintf("%x vs %x", clip(a.B[i]), clip(b.B[i]))
			}
		}
	}
	if (a.V4 == nil) != (b.V4 == nil) {
		return p + ".v4", "embedded DHCPv4 message present on one side only"
	}
	if a.V4 != nil {
		if d := a.V4.Diff(b.V4); d != "" {
			return p + ".v4", d
		}
	}
	if x, y := diffMsg(p+".relaymsg", a.Msg, b.Msg, wire); x != "" {
		return x, y
	}
	return diffOpts(p, a.Sub, b.Sub, wire)
}

func clip(b []byte) []byte {
	if len(b) > 40 {
		return b[:40]
	}
	return b
}

func strsEq(a, b []string) bool {
	if len(a) != len(b) {
		return false
	}
	for i := range a {
		if a[i] != b[i] {
			return false
		}
	}
	return true
}

// SortedKeys is a helper for deterministic iteration.
func SortedKeys(m map[uint8][]byte) []int {
	var k []int
	for c := range m {
		k = append(k, int(c))
	}
	sort.Ints(k)
	return k
}
