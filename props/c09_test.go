package props

import (
	"encoding/json"
	"fmt"
	"os"
	"path/filepath"
	"reflect"
	"runtime"
	"runtime/debug"
	"sort"
	"sync"
	"testing"
	"unsafe"

	"github.com/insomniacslk/dhcp/dhcpv4"
	"github.com/insomniacslk/dhcp/dhcpv6"
	"pgregory.net/rapid"

	"verif/gen"
	"verif/obs"
	"verif/ref/refv6"
)

// C09 — decoding cost is bounded: linear size, at most quadratic work.
//
// Measured per input (single goroutine, GC disabled during the measured region):
//   A = bytes allocated (runtime.MemStats.TotalAlloc delta) by decode + re-encode
//   S = reflective deep size of the decoded value
//   n = input length, d = option nesting depth found by a tolerant scan
// Time is never an oracle.

type c09Meas struct {
	Accepted bool
	A, S, H  uint64 // S = max(reflective deep size, H); H = heap kept alive by the decoded value
	N, D     int
}

// deepSize sums the memory reachable from v (slice capacities, string lengths,
// map entries approximated, pointers followed once).
// sliceRanges collects the address ranges of slice backing arrays so that
// overlapping sub-slices of one array (e.g. options that keep windows of one
// copied buffer) are counted once.
var sliceRanges [][2]uintptr

func deepSizeTotal(v reflect.Value) uint64 {
	sliceRanges = sliceRanges[:0]
	total := deepSize(v, map[uintptr]bool{})
	sort.Slice(sliceRanges, func(i, j int) bool { return sliceRanges[i][0] < sliceRanges[j][0] })
	var end uintptr
	for _, r := range sliceRanges {
		if r[1] <= end {
			continue
		}
		if r[0] < end {
			r[0] = end
		}
		total += uint64(r[1] - r[0])
		end = r[1]
	}
	return total
}

func deepSize(v reflect.Value, seen map[uintptr]bool) uint64 {
	if !v.IsValid() {
		return 0
	}
	switch v.Kind() {
	case reflect.Pointer:
		if v.IsNil() || seen[v.Pointer()] {
			return 0
		}
		seen[v.Pointer()] = true
		return uint64(v.Elem().Type().Size()) + deepInner(v.Elem(), seen)
	case reflect.Interface:
		if v.IsNil() {
			return 0
		}
		e := v.Elem()
		if e.Kind() == reflect.Pointer {
			return deepSize(e, seen)
		}
		return uint64(e.Type().Size()) + deepInner(e, seen)
	}
	return deepInner(v, seen)
}

// deepInner counts what hangs off a value whose own bytes are already counted by its holder.
func deepInner(v reflect.Value, seen map[uintptr]bool) uint64 {
	switch v.Kind() {
	case reflect.Pointer, reflect.Interface:
		return deepSize(v, seen)
	case reflect.String:
		return uint64(v.Len())
	case reflect.Slice:
		if v.IsNil() {
			return 0
		}
		var total uint64
		if v.Cap() > 0 {
			p := v.Pointer()
			sliceRanges = append(sliceRanges, [2]uintptr{p, p + uintptr(v.Cap())*v.Type().Elem().Size()})
			if seen[p] {
				return 0
			}
			seen[p] = true
		}
		switch v.Type().Elem().Kind() {
		case reflect.Pointer, reflect.Interface, reflect.String, reflect.Slice, reflect.Struct, reflect.Map, reflect.Array:
			for i := 0; i < v.Len(); i++ {
				total += deepInner(v.Index(i), seen)
			}
		}
		return total
	case reflect.Array:
		var total uint64
		switch v.Type().Elem().Kind() {
		case reflect.Pointer, reflect.Interface, reflect.String, reflect.Slice, reflect.Struct, reflect.Map:
			for i := 0; i < v.Len(); i++ {
				total += deepInner(v.Index(i), seen)
			}
		}
		return total
	case reflect.Struct:
		var total uint64
		for i := 0; i < v.NumField(); i++ {
			total += deepInner(v.Field(i), seen)
		}
		return total
	case reflect.Map:
		if v.IsNil() {
			return 0
		}
		total := uint64(v.Len()) * uint64(v.Type().Key().Size()+v.Type().Elem().Size()+16)
		it := v.MapRange()
		for it.Next() {
			total += deepInner(it.Key(), seen) + deepInner(it.Value(), seen)
		}
		return total
	}
	return 0
}

var _ = unsafe.Sizeof(0)

// c09Measure decodes and re-encodes one input and returns the cost figures.
func c09Measure(v6 bool, b []byte) c09Meas { return c09MeasureW(v6, b, 0) }

// c09MeasureW: with window > 0 the input is handed over as the front of a backing array that many octets larger (a
// datagram in a big read buffer, a packet inside a capture file): the cost is a function of the input's length.
func c09MeasureW(v6 bool, b []byte, window int) c09Meas {
	m := c09Meas{N: len(b)}
	if v6 {
		m.D = refv6.Depth(b)
	}
	in := append([]byte{}, b...)
	if window > 0 {
		big := make([]byte, len(b)+window)
		copy(big, b)
		in = big[:len(b)]
	}
	old := debug.SetGCPercent(-1)
	var m0, m1 runtime.MemStats
	runtime.ReadMemStats(&m0)
	var val any
	if v6 {
		d, err := dhcpv6.FromBytes(in)
		if err == nil {
			m.Accepted = true
			_ = d.ToBytes()
			val = d
		}
	} else {
		p, err := dhcpv4.FromBytes(in)
		if err == nil {
			m.Accepted = true
			_ = p.ToBytes()
			val = p
		}
	}
	runtime.ReadMemStats(&m1)
	m.A = m1.TotalAlloc - m0.TotalAlloc
	if val != nil {
		m.S = deepSizeTotal(reflect.ValueOf(val))
	}
	debug.SetGCPercent(old)
	if val != nil {
		// what the value keeps alive, as the collector sees it (backing arrays pinned by small windows included)
		// (two collections first: sync.Pool contents survive one cycle in the victim cache and would otherwise
		// be counted as dying with the value)
		in = nil
		runtime.GC()
		runtime.GC()
		runtime.ReadMemStats(&m0)
		runtime.KeepAlive(val)
		val = nil
		runtime.GC()
		runtime.ReadMemStats(&m1)
		if m0.HeapAlloc > m1.HeapAlloc {
			m.H = m0.HeapAlloc - m1.HeapAlloc
		}
		if m.H > m.S {
			m.S = m.H
		}
	} else {
		runtime.GC()
	}
	return m
}

// ---- adversarial families ----------------------------------------------------

type c09Family struct {
	Name     string
	V6       bool
	Make     func(n int, variant int) []byte
	Variants int // 0 = 6
	MaxN     int // 0 = the whole ladder
	Window   int // > 0: the input is the front of a backing array this much larger
}

// container options that hold options of the top-level space: code, fixed header
var c09Containers = []struct {
	Code uint16
	Hdr  []byte
}{
	{3, make([]byte, 12)},
	{4, make([]byte, 4)},
	{5, append(append(make([]byte, 15), 1), 0, 0, 0, 10, 0, 0, 0, 20)},
	{25, make([]byte, 12)},
	{26, append([]byte{0, 0, 0, 10, 0, 0, 0, 20, 64, 0x20, 1}, make([]byte, 14)...)},
	{26, append([]byte{0, 0, 0, 10, 0, 0, 0, 20, 0}, make([]byte, 16)...)}, // prefix length 0
	{97, nil},
}

// c09Patterns: every single container and every unordered pair, alternating.
var c09Patterns = func() [][]int {
	var p [][]int
	for i := range c09Containers {
		p = append(p, []int{i})
	}
	for i := range c09Containers {
		for j := i + 1; j < len(c09Containers); j++ {
			p = append(p, []int{i, j})
		}
	}
	return p
}()

// c09Nest builds a message whose options nest along one path following the pattern; with siblings, every level
// also carries an IA Address, an IA Prefix (length 64) and a status code next to the nested container.
func c09Nest(n int, pattern []int, siblings bool) []byte {
	sib := []byte{}
	if siblings {
		sib = append(sib, v6opt(5, c09Containers[2].Hdr)...)
		sib = append(sib, v6opt(26, c09Containers[4].Hdr)...)
		sib = append(sib, v6opt(13, []byte{0, 0, 'o', 'k'})...)
	}
	var inner []byte
	for lvl := 0; ; lvl++ {
		c := c09Containers[pattern[lvl%len(pattern)]]
		body := append(append(append([]byte{}, c.Hdr...), sib...), inner...)
		if len(body)+4 > n-4 || len(body) > 65535 {
			break
		}
		inner = v6opt(c.Code, body)
	}
	return append([]byte{1, 1, 2, 3}, inner...)
}

func rep(unit []byte, n int) []byte {
	var b []byte
	for len(b)+len(unit) <= n {
		b = append(b, unit...)
	}
	return b
}

func v6opt(code uint16, payload []byte) []byte {
	b := []byte{byte(code >> 8), byte(code), byte(len(payload) >> 8), byte(len(payload))}
	return append(b, payload...)
}

func clip64k(p []byte) []byte {
	if len(p) > 65535 {
		return p[:65535]
	}
	return p
}

// c09MinimalOpts: the smallest well-formed payload of every option type the library parses.
var c09MinimalOpts = []struct {
	code    uint16
	payload []byte
}{
	{1, []byte{0, 3, 0, 1}}, {2, []byte{0, 3, 0, 1}}, {3, make([]byte, 12)}, {4, make([]byte, 4)}, {5, make([]byte, 24)}, {6, []byte{0, 23}},
	{7, []byte{1}}, {8, []byte{0, 1}}, {9, []byte{1, 0, 0, 0}}, {13, []byte{0, 0}}, {14, nil}, {15, []byte{0, 1, 'x'}}, {16, []byte{0, 0, 0, 9, 0, 1, 'x'}},
	{17, []byte{0, 0, 0, 9}}, {18, []byte{1}}, {23, make([]byte, 16)}, {24, []byte{1, 'a', 0}}, {25, make([]byte, 12)}, {26, make([]byte, 25)},
	{32, []byte{0, 0, 2, 88}}, {37, []byte{0, 0, 0, 9, 1}}, {39, []byte{0, 1, 'a', 0}}, {56, append([]byte{0, 1, 0, 16}, make([]byte, 16)...)},
	{59, []byte{'u'}}, {60, []byte{0, 1, 'x'}}, {61, []byte{0, 7}}, {62, []byte{1, 2, 1}}, {79, []byte{0, 1, 2, 3, 4, 5, 6, 7}},
	{88, make([]byte, 16)}, {97, nil}, {98, append([]byte{24, 64, 8, 0}, make([]byte, 20)...)}, {99, []byte{0, 0, 0, 0}}, {135, []byte{2, 35}},
}

var c09Families = []c09Family{
	{Name: "v6/label-pointer-fan", V6: true, Make: func(n, variant int) []byte {
		// one name as long as the limits allow, then pointers onto it
		var name []byte
		switch variant % 3 {
		case 0: // 126 one-byte labels (253 octets + root)
			name = append(rep([]byte{1, 'a'}, 252), 0)
		case 1: // 3 labels of 63
			name = append(rep(append([]byte{63}, make([]byte, 63)...), 192), 0)
		default: // one name filling half the buffer (rejected once limits are enforced)
			name = append(rep([]byte{1, 'a'}, n/2), 0)
		}
		p := append(name, rep([]byte{0xC0, 0x00}, max(0, n-len(name)-8))...)
		return append([]byte{1, 1, 2, 3}, v6opt(24, clip64k(p))...)
	}},
	{Name: "v6/label-unterminated-run", V6: true, Make: func(n, variant int) []byte {
		p := rep([]byte{byte(1 + variant%63), 'a', 'b', 'c'}[:2+variant%3], n-8)
		return append([]byte{1, 1, 2, 3}, v6opt(24, clip64k(p))...)
	}},
	{Name: "v6/ntp-fqdn-fan", V6: true, Make: func(n, variant int) []byte {
		name := append(rep([]byte{1, 'a'}, 252), 0)
		p := append(name, rep([]byte{0xC0, 0x00}, max(0, n-len(name)-12))...)
		return append([]byte{1, 1, 2, 3}, v6opt(56, clip64k(v6opt(3, clip64k(p)[:min(len(p), 65531)])))...)
	}},
	{Name: "v6/label-second-framing", V6: true, Make: func(n, variant int) []byte {
		// in-place names of three 63-octet labels whose content, read from offset 1, is a second chain of
		// 63-octet labels stepping over the in-place length octets; then bare pointers into that content.
		var region []byte
		for len(region)+193 <= max(193, n/2) {
			name := make([]byte, 193)
			name[0], name[64], name[128] = 63, 63, 63
			for i := range name {
				if name[i] == 0 && i != 192 {
					name[i] = 'x'
				}
			}
			name[1], name[65], name[129] = 63, 63, 63 // second framing: length octets one past the real ones
			region = append(region, name...)
		}
		target := []int{1, 65, 2, 129}[variant%4]
		p := append(region, rep([]byte{0xC0, byte(target)}, max(0, n-len(region)-8))...)
		return append([]byte{1, 1, 2, 3}, v6opt(24, clip64k(p))...)
	}},
	{Name: "v6/label-forward-fan", V6: true, Variants: 8, Make: func(n, variant int) []byte {
		// pointers placed BEFORE their target: many forward pointers to one last name that is terminated, or ends
		// exactly on the final octet of the buffer without a root, or lies in the middle followed by more pointers;
		// targets: a short name, a maximal name, a 1-label name
		var target []byte
		switch variant % 4 {
		case 0:
			target = []byte{1, 'x'}
		case 1:
			target = []byte{3, 'f', 'o', 'o', 3, 'b', 'a', 'r'}
		case 2:
			target = rep([]byte{1, 'a'}, 200)
		default:
			target = rep(append([]byte{63}, make([]byte, 63)...), 192)
		}
		if variant/4%2 == 0 {
			target = append(target, 0) // terminated; otherwise the name ends with the buffer
		}
		k := max(1, (n-12-len(target))/2)
		off := 2 * k
		var p []byte
		for i := 0; i < k; i++ {
			p = append(p, 0xC0|byte(off>>8)&0x3f, byte(off))
		}
		p = append(p, target...)
		if off > 0x3fff {
			p = p[len(p)-min(len(p), 0x3fff+len(target)):] // keep the pointers addressable (offset ≤ 14 bits)
			k = (len(p) - len(target)) / 2
			off = 2 * k
			p = p[:0]
			for i := 0; i < k; i++ {
				p = append(p, 0xC0|byte(off>>8)&0x3f, byte(off))
			}
			p = append(p, target...)
		}
		return append([]byte{1, 1, 2, 3}, v6opt(24, clip64k(p))...)
	}},
	{Name: "v6/relaymsg-in-plain-message", V6: true, Make: func(n, variant int) []byte {
		// option 9 carrying a plain (non-relay) message that again carries option 9 …: 8 bytes per level
		inner := []byte{byte(1 + variant%11), 1, 2, 3}
		for len(inner)+8 <= n && len(inner) <= 65000 {
			inner = append([]byte{byte(1 + variant%11), 0, 0, 0, 0, 9, byte(len(inner) >> 8), byte(len(inner))}, inner...)
		}
		return inner
	}},
	{Name: "v6/relay-nesting", V6: true, Make: func(n, variant int) []byte {
		inner := []byte{1, 1, 2, 3}
		for len(inner)+38 <= n && len(inner)+4 <= 65535 {
			hdr := make([]byte, 34)
			hdr[0] = 12
			inner = append(append(hdr, 0, 9, byte(len(inner)>>8), byte(len(inner))), inner...)
		}
		return inner
	}},
	{Name: "v6/ia-nesting", V6: true, Make: func(n, variant int) []byte {
		code := []uint16{3, 25, 4}[variant%3]
		hdr := map[uint16]int{3: 12, 25: 12, 4: 4}[code]
		var inner []byte
		for len(inner)+4+hdr <= n-4 && len(inner)+hdr <= 65535 {
			inner = v6opt(code, append(make([]byte, hdr), inner...))
		}
		return append([]byte{1, 1, 2, 3}, inner...)
	}},
	{Name: "v6/container-patterns", V6: true, Variants: 2 * len(c09Patterns), MaxN: 16384, Make: func(n, variant int) []byte {
		return c09Nest(n, c09Patterns[variant%len(c09Patterns)], variant >= len(c09Patterns))
	}},
	{Name: "v6/container-tail-junk", V6: true, Variants: 7 * 4 * 3, MaxN: 4096, Make: func(n, variant int) []byte {
		// containers nested along one path where EVERY level ends in something that does not tile: 1..3 pad octets,
		// a small option and then pad octets, half an option header, an option announcing more than is left. The
		// datagram is malformed at every level at once; finding that out must not cost more than reading it (a
		// decoder that retries, back-tracks or re-parses per level pays per level, multiplied down the nest)
		c := c09Containers[variant%7]
		pad := make([]byte, 1+variant/28%3)
		var tail []byte
		switch variant / 7 % 4 {
		case 0:
			tail = pad
		case 1:
			tail = append(v6opt(13, []byte{0, 1, 'x'}), pad...)
		case 2:
			tail = []byte{0, 13}
		default:
			tail = []byte{0, 13, 0xff, 0xff, 1}
		}
		var inner []byte
		for {
			body := append(append(append([]byte{}, c.Hdr...), inner...), tail...)
			if len(body)+4 > n-4 {
				break
			}
			inner = v6opt(c.Code, body)
		}
		return append([]byte{1, 1, 2, 3}, inner...)
	}},
	{Name: "v6/announced-length-overrun", V6: true, Variants: 20, Make: func(n, variant int) []byte {
		// items whose announced length exceeds what is left, repeated: the datagram is rejected (or the
		// item skipped) and must cost no more than its size
		code := []uint16{60, 15, 16, 17, 56}[variant%5]
		unit := [][]byte{{0xff, 0xff}, {0xff, 0xfe, 0x7f}, {0x80, 0x00, 0, 1}, {0, 1, 0xff, 0xff}}[variant/5%4]
		var p []byte
		if code == 16 || code == 17 {
			p = []byte{0, 0, 0, 9}
		}
		if variant%2 == 1 {
			p = append(p, 0, 1, 'x') // one good item first (for 17/56: a malformed prefix)
		}
		p = append(p, rep(unit, max(0, n-12-len(p)))...)
		return append([]byte{1, 1, 2, 3}, v6opt(code, clip64k(p))...)
	}},
	{Name: "v6/toplevel-length-overrun", V6: true, Variants: 12, Make: func(n, variant int) []byte {
		// small valid options, then one option of every container/list kind announcing 65535 bytes
		code := []uint16{1, 3, 5, 6, 9, 15, 17, 23, 24, 25, 60, 97}[variant%12]
		p := rep([]byte{0, 14, 0, 0}, max(0, n-12))
		return append(append([]byte{1, 1, 2, 3}, p...), byte(code>>8), byte(code), 0xff, 0xff, 1, 2, 3, 4)
	}},
	{Name: "v6/minimal-options", V6: true, Make: func(n, variant int) []byte {
		unit := [][]byte{{0, 14, 0, 0}, {0, 200, 0, 0}, {0, 18, 0, 0}, {0, 59, 0, 0}, {0, 6, 0, 0}, {0, 60, 0, 0}}[variant%6]
		return append([]byte{1, 1, 2, 3}, rep(unit, n-4)...)
	}},
	{Name: "v6/mixed-list-repeated-known", V6: true, Variants: 3 * len(c09MinimalOpts), Make: func(n, variant int) []byte {
		// one flat option list in which ONE option type (every type in turn, with its smallest well-formed payload)
		// is repeated as often as fits — after a long run of unknown options, alternating with them, or alone:
		// whatever a decoder does per repeated option (look-ups, replacement, de-duplication, list rebuilding)
		// must not depend on how long the list already is
		u := c09MinimalOpts[variant%len(c09MinimalOpts)]
		unit := v6opt(u.code, u.payload)
		other := []byte{0, 200, 0, 0}
		b := []byte{1, 1, 2, 3}
		switch variant / len(c09MinimalOpts) % 3 {
		case 0:
			b = append(b, rep(other, n/2)...)
			b = append(b, rep(unit, max(len(unit), n-len(b)))...)
		case 1:
			b = append(b, rep(append(append([]byte{}, other...), unit...), max(len(unit)+4, n-4))...)
		default:
			b = append(b, rep(unit, max(len(unit), n-4))...)
		}
		return b
	}},
	{Name: "v6/container-list-repeated-known", V6: true, Variants: 2 * 7 * len(c09MinimalOpts), MaxN: 16384, Make: func(n, variant int) []byte {
		// the same inside every container option: ONE option type (every type in turn) repeated as often as fits
		// after a long run of other options, or alternating with them — a container's own option parser (and what
		// it does per repeated sub-option) is measured like the top-level one
		u := c09MinimalOpts[variant%len(c09MinimalOpts)]
		c := c09Containers[variant/len(c09MinimalOpts)%7]
		unit := v6opt(u.code, u.payload)
		other := []byte{0, 200, 0, 0}
		room := min(n-12, 65535) - len(c.Hdr)
		body := append([]byte{}, c.Hdr...)
		if variant/len(c09MinimalOpts)/7%2 == 0 {
			body = append(body, rep(other, room/2)...)
			body = append(body, rep(unit, max(len(unit), room-room/2))...)
		} else {
			body = append(body, rep(append(append([]byte{}, other...), unit...), max(len(unit)+4, room))...)
		}
		return append([]byte{1, 1, 2, 3}, v6opt(c.Code, clip64k(body))...)
	}},
	{Name: "v6/window-of-large-buffer", V6: true, Variants: 8, Window: 8 << 20, Make: func(n, variant int) []byte {
		// ordinary well-formed messages handed over as the front of an 8 MiB array (every second variant wrapped in a
		// relay): what decoding costs depends on the length of the input, not on the capacity behind it
		u := c09MinimalOpts[(variant*7)%len(c09MinimalOpts)]
		b := append([]byte{1, 1, 2, 3}, rep(append(v6opt(u.code, u.payload), 0, 200, 0, 0), max(8, n-4))...)
		if variant%2 == 1 && len(b) < 65000 {
			b = append(append(make([]byte, 34), 0, 9, byte(len(b)>>8), byte(len(b))), b...)
			b[0] = 12
		}
		return b
	}},
	{Name: "v4/window-of-large-buffer", V6: false, Variants: 6, Window: 8 << 20, Make: func(n, variant int) []byte {
		p := v4Prefix()
		for c := 1; len(p)+6 < n-1 && c < 250; c++ {
			l := min(4+variant*40, n-1-len(p)-2, 255)
			if l < 0 {
				break
			}
			p = append(append(p, byte(c), byte(l)), make([]byte, l)...)
		}
		return append(p, 255)
	}},
	{Name: "v6/empty-items", V6: true, Make: func(n, variant int) []byte {
		code := []uint16{15, 60, 16}[variant%3]
		p := rep([]byte{0, 0}, n-12)
		if code == 16 {
			p = append([]byte{0, 0, 0, 9}, p...)
		}
		return append([]byte{1, 1, 2, 3}, v6opt(code, clip64k(p))...)
	}},
	{Name: "v6/vendor-opts-minimal", V6: true, Make: func(n, variant int) []byte {
		p := append([]byte{0, 0, 0, 9}, rep([]byte{0, 1, 0, 0}, n-16)...)
		return append([]byte{1, 1, 2, 3}, v6opt(17, clip64k(p))...)
	}},
	{Name: "v6/oro-many", V6: true, Make: func(n, variant int) []byte {
		var p []byte
		for i := 0; len(p)+2 <= n-8 && i < 32767; i++ {
			c := uint16(i)
			if variant%2 == 1 {
				c = uint16(i % 7)
			}
			p = append(p, byte(c>>8), byte(c))
		}
		return append([]byte{1, 1, 2, 3}, v6opt(6, p)...)
	}},
	{Name: "v6/dhcpv4-in-dhcpv6", V6: true, Make: func(n, variant int) []byte {
		inner := append(v4Prefix(), rep(append([]byte{43, 255}, make([]byte, 255)...), max(0, min(n, 65000)-250))...)
		inner = append(inner, 255)
		return append([]byte{20, 0, 0, 0}, v6opt(87, inner)...)
	}},
	{Name: "v6/addresses", V6: true, Make: func(n, variant int) []byte {
		code := []uint16{23, 88}[variant%2]
		return append([]byte{1, 1, 2, 3}, v6opt(code, clip64k(rep(make([]byte, 16), n-8)))...)
	}},
	{Name: "v4/repeated-option-255", V6: false, Make: func(n, variant int) []byte {
		return append(append(v4Prefix(), rep(append([]byte{43, 255}, make([]byte, 255)...), n-241)...), 255)
	}},
	{Name: "v4/repeated-option-1", V6: false, Make: func(n, variant int) []byte {
		return append(append(v4Prefix(), rep([]byte{43, 1, 'x'}, n-241)...), 255)
	}},
	{Name: "v4/repeated-option-0", V6: false, Make: func(n, variant int) []byte {
		return append(append(v4Prefix(), rep([]byte{byte(1 + variant%254), 0}, n-241)...), 255)
	}},
	{Name: "v4/many-codes", V6: false, Make: func(n, variant int) []byte {
		var a []byte
		for i := 0; len(a)+3 <= n-241; i++ {
			a = append(a, byte(1+i%254), 1, byte(i))
		}
		return append(append(v4Prefix(), a...), 255)
	}},
	{Name: "v4/pads", V6: false, Make: func(n, variant int) []byte {
		return append(append(v4Prefix(), make([]byte, max(0, n-241))...), 255)
	}},
}

// Absolute caps, calibrated on the repaired tree (see DESIGN.md, C09): the worst
// legitimate family is the pointer fan, where each 2-byte pointer yields a
// 255-octet name assembled from up to 127 labels.
const (
	c09KS = 640.0 // S ≤ KS·n + CS        (worst measured: 135 per byte)
	c09CS = 8192.0
	c09KA = 140000.0 // A ≤ KA·n·(d+1) + CA  (worst measured: 33,328 per byte)
	c09CA = 65536.0
)

// Per-family caps: 4× the cost measured on the repaired tree (c09_calibration.json,
// written by VERIF_C09_CALIBRATE=1). They make the check sensitive to regressions
// far below the global cap; a family without calibration only gets the global cap.
type c09Cal struct {
	A float64 `json:"alloc_per_byte_per_level"`
	S float64 `json:"retained_per_byte"`
}

var (
	c09calOnce sync.Once
	c09cal     map[string]c09Cal
)

func c09Calibration() map[string]c09Cal {
	c09calOnce.Do(func() {
		c09cal = map[string]c09Cal{}
		if b, err := os.ReadFile(filepath.Join(obs.Root(), "c09_calibration.json")); err == nil {
			_ = json.Unmarshal(b, &c09cal)
		}
	})
	return c09cal
}

func c09FamilyCaps(name string, m c09Meas) *obs.Fail {
	cal, ok := c09Calibration()[name]
	if !ok || os.Getenv("VERIF_C09_CALIBRATE") != "" {
		return nil
	}
	capA := 4*cal.A + 64
	capS := 4*cal.S + 64
	if a := (float64(m.A) - c09CA) / float64(m.N) / float64(m.D+1); a > capA {
		return obs.Failf("C09/alloc-family-cap/"+name, fmt.Sprintf("allocation per input byte and level ≤ %.0f (4× the calibrated %.1f) for n=%d d=%d", capA, cal.A, m.N, m.D), "%.1f (A=%d)", a, m.A)
	}
	if sz := (float64(m.S) - c09CS) / float64(m.N); sz > capS {
		return obs.Failf("C09/size-family-cap/"+name, fmt.Sprintf("retained bytes per input byte ≤ %.0f (4× the calibrated %.1f) for n=%d", capS, cal.S, m.N), "%.1f (S=%d)", sz, m.S)
	}
	return nil
}

func c09Caps(m c09Meas) *obs.Fail {
	if float64(m.S) > c09KS*float64(m.N)+c09CS {
		return obs.Failf("C09/size-cap", fmt.Sprintf("retained size ≤ %.0f·n+%.0f for n=%d", c09KS, c09CS, m.N), "%d bytes (%.1f per input byte)", m.S, float64(m.S)/float64(max(1, m.N)))
	}
	if float64(m.A) > c09KA*float64(m.N)*float64(m.D+1)+c09CA {
		return obs.Failf("C09/alloc-cap", fmt.Sprintf("allocation ≤ %.0f·n·(d+1)+%.0f for n=%d d=%d", c09KA, c09CA, m.N, m.D), "%d bytes (%.1f per input byte and level)", m.A, float64(m.A)/float64(max(1, m.N))/float64(m.D+1))
	}
	return nil
}

type c09Case struct {
	Family  int `json:"family"`
	Variant int `json:"variant"`
}

var c09Ladder = []int{64, 128, 256, 512, 1024, 4096, 16384, 65507}

// c09scale: absolute caps at every rung and the scaling check between 4 k and the larger rungs.
var c09scale = newChk("C09", "family-scaling",
	"parametric adversarial families (compression-pointer fans onto maximal names, unterminated label runs, relay nesting to depth n/38, IA nesting to depth n/16, n/4 minimal options, empty user-class/boot-parameter/vendor-class items, vendor sub-options, huge ORO lists, DHCPv4-in-DHCPv6, address lists; DHCPv4 repeated 255/1/0-byte instances, many codes, pads) at n = 1 k, 4 k, 16 k, 65,507: absolute caps on retained size and on allocation per input byte and nesting level at every rung, and the per-byte(-and-level) cost at 16 k and 65 k must not exceed 4× (+ a small constant) the cost at 4 k; a violation at a small n stops the ladder; non-trivial = n ≥ 1 k and the decoder consumed the input; distinct by (family, variant, n)",
	func(rec *obs.Rec, c c09Case) *obs.Fail {
		f := c09Families[c.Family%len(c09Families)]
		var base c09Meas
		for _, n := range c09Ladder {
			if f.MaxN > 0 && n > f.MaxN {
				break
			}
			b := f.Make(n, c.Variant)
			if n != c09Ladder[0] {
				rec.Eval() // every size of the ladder is one evaluation (the first one is counted by the driver of the case)
			}
			m := c09MeasureW(f.V6, b, f.Window)
			rec.Class(fmt.Sprintf("%s n=%d accepted=%v", f.Name, n, m.Accepted))
			rec.Extra(fmt.Sprintf("cost %s/v%d n=%d", f.Name, c.Variant, n), fmt.Sprintf("A/n/(d+1)=%.1f S/n=%.1f d=%d accepted=%v", float64(m.A)/float64(m.N)/float64(m.D+1), float64(m.S)/float64(m.N), m.D, m.Accepted))
			if os.Getenv("VERIF_C09_CALIBRATE") != "" {
				c09Observe(f.Name, m)
			}
			if fl := c09Caps(m); fl != nil {
				fl.Sig += "/" + f.Name
				return fl
			}
			if fl := c09FamilyCaps(f.Name, m); fl != nil {
				return fl
			}
			if n == 4096 {
				base = m
			}
			if n > 4096 {
				ra := float64(m.A) / float64(m.N) / float64(m.D+1)
				rb := float64(base.A) / float64(base.N) / float64(base.D+1)
				if ra > 4*rb+64 {
					return obs.Failf("C09/alloc-scaling/"+f.Name, fmt.Sprintf("allocation per input byte and level at n=%d ≤ 4× that at 4 k (%.1f)", n, rb), "%.1f (d=%d, A=%d)", ra, m.D, m.A)
				}
				sa := float64(m.S) / float64(m.N)
				sb := float64(base.S) / float64(base.N)
				if sa > 4*sb+64 {
					return obs.Failf("C09/size-scaling/"+f.Name, fmt.Sprintf("retained bytes per input byte at n=%d ≤ 4× that at 4 k (%.1f)", n, sb), "%.1f", sa)
				}
			}
			if n < 1024 {
				continue
			}
			rec.NonTrivial(obs.Hash64([]byte(f.Name), []byte{byte(c.Variant), byte(n >> 8), byte(n)}), func() any {
				return map[string]any{"family": f.Name, "variant": c.Variant, "n": m.N, "depth": m.D, "accepted": m.Accepted, "alloc_per_byte_per_level": float64(m.A) / float64(m.N) / float64(m.D+1), "retained_per_byte": float64(m.S) / float64(m.N)}
			})
		}
		return nil
	})

var c09seen = map[string]c09Cal{}

func c09Observe(name string, m c09Meas) {
	c := c09seen[name]
	if a := (float64(m.A) - c09CA) / float64(m.N) / float64(m.D+1); a > c.A {
		c.A = a
	}
	if sz := (float64(m.S) - c09CS) / float64(m.N); sz > c.S {
		c.S = sz
	}
	c09seen[name] = c
}

func TestC09_Families(t *testing.T) {
	for fi := range c09Families {
		for v := 0; v < max(6, c09Families[fi].Variants); v++ {
			c09scale.one(t, c09Case{Family: fi, Variant: v})
		}
	}
	if os.Getenv("VERIF_C09_CALIBRATE") != "" {
		b, _ := json.MarshalIndent(c09seen, "", " ")
		if err := os.WriteFile(filepath.Join(obs.Root(), "c09_calibration.json"), b, 0o644); err != nil {
			t.Fatal(err)
		}
	}
}

// ---- generated inputs and hill climbing --------------------------------------------

type c09Climb struct {
	V6    bool    `json:"v6"`
	Seed  obs.Hex `json:"seed_input"`
	Steps []int   `json:"steps"` // mutation selectors, applied greedily (kept iff the cost ratio increases)
}

func c09Mutate(b []byte, sel int, v6 bool) []byte {
	b = append([]byte{}, b...)
	if len(b) < 8 {
		return b
	}
	r := func(k int) int { return (sel/7 + k*131) % len(b) }
	switch sel % 7 {
	case 0: // duplicate the tail half (more of whatever is expensive)
		h := len(b) / 2
		b = append(b, b[h:]...)
	case 1: // turn two bytes into a compression pointer to offset 0..255
		i := r(1)
		if i+1 < len(b) {
			b[i], b[i+1] = 0xC0, byte(sel/7)
		}
	case 2: // raise a length field
		offs := refv6.LenOffsets(b)
		if v6 && len(offs) > 0 {
			o := offs[(sel/7)%len(offs)]
			if o+1 < len(b) {
				rem := len(b) - o - 2
				b[o], b[o+1] = byte(rem>>8), byte(rem)
			}
		}
	case 3: // zero a length field (more, smaller options)
		offs := refv6.LenOffsets(b)
		if v6 && len(offs) > 0 {
			o := offs[(sel/7)%len(offs)]
			if o+1 < len(b) {
				b[o], b[o+1] = 0, 0
			}
		}
	case 4: // wrap in a relay level / an IA level
		if v6 && len(b) < 60000 {
			if (sel/7)%2 == 0 {
				hdr := make([]byte, 34)
				hdr[0] = 12
				b = append(append(hdr, 0, 9, byte(len(b)>>8), byte(len(b))), b...)
			} else if len(b) > 4 {
				body := append(make([]byte, 12), b[4:]...)
				b = append(append([]byte{}, b[:4]...), v6opt(3, body)...)
			}
		}
	case 5: // set a byte to a small length
		b[r(2)] = byte(sel/7) % 4
	case 6: // repeat a 4-byte window many times
		i := r(3)
		if i+4 <= len(b) {
			w := append([]byte{}, b[i:i+4]...)
			for k := 0; k < 64; k++ {
				b = append(b, w...)
			}
		}
	}
	if len(b) > 65507 {
		b = b[:65507]
	}
	return b
}

var c09climb = newChk("C09", "hill-climb",
	"generated valid messages (every option type) and family seeds, then up to 12 rapid-drawn mutations applied greedily — a mutation is kept iff it raises bytes-allocated per input byte and nesting level — with the absolute caps checked after every step; rejected inputs are measured too; non-trivial = final input ≥ 1 k bytes or ≥ 1 kept mutation; distinct by case hash",
	func(rec *obs.Rec, c c09Climb) *obs.Fail {
		cur := append([]byte{}, c.Seed...)
		m := c09Measure(c.V6, cur)
		if f := c09Caps(m); f != nil {
			f.Sig += "/generated"
			return f
		}
		ratio := func(m c09Meas) float64 { return float64(m.A) / float64(max(1, m.N)) / float64(m.D+1) }
		best := ratio(m)
		kept := 0
		for _, s := range c.Steps {
			next := c09Mutate(cur, s, c.V6)
			nm := c09Measure(c.V6, next)
			if f := c09Caps(nm); f != nil {
				f.Sig += "/climbed"
				return f
			}
			if r := ratio(nm); r > best {
				best, cur, m = r, next, nm
				kept++
			}
		}
		rec.Class(fmt.Sprintf("kept mutations: %d", min(kept, 5)))
		if m.Accepted {
			rec.Class("final accepted")
		} else {
			rec.Class("final rejected")
		}
		if len(cur) >= 1024 || kept > 0 {
			rec.NonTrivial(obs.HashJSON(c), func() any {
				return map[string]any{"v6": c.V6, "final_len": len(cur), "kept": kept, "alloc_per_byte_per_level": best, "retained_per_byte": float64(m.S) / float64(max(1, m.N)), "depth": m.D}
			})
		}
		return nil
	})

func TestC09_ClimbRapid(t *testing.T) {
	c09climb.rapidCheck(t, rapid.Custom(func(rt *rapid.T) c09Climb {
		c := c09Climb{V6: rapid.IntRange(0, 3).Draw(rt, "fam") != 0}
		switch rapid.IntRange(0, 2).Draw(rt, "seedkind") {
		case 0:
			fams := []int{}
			for i, f := range c09Families {
				if f.V6 == c.V6 {
					fams = append(fams, i)
				}
			}
			f := c09Families[rapid.SampledFrom(fams).Draw(rt, "family")]
			c.Seed = f.Make(rapid.SampledFrom([]int{256, 1024, 2048}).Draw(rt, "n"), rapid.IntRange(0, 5).Draw(rt, "variant"))
		default:
			if c.V6 {
				c.Seed = genV6Mutated(1).Draw(rt, "v6")
			} else {
				c.Seed = gen.V4Wire(8, 600, 1).Draw(rt, "v4")
			}
		}
		c.Steps = rapid.SliceOfN(rapid.IntRange(0, 1<<20), 0, 12).Draw(rt, "steps")
		return c
	}))
}

var _ = os.Getenv
