package props

import (
	"context"
	"fmt"
	"sync"
	"testing"
	"time"

	"pgregory.net/rapid"

	"verif/netsim"
	"verif/obs"
)

// C10, real-time contention mode: real goroutines, real mutex contention. Sleeps
// are only used to reach an interleaving, never as an oracle; the assertions are
// interleaving-independent safety facts: a call returns its own transaction's
// datagram (delivered during the call, accepted by its matcher) or a non-nil
// error — never (nil, nil) — and nothing panics.

type c10Race struct {
	V6      bool `json:"v6"`
	Extra   int  `json:"extra"`     // datagrams delivered while call A is paused inside its matcher (buffer cap is 5)
	BNil    bool `json:"b_nil"`     // call B uses a nil matcher
	BDelay  int  `json:"b_delay"`   // µs between the last delivery and the start of B
	RDelay  int  `json:"rel_delay"` // µs between the start of B and the release of A
	SameXid bool `json:"same_xid"`  // B reuses A's transaction id
	Callers int  `json:"callers"`   // additional concurrent callers with the same id started with B
}

var c10race = newChk("C10", "contention",
	"real-time scenarios with real lock contention on one client: call A is paused inside its matcher after deciding to accept, 5..9 further same-id datagrams arrive (per-transaction buffer full, receive loop blocked while holding the client's lock), 1..3 callers reusing (or not) the same transaction id start and queue on the lock, then A is released; asserted (sound under every interleaving): every call returns a datagram of its own transaction accepted by its matcher or a non-nil error, never (nil, nil), and nothing panics; non-trivial = buffer overfull and a same-id caller; distinct by parameter tuple",
	func(rec *obs.Rec, c c10Race) *obs.Fail {
		var ad cliAdapter = &v4Adapter{}
		if c.V6 {
			ad = &v6Adapter{}
		}
		conn := netsim.New(4096)
		if err := ad.start(conn, 80*time.Millisecond, 1, 0); err != nil {
			return obs.Failf("C10/harness", "client starts", "%v", err)
		}
		defer ad.close()
		want := wantTypes(c.V6)[0]
		release := make(chan struct{})
		entered := make(chan struct{})
		type res struct {
			serial, typ int
			isNil       bool
			err         error
			panicked    string
		}
		run := func(xid int, match func(serial, typ int) bool, noMatcher bool) <-chan res {
			ch := make(chan res, 1)
			go func() {
				var r res
				defer func() {
					if p := recover(); p != nil {
						r.panicked = fmt.Sprint(p)
					}
					ch <- r
				}()
				req, _ := ad.request(xid, 0)
				r.serial, r.typ, r.isNil, _, r.err = ad.call(context.Background(), req, match, noMatcher)
			}()
			return ch
		}
		var once sync.Once
		aCh := run(1, func(serial, typ int) bool {
			once.Do(func() { close(entered); <-release })
			return typ == want
		}, false)
		// wait until A's request is out, then answer it
		deadline := time.Now().Add(2 * time.Second)
		for len(conn.Writes()) == 0 && time.Now().Before(deadline) {
			time.Sleep(50 * time.Microsecond)
		}
		conn.Deliver(ad.datagram(dgGood, 1, want, 1, 0, 0, 0), ad.dest())
		select {
		case <-entered:
		case <-time.After(2 * time.Second):
			close(release)
			return nil // A never saw the datagram (inconclusive iteration)
		}
		for i := 0; i < c.Extra; i++ {
			conn.Deliver(ad.datagram(dgGood, 1, want, 100+i, 0, 0, 0), ad.dest())
		}
		// let the receive loop take them (it blocks on the full buffer holding the lock when Extra > 5)
		for w := 0; conn.Pending() > 0 && w < 400; w++ {
			time.Sleep(50 * time.Microsecond)
		}
		time.Sleep(time.Duration(c.BDelay) * time.Microsecond)
		bx := 1
		if !c.SameXid {
			bx = 2
		}
		var bChs []<-chan res
		for k := 0; k < c.Callers; k++ {
			bChs = append(bChs, run(bx, func(serial, typ int) bool { return typ == want }, c.BNil))
		}
		time.Sleep(time.Duration(c.RDelay) * time.Microsecond)
		close(release)
		// answer the late callers so that they do not have to run into their timeout
		go func() {
			for k := 0; k < 3; k++ {
				time.Sleep(2 * time.Millisecond)
				for j := 0; j < c.Callers; j++ {
					conn.Deliver(ad.datagram(dgGood, bx, want, 500+10*k+j, 0, 0, 0), ad.dest())
				}
			}
		}()
		check := func(who string, r res, xid int) *obs.Fail {
			name := ad.name()
			switch {
			case r.panicked != "":
				return obs.Failf("C10/"+name+"/contention/panic", who+" returns normally", "panic: %s", r.panicked)
			case r.isNil && r.err == nil:
				return obs.Failf("C10/"+name+"/contention/nil-nil", who+" returns a response or an error", "(nil, nil)")
			case r.err == nil && r.typ != want:
				return obs.Failf("C10/"+name+"/contention/matcher", who+" returns a datagram its matcher accepts", "type %d", r.typ)
			case r.err == nil && r.serial < 1:
				return obs.Failf("C10/"+name+"/contention/foreign", who+" returns a datagram delivered for its transaction", "serial %d", r.serial)
			}
			return nil
		}
		select {
		case r := <-aCh:
			if f := check("call A", r, 1); f != nil {
				return f
			}
		case <-time.After(60 * time.Second):
			return obs.Failf("C10/"+ad.name()+"/contention/stuck", "call A returns", "still running 60 s after release")
		}
		for k, ch := range bChs {
			select {
			case r := <-ch:
				if f := check(fmt.Sprintf("caller B%d", k), r, bx); f != nil {
					return f
				}
			case <-time.After(60 * time.Second):
				return obs.Failf("C10/"+ad.name()+"/contention/stuck", "caller B returns", "still running 60 s after release")
			}
		}
		rec.Class(ad.name())
		if c.Extra > 5 && c.SameXid {
			rec.Class("overfull buffer + same-id caller")
			rec.NonTrivial(obs.HashJSON(c), func() any { return c })
		}
		return nil
	})

func TestC10_ContentionRapid(t *testing.T) {
	c10race.rapidCheck(t, rapid.Custom(func(rt *rapid.T) c10Race {
		return c10Race{V6: rapid.Bool().Draw(rt, "v6"), Extra: rapid.IntRange(4, 9).Draw(rt, "extra"), BNil: rapid.Bool().Draw(rt, "bnil"),
			BDelay: rapid.SampledFrom([]int{0, 50, 200, 1000}).Draw(rt, "bdelay"), RDelay: rapid.SampledFrom([]int{0, 100, 500, 2000}).Draw(rt, "rdelay"),
			SameXid: rapid.IntRange(0, 4).Draw(rt, "same") != 0, Callers: rapid.IntRange(1, 3).Draw(rt, "callers")}
	}))
}
