#!/usr/bin/env python3
# usage: tools/automut_recheck.py <list.json> <out.jsonl> [workers]
# Re-runs survivors of the automatic campaign (file, site pairs) against the CURRENT quick checks mapped to their file.
import json, os, subprocess, sys, shutil, concurrent.futures as cf
sys.path.insert(0, os.path.dirname(__file__))
import importlib.util
spec = importlib.util.spec_from_file_location("automut", os.path.join(os.path.dirname(__file__), "automut.py"))
am = importlib.util.module_from_spec(spec)
sys.argv = [sys.argv[0]] + sys.argv[1:]
items = json.load(open(sys.argv[1]))
out = sys.argv[2]
workers = int(sys.argv[3]) if len(sys.argv) > 3 else 3
src = open(os.path.join(os.path.dirname(__file__), "automut.py")).read()
ns = {"__file__": os.path.join(os.path.dirname(os.path.abspath(__file__)), "automut.py")}
exec(src.split("def env(")[0], ns)
checks_for = ns["checks_for"]
done = set()
if os.path.exists(out):
    for l in open(out):
        r = json.loads(l); done.add((r["file"], r["site"]))

def one(it):
    f, n = it
    w = "/tmp/recheck-%d-%s-%d" % (os.getpid(), f.replace("/", "_"), n)
    shutil.rmtree(w, ignore_errors=True)
    subprocess.run(["rsync", "-a", "--exclude", ".git", "/repo/", w + "/"], check=True)
    res = {"file": f, "site": n, "status": "survived", "by": None}
    try:
        if subprocess.run(["/verif/work/bin/automut", "-file", "/repo/" + f, "-site", str(n), "-out", w + "/" + f]).returncode != 0:
            res["status"] = "error"
            return res
        e = dict(os.environ); e.update({"GOFLAGS": "-mod=mod", "GOPROXY": "off", "GOSUMDB": "off", "GOTOOLCHAIN": "local", "VERIF_REPO": w})
        for c in checks_for(f) or []:
            p = subprocess.run(["./check", c, "quick"], cwd="/verif", env=e, stdout=subprocess.PIPE, stderr=subprocess.STDOUT, text=True)
            if p.returncode == 1:
                sig = [l for l in p.stdout.splitlines() if l.startswith("VIOLATION")][:1]
                res.update(status="killed", by=c, sig=sig)
                break
            if p.returncode != 0:
                res.update(status="inconclusive", by=c)
                break
    finally:
        shutil.rmtree(w, ignore_errors=True)
    return res

todo = [tuple(x) for x in items if tuple(x) not in done]
with cf.ThreadPoolExecutor(workers) as ex, open(out, "a") as fo:
    for r in ex.map(one, todo):
        fo.write(json.dumps(r) + "\n"); fo.flush()
        print(r["file"], r["site"], r["status"], r.get("by"), flush=True)
